"""Regenerates /verif/MANIFEST.json from the table below (keeps it schema-valid)."""
import json, os, sys
ROOT = os.path.dirname(os.path.dirname(os.path.abspath(__file__)))
sys.path.insert(0, ROOT)
from tools.manifest_table import CHECKS, NOT_APPLICABLE

PY = "/venv/bin/python"
BASE = ("cd /repo && /venv/bin/python -m pytest -ra -q -p no:cacheprovider --timeout=900 "
        "--continue-on-collection-errors")

props = [json.loads(l) for l in open(os.path.join(ROOT, "properties.jsonl"))]
ids = [p["id"] for p in props]
checks = []
for pid in ids:
    if pid not in CHECKS:
        continue
    c = CHECKS[pid]
    checks.append({
        "property_id": pid,
        "quick_cmd": "cd /verif && %s -m vp.check %s --tier quick" % (PY, pid),
        "thorough_cmd": "cd /verif && %s -m vp.check %s --tier thorough" % (PY, pid),
        "evidence_file": "/verif/evidence/%s.json" % pid,
        "replay_cmd_template": "cd /verif && %s -m vp.check %s --replay {path}" % (PY, pid),
        "engine": "vp",
        "level_claimed": {"category": "exploration", "text": c["text"], "design_ref": c["design_ref"]},
        "level_note": c["note"],
        "technique": c["technique"],
    })
na = [{"property_id": pid, "reason": NOT_APPLICABLE.get(pid, "check not built yet (work in progress); no claim is made")}
      for pid in ids if pid not in CHECKS]
man = {
    "version": 1,
    "setup_cmd": "cd /verif && %s -m vp.setup" % PY,
    "hooks": {"guard": "PYPOSE_VERIF", "enable": "no source hooks are needed: every property is observed through the public API; "
              "checks import /repo/pypose directly (editable install, pure Python), so they always run the current working tree",
              "baseline_off_cmd": BASE, "source_commits": [], "add_only": True},
    "engines": [{"name": "vp", "path": "/verif/vp", "serves_properties": [c["property_id"] for c in checks],
                 "kind_free_text": "Hypothesis-driven property-based testing (regime-directed generators, stateful histories, "
                 "fault injection, exhaustive enumeration of small finite domains) against independent numpy/mpmath oracles; "
                 "16-way sharded, failure bucketing + shrinking to JSON replay files"}],
    "checks": checks,
    "not_applicable": na,
    "notes": "See /verif/DESIGN.md. Exit 0 = held on everything explored (possibly with KNOWN-FINDING lines); 1 = VIOLATION lines; "
             "2 = harness error (never a violation). VERIF_SEED selects the Hypothesis seed.",
}
json.dump(man, open(os.path.join(ROOT, "MANIFEST.json"), "w"), indent=1)
try:
    import jsonschema
    jsonschema.validate(man, json.load(open("/root/.vp/MANIFEST.schema.json")))
    print("MANIFEST.json valid: %d checks, %d not_applicable" % (len(checks), len(na)))
except ImportError:
    print("written (jsonschema not available to validate)")
