#!/bin/bash
# run the pinned baseline on every fix commit of /repo (each in a scratch worktree, removed afterwards)
set -u
commits=$(git -C /repo log --format=%h --reverse 4aacd81..HEAD)
run_one() {
  c=$1; d=/tmp/vp_bl_$c
  git -C /repo worktree add -q --detach $d $c 2>/dev/null
  out=$(/venv/bin/python /verif/tools/baseline.py $d 2>&1 | tr '\n' ' ')
  echo "$c $out"
  git -C /repo worktree remove --force $d
}
export -f run_one
echo "$commits" | xargs -P 4 -I{} bash -c 'run_one {}'
