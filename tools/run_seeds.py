"""re-run the registered quick check(s) of every seeded change in seeded/*/ (patch applied to a scratch copy) and print one line each;
  python tools/run_seeds.py [name-prefix,name-prefix...]"""
import json, subprocess, sys, os, glob, concurrent.futures as cf
ROOT = os.path.dirname(os.path.dirname(os.path.abspath(__file__)))
flt = sys.argv[1].split(",") if len(sys.argv) > 1 else None
seeds = []
for d in sorted(glob.glob(os.path.join(ROOT, "seeded", "*"))):
    name = os.path.basename(d)
    if flt and not any(name.startswith(f) for f in flt):
        continue
    meta = json.load(open(os.path.join(d, "meta.json")))
    seeds.append((name, meta.get("breaks_property") or meta.get("property"), os.path.join(d, "patch.diff")))
def run(s):
    name, prop, patch = s
    cmd = ["/venv/bin/python", os.path.join(ROOT, "tools", "mutate.py"), "--name", "seed_" + name, "--props", prop, "--patch", patch]
    out = subprocess.run(cmd, capture_output=True, text=True, env=dict(os.environ, VERIF_NPROC="4"), cwd=ROOT).stdout
    res = [l for l in out.splitlines() if l.startswith(("RESULT", "MUTATE-ERROR"))]
    first = [l.strip()[:170] for l in out.splitlines() if l.startswith("      ")][:1]
    return name, res, first
with cf.ThreadPoolExecutor(2) as ex:
    for name, res, first in ex.map(run, seeds):
        print(name, "|", " ; ".join(res[-1:]), "|", " ".join(first)); sys.stdout.flush()
