CHECKS = {
 "C16": {
  "text": "Generated IMU streams (B 1..4, F 1..200, dt in [1e-4,1], rates up to |w dt| = 2, with / without supplied rotations, gravity 0 / "
          "non-zero, initial states, both dtypes, input ranks) against a float64 sequential recursion written from the docstring with the "
          "harness's own quaternion algebra; EVERY F in 1..200 and ALL compositions of F <= 6 (quick) / 9 (thorough) enumerated for the "
          "chunking clause (reset=False, carry through buffers or init_state); rank equivalence; covariance symmetric PSD and equal "
          "between feedings. Complete for the enumerated F / compositions, exploration otherwise.",
  "design_ref": "DESIGN.md section 3, C16",
  "note": "The gravity vector is read from the module buffer as stored (float32-rounded); without a supplied rotation either the pre- or post-increment rotation reading is accepted.",
  "technique": "property-based testing: Hypothesis generators + exhaustive enumeration of frame counts / chunkings against a sequential reference model",
 },
 "C17": {
  "text": "Generated correspondence sets (N 3..200; generic, planar, collinear, duplicated, thin-plane, needle; noise 0..0.5 incl. reflection-"
          "prone; rotations over all of SO(3) incl. pi; scales 0.1..10; batches; both dtypes) against Horn's quaternion optimum and the "
          "closed-form similarity optimum as a VALIDITY predicate (proper transform, SSE not larger than the optimum's, exact "
          "correspondences reproduced with a conditioning-aware residual bound); ICP on jittered-grid clouds (brute-force closest-point "
          "monotonicity, recovery when the first matching is the true one); EPnP from exact projections with tolerances scaled by the "
          "DLT conditioning. Exploration.",
  "design_ref": "DESIGN.md section 3, C17",
  "note": "Reference: numpy Horn / Umeyama (two formulations cross-checked), brute-force closest points, own pinhole projection; EPnP in float64 only.",
  "technique": "property-based testing: Hypothesis generators against reference optimisers used as validity predicates",
 },
 "C19": {
  "text": "Generated point sets / pose sequences / trajectories: chspline knots, straight lines at every sample and exact sample counts (rational "
          "arithmetic on the interval); bspline counts, constant-twist motions against the reference Exp, left-equivariance, continuity, "
          "extrapolated ends; ape / rpe over all error types x pairing options x align/scale/origin flags with jittered timestamps and "
          "subsampling: zero on identical trajectories, invariance under rigid / similarity displacement, statistic ordering, inputs "
          "unchanged; geodesic loss on all 8x8 ltype pairs against atan2 angles of reference matrices. Exploration.",
  "design_ref": "DESIGN.md section 3, C19",
  "note": "Reference: numpy / mpmath Lie algebra of vp/ref/lie.py and vp/ref/traj.py; nposes left at its default; distance pairing only where every discrete decision is clear of ties.",
  "technique": "property-based testing: Hypothesis generators with interpolation, equivariance (metamorphic) and reference-value oracles",
 },
 "C18": {
  "text": "Generated clouds (1..300 points, 1..6 dims, feature channels, outliers at arbitrary rows, integer-grid clouds with ties, batches "
          "where documented) against numpy brute-force definitions: knn values/indices, nbr_filter mask, voxel_filter centroids / members "
          "(voxel-robust construction), knn_filter under both readings of 'neighbours', random_filter distinctness, permutation "
          "equivariance of all of them; camera helpers (both focal signs, batched intrinsics / extrinsics) as mutual inverses with exact "
          "zero reprojection error; homogeneous round trip. Exploration.",
  "design_ref": "DESIGN.md section 3, C18",
  "note": "Reference: numpy brute force written from the definitions (self-tested against a second loop formulation and the docstring examples); radii never within 1e-9 of a pairwise distance.",
  "technique": "property-based testing: Hypothesis generators against brute-force reference implementations and metamorphic (permutation) relations",
 },
 "C10": {
  "text": "Systems built by construction A = U diag(s) V^T (sizes 1..40, rectangular, rank-deficient, cond to 1e8, batches) so the exact "
          "minimum-norm least-squares solution is known: PINV vs it, LSTSQ via the normal equations, Cholesky on SPD and the fail-loudly "
          "clause on indefinite / singular / mixed batches, CG (layouts dense/CSR/COO/BSR, x0, preconditioner, tolerances, b=0); block-"
          "sparse products on generated patterns for all layout pairs with exact integer oracles plus an EXHAUSTIVE enumeration of small "
          "sparsity patterns (10341 cases). Exploration, complete only for the enumerated patterns.",
  "design_ref": "DESIGN.md section 3, C10",
  "note": "Reference: numpy constructions (self-tested against numpy.linalg); LSTSQ's gels driver is only given full-rank input as documented.",
  "technique": "property-based testing: Hypothesis generators with constructed ground truth, differential oracles and exhaustive pattern enumeration",
 },
 "C15": {
  "text": "Generated LTI / LTV systems with independently batched matrices against numpy einsum; op-list histories on one system object "
          "(forward, reset, systime assignment, set_refpoint with every None-combination, reads of A..c2) against a reference integer "
          "clock; sympy-generated smooth time-dependent f, g (lambdified to torch) with symbolic Jacobians, exact affine reproduction at "
          "the reference point and a rigorous Taylor bound / second-order ratio test for the affine model; bmv/bvv/bvmv on broadcastable "
          "batches. Exploration of the system / call-sequence space.",
  "design_ref": "DESIGN.md section 3, C15",
  "note": "Reference: numpy einsum + sympy derivatives (self-tested against finite differences). set_refpoint's effect on the clock is asserted only as documented.",
  "technique": "property-based testing: Hypothesis-generated systems, expression trees and call histories against reference models",
 },
 "C14": {
  "text": "Generated LTI / LTV LQ problems (batch 1..3, dims 1..6, horizon <= 10 quick / 20 thorough, unstable dynamics, time-varying PD cost "
          "with cross terms and condition up to 1e6, affine terms, random nominal inputs) solved inside HISTORIES on one system object "
          "(earlier solves, manual system calls, systime assignment, reset) and compared with an independent condensed QP: feasibility, "
          "reported cost, zero gradient, equality with -H^-1 h, no improving perturbation; MPC on the same linear problems; MPC on smooth "
          "nonlinear systems for feasibility and cost consistency. Exploration.",
  "design_ref": "DESIGN.md section 3, C14",
  "note": "Reference: numpy condensing of the LQ problem (self-tested against numerical gradients); tolerances scale with cond(H).",
  "technique": "property-based testing: Hypothesis-generated problems and call histories against a reference solver (condensed QP)",
 },
 "C13": {
  "text": "Generated linear-Gaussian systems (dims 1..6, SPD Q/R/P over six decades, non-diagonal P, arbitrary y, UKF k incl. negative centre "
          "weight) and filter runs of up to 25 (quick) / 50 steps, every step compared LOCALLY with a 50-digit mpmath Kalman recursion under "
          "backward-error tolerances; EKF on a closed-form nonlinear time-dependent family; covariance symmetry / PSD; a statistical "
          "acceptance test for PF (40 seeded runs, 6-sigma band, Monte-Carlo rate between N and 16N). Exploration; the PF clause is "
          "statistical evidence only.",
  "design_ref": "DESIGN.md section 3, C13",
  "note": "Reference in mpmath; tolerances scale with kappa(S), |K||C| and the dimension. PF seeds are derived from the case, so runs are reproducible.",
  "technique": "property-based testing: Hypothesis-generated systems and filter histories against a high-precision reference model; statistical oracle for PF",
 },
 "C08": {
  "text": "Histories of consecutive step() calls on one model with trial outcomes engineered through a scripted user-supplied solver "
          "(descent / no change / ascent / overshoot / raise at the j-th solve), three strategies with drawn legal hyper-parameters behind "
          "a recording wrapper, reject 0..16, kernels; seven invariants asserted after every step and inside every solver call, with the "
          "loss recomputed by the harness from its own residuals and kernel closed forms; an exhaustive enumeration of all outcome "
          "patterns of length reject+2 over a 4-symbol alphabet for small reject; GaussNewton histories. Bounded histories (<= 30 calls).",
  "design_ref": "DESIGN.md section 3, C08",
  "note": "Model family is fixed (atan residuals + point alignment); the damping rule is only classified when the recomputed quality is clear of the thresholds.",
  "technique": "property-based testing: history generation with fault injection (scripted solver) and invariants against a reference loss",
 },
 "C09": {
  "text": "Generated inputs for all 7 kernels (parameters with exact squares, elements exactly at / 2^k eps around the threshold, 0, tiny, "
          "huge; both dtypes; any shape) against 40-digit mpmath closed forms (value, finiteness, k(0)=0, monotone, Huber value and slope "
          "continuity), a rejection clause for negative input, and the FastTriggs / Triggs identities (robust gradient; Gauss-Newton "
          "Hessian where rho''>0) for built-in and 10 user kernels (rho''>0, =0, <0, mixed sign) with the harness's own rho', rho''.",
  "design_ref": "DESIGN.md section 3, C09",
  "note": "mpmath reference written from the documented formulas (self-tested against mp.diff); loose design tolerance 1e-9 (float64) on the corrector identities.",
  "technique": "property-based testing: Hypothesis generators against closed-form references and algebraic identities",
 },
 "C20": {
  "text": "A reference automaton written from the docstrings drives (i) a prefix-shared enumeration of loss histories over the abstract "
          "alphabet - complete for length <= steps+2, steps 1..4 x patience 1..3 (quick) / length <= min(12, steps+3), steps 1..6 x "
          "patience 1..4 (thorough), plus every history of length <= 12 over every 2-symbol sub-alphabet and near-threshold (+-1 %) and "
          "relative-vs-absolute ladders; (ii) Hypothesis histories of length 1..12 over the full alphabet for steps 1..6 x patience 1..4; "
          "(iii) Hypothesis sequences of real and batched losses with resets; (iv) the driver loops (scheduler.optimize on stub and real "
          "optimizers, MPC, ICP called repeatedly) with counting wrappers, and a fixed driver canary (24 inputs where nothing may be "
          "skipped). Complete for the enumerated boxes named in the module's RULE; exploration beyond.",
  "design_ref": "DESIGN.md section 3, C20",
  "note": "ReduceToBason is asserted with the relative reading its docstring states; StopOnPlateau is asserted only where the absolute and "
          "relative readings agree (its docstring text and example disagree). Only continual() and the stop decisions are asserted while "
          "running; counters are labels. Nothing is generated exactly at a threshold (strictness is undocumented).",
  "technique": "property-based testing / model-based testing: history enumeration and Hypothesis histories/sequences against a reference automaton",
 },
 "C07": {
  "text": "Generated models (mixed parameter kinds, batch items, frozen parameters, residual programs from C04's grammar, second outputs, "
          "targets, SPD weights, kernels, correctors, solvers, strategies, clamps, vectorize) and ONE optimizer step each, compared with an "
          "independent float64 reference built from a finite-difference tangent-space Jacobian, own closed-form rho', own weight expansion: "
          "the linear system handed to the (wrapped) solver at every LM trial and the retracted update. Samples the model space.",
  "design_ref": "DESIGN.md section 3, C07",
  "note": "Forward residuals come from pypose ops (C01-C05); kernels limited to the built-in ones; ill-conditioned GN cases only assert the normal equations.",
  "technique": "property-based testing: Hypothesis-generated models against a reference implementation of the GN/LM linear system",
 },
 "C06": {
  "text": "Enumeration of broadcastable lshape pairs (extents {0,1,2,3}) x group types x binary ops (incl. algebra-left + / add(alpha)) and of "
          "all lshapes x 8 ltypes x unary ops, every documented spelling (method, pp.<Fn>, operator), against item-by-item application, with "
          "the trailing shape of empty batches taken from an unbatched reference item: the thorough tier enumerates the full rank<=3 box "
          "(exhaustive), the quick tier the full rank<=2 box plus a seed-dependent sample of rank-3 pairs; generated programs over a call "
          "template for every name in HANDLED_FUNCTIONS (also on empty batches) compared with the same program on the plain tensor; a table "
          "of ~260 public calls with bitwise argument snapshots, none of which may raise; fault injection (user exception after k ops, "
          "assert / shape / type error inside a pypose op, exception in a backward pass) inside retain_ltype / func.jacrev with identity "
          "checks on the three patched torch attributes.",
  "design_ref": "DESIGN.md section 3, C06",
  "note": "Item-wise oracle uses the same pypose op on unbatched items (the statement is about batching transparency, not op values, which C01-C05 cover). cpu only.",
  "technique": "property-based testing: exhaustive shape enumeration, Hypothesis call programs (differential vs plain tensors), fault injection",
 },
 "C04": {
  "text": "Generated well-typed programs (1..6 operator nodes over the property's operator list with Euclidean glue; 1..3 inputs of kind "
          "group / algebra / point) evaluated at generic, identity, tiny and large-rotation points, through five autograd routes, against "
          "Richardson finite differences of the same forward program where group inputs are perturbed on the left with the harness's own "
          "exponential; exact-zero last slot and finiteness; a separate sweep bounds the sim3 truncation by |ad|^6/360. Samples the "
          "program space; a defect needing one specific deep composition in a thin regime can be missed.",
  "design_ref": "DESIGN.md section 3, C04",
  "note": "Forward values come from pypose itself (verified by C01-C05); perturbations and the differencing are the harness's. Tolerance 1e-6 (|J|+1) in float64.",
  "technique": "property-based testing: Hypothesis-generated programs (typed grammar) against a finite-difference reference Jacobian",
 },
 "C11": {
  "text": "Generated group elements aimed at the four branches of the quaternion extraction (angle pi +- delta about axes/diagonals, both "
          "quaternion signs, scales 1e-3..1e3) converted through matrix() and back on every accepted layout with check on/off; Euler "
          "construction against own Rz Ry Rx and the Euler round trip outside the gimbal band; a rejection clause with perturbations "
          ">=10x / <=0.1x the stated tolerance. Evidence records how many cases hit each extraction branch. Exploration.",
  "design_ref": "DESIGN.md section 3, C11",
  "note": "Reference: own quaternion->matrix formula and elementary rotation matrices. The unconstrained band between 0.1x and 10x tolerance is not asserted.",
  "technique": "property-based testing: Hypothesis generators with branch-directed inputs, round-trip and reference-matrix oracles",
 },
 "C05": {
  "text": "Generated group/algebra pairs (regime tables, both dtypes, broadcastable batch shapes) against float64 references built from "
          "the matrix Lie algebra: Adj/AdjT vs Ad(M) a, the two defining identities, every spelling of the retraction (Retr, +, add, "
          "pp.add, add_, extra junk components, alpha) vs reference-Exp(a) M(X), algebra + tensor, Jinvp vs phi1(ad Log X)^-1 p, Jr vs "
          "phi1(-ad x) and its defining first-order property. Exploration.",
  "design_ref": "DESIGN.md section 3, C05",
  "note": "References: numpy matrix-Lie-algebra adjoints, augmented-matrix phi-function, mpmath Exp; Sim3 Jinvp allowed the documented Bernoulli truncation.",
  "technique": "property-based testing: Hypothesis generators against reference models (matrix Lie algebra / phi-functions)",
 },
 "C02": {
  "text": "Generated valid group elements (both quaternion hemispheres, |w|~0, |v|~0, angle dense near 0 and pi, scales e^+-8 and "
          "1+-2^k eps, translations to 1e3; both dtypes; batches) checked for: reference-Exp(Log X)==X as matrices, |Log X rotation|<=pi, "
          "Log(-q)==Log(q) and Log(Inv X)==-Log X away from pi, and Log(Exp x)==x below pi. Exploration of the input space with "
          "generators aimed at the three-way switch of SO3 Log; no proof.",
  "design_ref": "DESIGN.md section 3, C02",
  "note": "Exp reference is the mpmath closed form of C01; relations (c),(d) are metamorphic (pypose vs pypose) by nature of the statement.",
  "technique": "property-based testing: Hypothesis generators, round-trip and metamorphic oracles with a high-precision reference Exp",
 },
 "C03": {
  "text": "Generated triples and points against a float64 textbook matrix model (homomorphism, associativity, two-sided inverse, identity "
          "constructors, Act on 3- and 4-vectors, composition), and run-length-encoded operation histories (up to 1500 steps quick / 10^4 "
          "thorough) on one element with validity and model agreement asserted after every step. Bounded exploration.",
  "design_ref": "DESIGN.md section 3, C03",
  "note": "Reference: own quaternion->matrix formula and numpy products; tolerance 16*eps*product of factor norms; drift bounds 4*eps*(1+n), 256*eps*(1+n).",
  "technique": "property-based testing: Hypothesis generators + history generation against a reference matrix model",
 },
 "C01": {
  "text": "Regime-directed generated search (each of translation / rotation / log-scale drawn independently from a table "
          "covering exact 0, eps- and sqrt(eps)-neighbourhoods, k*pi, beyond pi, large) plus a deterministic (theta,sigma) "
          "lattice, both dtypes, all four algebras, against a >=60-digit mpmath closed form of the matrix exponential. "
          "Exploration: it samples the input space densely where the code switches formula but proves nothing.",
  "design_ref": "DESIGN.md section 3, C01",
  "note": "Trusts mpmath (closed form self-tested against mpmath.expm on every run). Tolerances are the property's: c*eps for "
          "rotation/scale, c*sqrt(eps) normwise (+ forward bound of the mat-vec) for translation.",
  "technique": "property-based testing: Hypothesis regime generators + lattice enumeration against a high-precision reference",
 },
 "C12": {
  "text": "Exhaustive enumeration of the index schedule (every L in 1..4096, both orders, in/out-of-place) with an exact "
          "non-commutative interval monoid, plus generated tensors of rank 1..4 on every axis, free-monoid words and the "
          "LieTensor cumprod/cummul/cumops APIs on four groups against an independent sequential fold. The schedule depends "
          "only on L, so the enumeration decides it for all L <= 4096; beyond that and for the numeric group part this is "
          "exploration, not proof.",
  "design_ref": "DESIGN.md section 3, C12",
  "note": "Trusts torch index_select/index_copy_ and int64 arithmetic; the float oracle is the harness's own float64 "
          "quaternion algebra with tolerance 16*L*eps*scale.",
  "technique": "property-based testing: exhaustive enumeration + Hypothesis generators against a sequential-fold reference model",
 },
}
NOT_APPLICABLE = {}

# additions made after the audit round and the seeding rounds (DESIGN 8.4 / 8.5); appended to the "text" of the check
LATER = {
 "C01": " Later additions: sub-check `reuse` (Exp on the same tensor object again after an in-place change of its data and after the returned element was overwritten); every case carries a memory layout (contiguous / batch dimensions stored reversed / strided view) and batches of up to 6 items.",
 "C02": " Later additions: memory layout and batches with two extents > 1 in every case; regime `nearpi` and the gap between the eps and sqrt(eps) bands in the shared generators.",
 "C03": " Later additions: the laws on a (2,2) batch against a second operand that broadcasts along a non-leading batch dimension; identity constructors re-queried after single identities were updated in place. identity_() on views with non-mergeable strides (receiver, storage, rest of the base).",
 "C04": " Later additions: Sim3 / RxSO3 at O(1) magnitudes and both quaternion signs; sub-check `route_canary` (every vectorised route x group x operator at a fixed point must return the numerical Jacobian; only torch.vmap refusals are excused elsewhere); sub-check `batch_mix` (the gradient of every row of a batch that mixes point classes equals the gradient of the row alone). Rotation vectors whose norm is exactly a switch-over point (0.1, eps) of the hand-written Jacobians.",
 "C05": " Later additions: operands in non-contiguous layouts, the functional spellings pp.Adj / AdjT / Jinvp / Jr, and a reuse phase (the same element after an in-place change against a fresh element, bitwise) for Adj / AdjT / Jinvp.",
 "C06": " Later additions: cumulative products along every batch dimension (non-negative and negative spelling of dim) against the same call on each 1-D line.",
 "C07": " Later additions: the optimizer object may have a past (an earlier step with another per-call weight or without arguments; the judged step is the one after it), distinct kernels per residual in kernel lists, a second residual that aliases a parameter, LM must end at the retraction of its last solve (unchanged is not accepted), steps outside the comparable domain (overflow / sim3 truncation) are skipped or discarded, Cholesky(upper=True) among the linear solvers.",
 "C08": " Later additions: rejection exhaustion reachable for every reject in 0..16, a solver raising at any solve index, parameters in non-contiguous (transposed 2-D) storage, non-finite parameters from bounded steps are a failure. A prior model whose output is a view of the parameter; the residual handed to the strategy is recomputed by the harness.",
 "C09": " Later additions: sub-check `descent` (GN / LM with a capturing solver: J'^T R' equals the autograd gradient of the loss the optimizer reports), monotonicity on separated pairs, eps-level derived tolerances, kernel objects used on valid input before the negative one.",
 "C10": " Later additions: block grids up to the stated size 40, CG solver objects reused after a small system, rtol / atol / rcond options, weakly indefinite and PSD-singular Cholesky inputs, rank ambiguity judged on what torch's own eigh / svd sees. A second solver object of the same class with other options alive between construction and call.",
 "C11": " Later additions: Euler angles on batches of all four group types, arbitrary (non-principal) angles, the eps argument; scale / non-finite / bottom-row defects at any batch position; column-major matrix arguments and explicit rtol / atol on valid inputs.",
 "C12": " Later additions: sub-check `after_fault` (a valid call after a call of the same length whose operation raised), all 12 API spellings, long folds on groups, inputs tracked by autograd (non-leaf), calls under torch.no_grad(), derived tolerances.",
 "C13": " Later additions: UKF / PF on nonlinear systems (PSD, symmetry), mixed supply of Q / R (registered and overridden per call), arguments kept in preallocated tensors overwritten in place, a deep copy of the filter mid-run, particle counts tied to the closed-form effective sample size.",
 "C14": " Later additions: the same LQR instance called again, deep copies of the system / LQR module inside the history, nominal trajectories that are stride-0 expand() views (and must stay untouched), MPC with a step budget of 1, horizons to 20 and dims to 6 in the quick tier too. LTV systems varying in a proper subset of A, B, c1.",
 "C15": " Later additions: mixed / broadcast batches of rank 0-3, float32 NLS with derived tolerances, random call sequences on expression-tree systems, non-integral reference times, deep copies inside the clock histories (the original must keep its time).",
 "C16": " Later additions: the documented (B,H) initial state for B > 1, per-frame rotations beyond pi and 2 pi, one-sample streams up to F = 200, dict-then-buffer carry, per-call covariances, a deep copy of the integrator between chunks.",
 "C17": " Later additions: rank-2 and mutually broadcasting batches, per-item poses, noisy ICP targets and N down to 3, float32 EPnP, modules reused / constructed with defaults that the call overrides, backward-error optimality bounds.",
 "C18": " Later additions: exact ties and duplicates with a tie-aware reference, column-major point / pixel tensors, clouds up to 300 points, special extrinsics, derived distance tolerance. Tiny scenes (depth below eps of the dtype) in the camera sub-check.",
 "C19": " Later additions: per-boundary continuity bounds (rotation and translation separately), a value oracle for every otype over a brute-force association, broadcasting geodesic loss (one element against all, every reduction).",
 "C20": " Later additions: verbose=True runs and a deep copy of the stepper mid-sequence. MPC / ICP constructed without a stepper (documented defaults, one controller per object).",
}
for _k, _v in LATER.items():
    CHECKS[_k]["text"] = CHECKS[_k]["text"] + _v
