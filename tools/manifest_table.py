CHECKS = {
 "C01": {
  "text": "Regime-directed generated search (each of translation / rotation / log-scale drawn independently from a table "
          "covering exact 0, eps- and sqrt(eps)-neighbourhoods, k*pi, beyond pi, large) plus a deterministic (theta,sigma) "
          "lattice, both dtypes, all four algebras, against a >=60-digit mpmath closed form of the matrix exponential. "
          "Exploration: it samples the input space densely where the code switches formula but proves nothing.",
  "design_ref": "DESIGN.md section 3, C01",
  "note": "Trusts mpmath (closed form self-tested against mpmath.expm on every run). Tolerances are the property's: c*eps for "
          "rotation/scale, c*sqrt(eps) normwise (+ forward bound of the mat-vec) for translation.",
  "technique": "property-based testing: Hypothesis regime generators + lattice enumeration against a high-precision reference",
 },
 "C12": {
  "text": "Exhaustive enumeration of the index schedule (every L in 1..4096, both orders, in/out-of-place) with an exact "
          "non-commutative interval monoid, plus generated tensors of rank 1..4 on every axis, free-monoid words and the "
          "LieTensor cumprod/cummul/cumops APIs on four groups against an independent sequential fold. The schedule depends "
          "only on L, so the enumeration decides it for all L <= 4096; beyond that and for the numeric group part this is "
          "exploration, not proof.",
  "design_ref": "DESIGN.md section 3, C12",
  "note": "Trusts torch index_select/index_copy_ and int64 arithmetic; the float oracle is the harness's own float64 "
          "quaternion algebra with tolerance 16*L*eps*scale.",
  "technique": "property-based testing: exhaustive enumeration + Hypothesis generators against a sequential-fold reference model",
 },
}
NOT_APPLICABLE = {}
