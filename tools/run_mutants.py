"""run the hand-made mutants of tools/mutants.json (optionally filtered by property prefix) and write a table"""
import json, subprocess, sys, os, concurrent.futures as cf
ROOT = os.path.dirname(os.path.dirname(os.path.abspath(__file__)))
flt = sys.argv[1].split(",") if len(sys.argv) > 1 else None
muts = [m for m in json.load(open(os.path.join(ROOT, "tools", "mutants.json")))
        if flt is None or any(m["props"].startswith(f) or m["name"].startswith(f) for f in flt)]
def run(m):
    cmd = ["/venv/bin/python", os.path.join(ROOT, "tools", "mutate.py"), "--name", m["name"], "--props", m["props"]]
    for s in m.get("sub", []): cmd += ["--sub", s]
    if m.get("revert"): cmd += ["--revert", m["revert"]]
    if m.get("only"): cmd += ["--only", m["only"]]
    env = dict(os.environ, VERIF_NPROC="8")
    out = subprocess.run(cmd, capture_output=True, text=True, env=env, cwd=ROOT).stdout
    res = [l for l in out.splitlines() if l.startswith(("RESULT", "MUTATE-ERROR", "=="))]
    first = [l.strip()[:200] for l in out.splitlines() if l.startswith("      ")][:2]
    return m["name"], res, first
with cf.ThreadPoolExecutor(2) as ex:
    for name, res, first in ex.map(run, muts):
        print(name, "|", " ; ".join(res[-1:]) )
        for f in first: print("      ", f)
        sys.stdout.flush()
