"""Sensitivity runs: apply a mutation to a scratch copy of pypose (never to /repo) and run checks on it.

  mutate.py --name M --props C01,C02 [--tier quick] (--sub 'rel/path.py::OLD::NEW' ... | --patch file.diff | --revert COMMIT)

The scratch copy lives under /tmp/vp_mut_<name>/ and is put first on PYTHONPATH (overrides the
editable install); evidence / replays of the run go to the scratch dir as well.  Removed afterwards.
"""
import argparse, os, shutil, subprocess, sys, time
ROOT = os.path.dirname(os.path.dirname(os.path.abspath(__file__)))

def main():
    ap = argparse.ArgumentParser()
    ap.add_argument("--name", required=True)
    ap.add_argument("--props", required=True)
    ap.add_argument("--tier", default="quick")
    ap.add_argument("--sub", action="append", default=[])
    ap.add_argument("--patch", default=None)
    ap.add_argument("--revert", default=None, help="reverse-apply this /repo commit (pre-fix behaviour)")
    ap.add_argument("--only", default=None)
    ap.add_argument("--keep", action="store_true")
    ap.add_argument("--seed", default=None)
    a = ap.parse_args()
    d = "/tmp/vp_mut_%s" % a.name
    shutil.rmtree(d, ignore_errors=True)
    os.makedirs(d)
    shutil.copytree("/repo/pypose", os.path.join(d, "pypose"), ignore=shutil.ignore_patterns("__pycache__"))
    try:
        for sub in a.sub:
            rel, rest = sub.split("::", 1)
            rest = rest.encode().decode("unicode_escape")
            p = os.path.join(d, rel)
            s = open(p).read()
            # OLD::NEW - OLD may itself end with ':' (e.g. "while x:::while y:"): take the split where OLD occurs exactly once
            if "=>>" in rest:        # unambiguous separator (for OLD texts that end with ':')
                cands = [tuple(rest.split("=>>", 1))]
            else:
                cands = [(rest[:i], rest[i + 2:]) for i in range(len(rest)) if rest.startswith("::", i)]
            good = [(o, n) for o, n in cands if o and s.count(o) == 1]
            if len(good) < 1:
                print("MUTATE-ERROR: no split of %r has an OLD text occurring exactly once in %s" % (rest, rel)); return 3
            old, new = good[0]
            open(p, "w").write(s.replace(old, new))
        if a.patch:
            rc = subprocess.call(["patch", "-p1", "-s", "-d", d, "-i", os.path.abspath(a.patch)])
            if rc: print("MUTATE-ERROR: patch failed"); return 3
        if a.revert:
            diff = subprocess.check_output(["git", "-C", "/repo", "show", a.revert, "--", "pypose"])
            pr = subprocess.run(["patch", "-p1", "-R", "-s", "-d", d], input=diff)
            if pr.returncode: print("MUTATE-ERROR: reverse patch failed"); return 3
        env = dict(os.environ, PYTHONPATH=d, VERIF_OUT=d)
        if a.seed: env["VERIF_SEED"] = a.seed
        chk = subprocess.run(["/venv/bin/python", "-c", "import pypose,sys;print(pypose.__file__)"], env=env, capture_output=True, text=True)
        assert d in chk.stdout, chk.stdout + chk.stderr
        res = {}
        for prop in a.props.split(","):
            t0 = time.time()
            cmd = ["/venv/bin/python", "-m", "vp.check", prop, "--tier", a.tier, "--no-shrink"]
            if a.only: cmd += ["--only", a.only]
            pr = subprocess.run(cmd, cwd=ROOT, env=env, capture_output=True, text=True)
            lines = [l for l in pr.stdout.splitlines() if l.strip()]
            viol = [l for l in lines if l.startswith("VIOLATION")]
            res[prop] = pr.returncode
            print("== %s on mutant %s: exit %d, %d VIOLATION lines, %.0fs" % (prop, a.name, pr.returncode, len(viol), time.time() - t0))
            for l in lines:
                if l.startswith("  ") or l.startswith("HARNESS"):
                    print("   ", l[:260])
            if pr.returncode == 2:
                print(pr.stderr[-1500:])
        det = [p for p, rc in res.items() if rc == 1]
        print("RESULT mutant=%s detected_by=%s missed_by=%s" % (a.name, ",".join(det) or "-", ",".join(p for p in res if res[p] != 1) or "-"))
        return 0
    finally:
        if not a.keep:
            shutil.rmtree(d, ignore_errors=True)

if __name__ == "__main__":
    sys.exit(main())
