"""Verify an independently seeded breaking change and record it under /verif/seeded/<name>/.

  seed_verify.py <name> <src_dir with patch.diff demo.py notes.md PROPERTY.txt> <property id> [extra props,...]

Steps (all on scratch copies, never on /repo): demo passes on the unchanged tree, demo fails on the patched tree, the pinned
baseline still passes on the patched tree, then the registered quick checks run against the patched tree (tools/mutate.py).
"""
import json, os, shutil, subprocess, sys, time
ROOT = os.path.dirname(os.path.dirname(os.path.abspath(__file__)))
name, src, prop = sys.argv[1], sys.argv[2], sys.argv[3]
props = [prop] + (sys.argv[4].split(",") if len(sys.argv) > 4 else [])
dst = os.path.join(ROOT, "seeded", name)
os.makedirs(dst, exist_ok=True)
for f in ("patch.diff", "demo.py", "notes.md", "PROPERTY.txt"):
    if os.path.exists(os.path.join(src, f)):
        shutil.copy(os.path.join(src, f), os.path.join(dst, f))
scratch = "/tmp/vp_seed_%s" % name
shutil.rmtree(scratch, ignore_errors=True)
subprocess.check_call(["git", "-C", "/repo", "worktree", "add", "-q", "--detach", scratch, "HEAD"])
meta = {"name": name, "property": prop, "ran": []}
try:
    env0 = dict(os.environ, PYTHONPATH=scratch, PYTHONWARNINGS="ignore")
    r0 = subprocess.run(["/venv/bin/python", os.path.join(dst, "demo.py")], env=env0, capture_output=True, text=True, cwd=scratch)
    meta["demo_unpatched_exit"] = r0.returncode
    ap = subprocess.run(["git", "-C", scratch, "apply", os.path.join(dst, "patch.diff")], capture_output=True, text=True)
    meta["patch_applies"] = ap.returncode == 0
    if ap.returncode:
        print("PATCH DOES NOT APPLY", ap.stderr)
    r1 = subprocess.run(["/venv/bin/python", os.path.join(dst, "demo.py")], env=env0, capture_output=True, text=True, cwd=scratch)
    meta["demo_patched_exit"] = r1.returncode
    meta["demo_patched_tail"] = (r1.stdout + r1.stderr)[-600:]
    b = subprocess.run(["/venv/bin/python", os.path.join(ROOT, "tools", "baseline.py"), scratch], capture_output=True, text=True)
    meta["baseline_on_patched"] = b.stdout.strip().splitlines()[0] if b.stdout.strip() else b.stderr[-300:]
    meta["ran"] += ["demo.py on unpatched worktree (exit %d)" % r0.returncode, "demo.py on patched worktree (exit %d)" % r1.returncode,
                    "tools/baseline.py on patched worktree: %s" % meta["baseline_on_patched"]]
finally:
    subprocess.call(["git", "-C", "/repo", "worktree", "remove", "--force", scratch])
res = {}
for p in props:
    t0 = time.time()
    out = subprocess.run(["/venv/bin/python", os.path.join(ROOT, "tools", "mutate.py"), "--name", "seed_" + name, "--props", p,
                          "--patch", os.path.join(dst, "patch.diff")], capture_output=True, text=True, env=dict(os.environ, VERIF_NPROC=os.environ.get("VERIF_NPROC", "12"))).stdout
    det = "detected_by=%s" % p in out
    lines = [l.strip()[:240] for l in out.splitlines() if l.startswith("      ")][:4]
    res[p] = {"detected": det, "first_lines": lines, "wall_s": round(time.time() - t0)}
    meta["ran"].append("quick check %s on patched copy: %s" % (p, "VIOLATION reported" if det else "no violation"))
meta["checks"] = res
meta["needs_to_manifest"] = "see notes.md"
json.dump(meta, open(os.path.join(dst, "meta.json"), "w"), indent=1)
print(json.dumps(meta, indent=1)[:2500])
