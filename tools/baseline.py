"""Run the repository's pinned baseline (guard off) and compare with /root/.vp/BASELINE.json stable_pass."""
import json, subprocess, sys, tempfile, os, xml.etree.ElementTree as ET
repo = sys.argv[1] if len(sys.argv) > 1 else "/repo"
base = json.load(open("/root/.vp/BASELINE.json"))
out = tempfile.mktemp(suffix=".xml")
env = dict(os.environ)
env.pop("PYPOSE_VERIF", None)
if repo != "/repo":
    env["PYTHONPATH"] = repo
subprocess.call(["/venv/bin/python", "-m", "pytest", "-q", "-p", "no:cacheprovider", "--timeout=900",
                 "--continue-on-collection-errors", "--junitxml=" + out], cwd=repo, env=env,
                stdout=subprocess.DEVNULL, stderr=subprocess.DEVNULL)
passed = set()
for tc in ET.parse(out).getroot().iter("testcase"):
    if not any(ch.tag in ("failure", "error", "skipped") for ch in tc):
        passed.add("%s::%s" % (tc.get("classname"), tc.get("name")))
os.remove(out)
missing = [t for t in base["stable_pass"] if t not in passed]
print("baseline: %d/%d stable tests pass" % (len(base["stable_pass"]) - len(missing), len(base["stable_pass"])))
for m in missing:
    print("  MISSING", m)
sys.exit(1 if missing else 0)
