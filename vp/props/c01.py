"""C01 - Exp is the matrix exponential on so3 / se3 / rxso3 / sim3."""
import math
import numpy as np
import torch
import pypose as pp
from hypothesis import strategies as st

from ..core import Sub
from ..ref import lie as R
from .. import tu, gen

PROPERTY = "C01"
RULE = ("exp: Hypothesis draws an algebra element per item with each block (translation, rotation, log-scale) "
        "INDEPENDENTLY from a regime table {exact 0, 1e-30..1e-17, eps*2^[-6,6], sqrt(eps)*2^[-6,6], 1e-7..1e-2, "
        "O(1), k*pi +- {0,1e-12..1e-3} for k<=4, up to 4pi+1, |sigma|<=8, |tau|<=1e3} x direction {axis, diagonal, "
        "random}, rounds it to the dtype, places 1..8 items in a batch of rank 0..2 and compares pp.Exp (function "
        "and method) with the closed-form exponential of the generator matrix evaluated in mpmath at >=60 digits "
        "(self-tested against mpmath.expm).  grid: deterministic (theta, sigma) lattice over {0} U 10^[-30,1] with "
        "both signs of sigma for rxso3/sim3.  Tolerances: rotation*scale block 32*eps*max(1,theta) relative to "
        "the block's max entry; quaternion norm 8*eps; scale 8*eps*max(1,|sigma|); translation normwise "
        "8*sqrt(eps)*|t_ref| + 32*eps*||W||tau|| (forward bound of the mat-vec, needed where W*tau cancels).  "
        "Non-trivial: some block in a thin regime (0, tiny, eps, sqrteps, k*pi, beyond pi, |sigma|>4); distinct = "
        "(ltype, dtype, regime and binary exponent of every block).")
ASSUMPTIONS = ["inputs are finite; |tau| <= 1e3, theta <= 4*pi+1, |sigma| <= 8",
               "mpmath closed form is the oracle (torch.linalg.matrix_exp is NOT: it is only ~1e-10 accurate)"]

THIN = ("zero", "tiny", "eps", "sqrteps", "wide", "pi1", "pi2", "pi3", "pi4")


def _expo(v):
    v = abs(v)
    return 0 if v == 0 else math.frexp(v)[1]


def check_exp_item(rec, lt, dtype, x, Xt, M, tag=""):
    """x: list of floats (dtype-rounded), Xt: numpy group element (as returned), M: numpy matrix()"""
    eps = tu.EPS[dtype]
    glt = R.GRP_OF[lt]
    tau, phi, sigma = R.split_alg(lt, x)
    th = float(np.linalg.norm(phi))
    ref = R.exp_ref_parts(lt, x)
    ok = True
    if not (np.all(np.isfinite(Xt)) and np.all(np.isfinite(M))):
        rec.fail("nonfinite:" + lt, "%sExp(%s) contains NaN/Inf: %s" % (tag, x, Xt.tolist()))
        return False
    t, q, s = R.split_group(glt, Xt)
    qn = abs(float(np.linalg.norm(q)) - 1.0)
    ok &= rec.check(qn <= 8 * eps, "quatnorm:" + lt, lambda: "%sExp(%s): | |q|-1 | = %.3g > 8 eps" % (tag, x, qn))
    # rotation (x scale) block of matrix()
    Bref = ref["s"] * ref["R"]
    Bout = M[:3, :3]
    tolR = 32 * eps * max(1.0, th) * float(np.abs(Bref).max())
    eR = float(np.abs(Bout - Bref).max())
    rec.notes["rot_ratio"] = max(rec.notes.get("rot_ratio", 0.0), eR / tolR)
    ok &= rec.check(eR <= tolR, "rotblock:%s:%s" % (lt, dtype),
                    lambda: "%sExp(%s): rotation/scale block off by %.3g (tol %.3g) theta=%.6g sigma=%.6g" % (tag, x, eR, tolR, th, sigma))
    # the block rebuilt from the returned quaternion/scale must agree as well
    Bq = s * R.qrot(q)
    eQ = float(np.abs(Bq - Bref).max())
    ok &= rec.check(eQ <= tolR, "quatblock:%s:%s" % (lt, dtype),
                    lambda: "%sExp(%s): rotation from returned quaternion off by %.3g (tol %.3g)" % (tag, x, eQ, tolR))
    if lt in ("rxso3", "sim3"):
        es = abs(s - ref["s"]) / ref["s"]
        tols = 8 * eps * max(1.0, abs(sigma))
        rec.notes["scale_ratio"] = max(rec.notes.get("scale_ratio", 0.0), es / tols)
        ok &= rec.check(es <= tols, "scale:%s:%s" % (lt, dtype),
                        lambda: "%sExp(%s): scale %.17g vs e^sigma %.17g (rel %.3g)" % (tag, x, s, ref["s"], es))
    if lt in ("se3", "sim3"):
        tol = 8 * math.sqrt(eps) * float(np.linalg.norm(ref["t"])) + 32 * eps * float(np.linalg.norm(ref["absWtau"]))
        for name, tt in (("tensor", t), ("matrix", M[:3, 3])):
            et = float(np.linalg.norm(tt - ref["t"]))
            if tol > 0:
                rec.notes["trans_ratio"] = max(rec.notes.get("trans_ratio", 0.0), et / tol)
            ok &= rec.check(et <= tol, "translation:%s:%s" % (lt, dtype),
                            lambda: "%sExp(%s): translation (%s) %s vs %s, error %.3g > tol %.3g (theta=%.6g sigma=%.6g)"
                            % (tag, x, name, tt.tolist(), ref["t"].tolist(), et, tol, th, sigma))
    if lt in ("so3", "rxso3"):
        # no translation: matrix last column / the 4x4 embedding must be exact
        if M.shape[-1] == 4:
            ok &= rec.check(np.array_equal(M[3], [0, 0, 0, 1]) and np.array_equal(M[:3, 3], [0, 0, 0]),
                            "embedding:" + lt, "4x4 embedding of %s not [B 0; 0 1]" % lt)
    return ok


def run_exp_case(rec, case):
    lt, dtype, shape, items = case["ltype"], case["dtype"], case["lshape"], case["items"]
    x = tu.lie(lt, items, dtype, shape=shape, view=case.get("view"))
    if case.get("view"):
        rec.label("layout:" + ("contiguous" if x.tensor().is_contiguous() else "noncontiguous:" + str(case.get("view"))))
    with rec.sut("Exp"):
        X = pp.Exp(x) if case.get("fn", True) else x.Exp()
        M = X.matrix()
    glt = R.GRP_OF[lt]
    if not rec.check(isinstance(X, pp.LieTensor) and X.ltype == tu.LT[glt], "ltype", "Exp(%s) has ltype %s" % (lt, X.ltype)):
        return
    if not rec.check(tuple(X.shape) == tuple(shape) + (R.GDIM[glt],), "shape", "Exp shape %s for lshape %s" % (tuple(X.shape), shape)):
        return
    rec.check(X.dtype == tu.TD[dtype], "dtype", "Exp changed dtype to %s" % X.dtype)
    Xn = tu.npy(X).reshape(-1, R.GDIM[glt])
    md = 3 if lt == "so3" else 4
    if not rec.check(tuple(M.shape) == tuple(shape) + (md, md), "matrix_shape", "matrix() shape %s" % (tuple(M.shape),)):
        return
    Mn = tu.npy(M).reshape(-1, md, md)
    for i, xi in enumerate(items):
        check_exp_item(rec, lt, dtype, xi, Xn[i], Mn[i])


class Exp(Sub):
    name = "exp"
    n = {"quick": 24000, "thorough": 600000}

    def strategy(self, tier):
        @st.composite
        def s(draw):
            lt = draw(st.sampled_from(R.ALGEBRAS))
            dtype = draw(st.sampled_from(gen.DTYPES))
            shape = draw(gen.lshape(max_rank=2, extents=(1, 2, 3), max_items=6))
            n = int(np.prod(shape)) if shape else 1
            items, regs = [], []
            for _ in range(n):
                x, reg = draw(gen.algebra(lt, dtype))
                items.append(x)
                regs.append(reg)
            return {"ltype": lt, "dtype": dtype, "lshape": shape, "items": items, "regs": regs,
                    "fn": draw(st.booleans()), "view": draw(st.sampled_from(tu.VIEWS))}
        return s()

    def oracle(self, case, rec):
        lt, dtype = case["ltype"], case["dtype"]
        for x, reg in zip(case["items"], case["regs"]):
            tau, phi, sigma = R.split_alg(lt, x)
            thin = any(v in THIN for v in reg.values()) or abs(sigma) > 4
            if thin:
                rec.nt((lt, dtype, gen.regime_key(reg), _expo(np.linalg.norm(tau)), _expo(np.linalg.norm(phi)), _expo(sigma)))
            rec.label("%s:%s" % (lt, gen.regime_key(reg)))
        rec.label(lt, dtype)
        run_exp_case(rec, case)

    def simplify(self, case):
        if len(case["items"]) > 1:
            for i in range(len(case["items"])):
                yield dict(case, lshape=[], items=[case["items"][i]], regs=[case["regs"][i]])
        if case["dtype"] == "float32":
            yield dict(case, dtype="float64")


class Reuse(Sub):
    """Exp of the SAME tensor object again after its data changed in place, and after the previously returned element was
    overwritten: "for every x" includes an x that has a history.  (A result memoised on the object, an output buffer handed out
    by reference, a cache keyed by shape / dtype only would all pass every single-call check - seed C01d.)"""
    name = "reuse"
    n = {"quick": 3000, "thorough": 60000}

    def strategy(self, tier):
        @st.composite
        def s(draw):
            lt = draw(st.sampled_from(R.ALGEBRAS))
            dtype = draw(st.sampled_from(gen.DTYPES))
            shape = draw(gen.lshape(max_rank=2, extents=(1, 2, 3), max_items=4))
            n = int(np.prod(shape)) if shape else 1
            a = [draw(gen.algebra(lt, dtype))[0] for _ in range(n)]
            b = [draw(gen.algebra(lt, dtype))[0] for _ in range(n)]
            return {"ltype": lt, "dtype": dtype, "lshape": shape, "items": a, "items2": b,
                    "first": draw(st.sampled_from(("Exp", "pp.Exp", "matrix", "rotation"))),
                    "mutate": draw(st.sampled_from(("copy_", "setitem", "alias_buffer", "mul_add_"))),
                    "spoil": draw(st.sampled_from(("none", "zero_", "fill_")))}
        return s()

    def oracle(self, case, rec):
        lt, dtype, shape = case["ltype"], case["dtype"], case["lshape"]
        glt = R.GRP_OF[lt]
        td = tu.TD[dtype]
        buf = torch.tensor(case["items"], dtype=td).reshape(tuple(shape) + (R.ADIM[lt],))
        x = pp.LieTensor(buf, ltype=tu.LT[lt])
        new = torch.tensor(case["items2"], dtype=td).reshape(tuple(shape) + (R.ADIM[lt],))
        rec.label(lt, dtype, "first:" + case["first"], "mutate:" + case["mutate"], "spoil:" + case["spoil"])
        rec.nt((lt, dtype, case["first"], case["mutate"], case["spoil"], len(case["items"])))
        md = 3 if lt == "so3" else 4

        def judge(tag, items):
            with rec.sut("Exp (%s)" % tag):
                X = x.Exp()
                M = X.matrix()
            if not rec.check(isinstance(X, pp.LieTensor) and X.ltype == tu.LT[glt] and tuple(X.shape) == tuple(shape) + (R.GDIM[glt],),
                             "reuse:type", "%s: Exp returned %s %s" % (tag, getattr(X, "ltype", None), tuple(getattr(X, "shape", ())))):
                return None
            Xn = tu.npy(X).reshape(-1, R.GDIM[glt]); Mn = tu.npy(M).reshape(-1, md, md)
            for i, xi in enumerate(items):
                check_exp_item(rec, lt, dtype, xi, Xn[i], Mn[i], tag="[%s] " % tag)
            return X
        with rec.sut("first use"):
            if case["first"] == "Exp":
                x.Exp()
            elif case["first"] == "pp.Exp":
                pp.Exp(x)
            elif case["first"] == "matrix":
                x.matrix()
            else:
                x.rotation()
        X1 = judge("first call", case["items"])
        if X1 is None or rec.fails:
            return
        # change the data of the same object in place
        if case["mutate"] == "copy_":
            x.tensor().copy_(new)
        elif case["mutate"] == "setitem":
            x[...] = new
        elif case["mutate"] == "alias_buffer":
            buf.copy_(new)                       # LieTensor(buf) aliases buf (documented torch.Tensor subclass semantics)
        else:
            x.tensor().mul_(0.0).add_(new)
        now = tu.npy(x.tensor()).reshape(-1, R.ADIM[lt]).tolist()
        if not rec.check(np.array_equal(np.array(now), tu.npy(new).reshape(-1, R.ADIM[lt])), "reuse:harness", "in-place update did not take"):
            return
        X2 = judge("after in-place change of x (%s)" % case["mutate"], now)
        if X2 is None or rec.fails:
            return
        if case["spoil"] != "none":
            with torch.no_grad():
                if case["spoil"] == "zero_":
                    X2.tensor().zero_()
                else:
                    X2.tensor().fill_(0.25)
            judge("after overwriting the previously returned element (%s)" % case["spoil"], now)

    def simplify(self, case):
        if len(case["items"]) > 1:
            yield dict(case, lshape=[], items=case["items"][:1], items2=case["items2"][:1])
        if case["dtype"] == "float32":
            yield dict(case, dtype="float64")
        if case["spoil"] != "none":
            yield dict(case, spoil="none")


def _lattice(per_decade, lo=-30, hi=1):
    vals = [0.0]
    n = (hi - lo) * per_decade
    for i in range(n + 1):
        vals.append(10.0 ** (lo + i / per_decade))
    return vals


class Grid(Sub):
    name = "grid"
    kind = "enum"
    exhaustive = False      # a lattice, not the whole domain

    def cases(self, tier):
        pd = 2 if tier == "quick" else 6
        ths = _lattice(pd, -30, 1)
        sgs = _lattice(pd, -30, 0) + [2.0, 5.0, 8.0]
        d = np.array([0.3, -0.5, 0.81])
        d = d / np.linalg.norm(d)
        tau = [0.7, -1.3, 0.4]
        for dtype in gen.DTYPES:
            for lt in ("sim3", "rxso3"):
                for th in ths:
                    if th > 13.5:
                        continue
                    row = []
                    for sg in sgs:
                        for sign in (1.0, -1.0):
                            if sg == 0 and sign < 0:
                                continue
                            phi = (th * d).tolist()
                            x = (tau if lt == "sim3" else []) + phi + [sign * sg]
                            row.append(gen.rnd_list(x, dtype))
                    yield {"ltype": lt, "dtype": dtype, "lshape": [len(row)], "items": row, "theta": th}

    def oracle(self, case, rec):
        rec.nt((case["ltype"], case["dtype"], "theta", case["theta"]))
        run_exp_case(rec, case)

    def simplify(self, case):
        for i in range(len(case["items"])):
            yield dict(case, lshape=[], items=[case["items"][i]])


SUBS = [Exp(), Grid(), Reuse()]


def selftest():
    rs = np.random.RandomState(1)
    for i in range(24):
        lt = R.ALGEBRAS[i % 4]
        x = rs.randn(R.ADIM[lt]) * 10 ** rs.uniform(-9, 0.7)
        e = R.exp_ref_parts(lt, x)
        M = np.eye(4)
        M[:3, :3] = e["s"] * e["R"]
        M[:3, 3] = e["t"]
        H = R.hat(lt, x)
        if lt == "so3":
            H4 = np.zeros((4, 4)); H4[:3, :3] = H; H = H4
        E = R.expm_mp(H, dps=90)
        assert np.abs(E - M).max() <= 4e-16 * max(1.0, np.abs(E).max()), (lt, x)
        assert np.abs(R.qrot(e["q"]) - e["R"]).max() < 1e-15
