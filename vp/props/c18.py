"""C18 - point-cloud filters and camera helpers match their brute-force definitions."""
import math
import collections
import numpy as np
import torch
import pypose as pp
from hypothesis import strategies as st

from ..core import Sub, load_known
from ..ref import cloud as C
from ..ref import lie as R
from .. import tu, gen

PROPERTY = "C18"
RULE = ("Clouds: N in 1..300 (quick: 80% <= 60), 1..6 coordinate dims + 0..3 feature channels, float64 (3/4) / "
        "float32, coordinates = RandomState(seed).randn * scale rounded to the dtype (ties have probability 0), "
        "0..N/3 far outliers placed first / last / at random rows; the reference is numpy brute force in float64 "
        "on the same rounded data.  Radii: midpoint of a gap of the sorted pairwise distances (gap > 4*rel, "
        "rel = max(1e-9, 8(D+2)eps)) at a drawn quantile of all pairwise distances or of the n-th-neighbour "
        "distances, or below the smallest / above the largest distance.  knn: values within 8(D+2)eps relative, "
        "shape, indices distinct and ATTAINING the m-th smallest reference distance within the same tolerance "
        "(equals index equality when the gap exceeds the tolerance; tie-robust otherwise), ord 1/2/inf, batch "
        "rank 0..2, sorted=False as a set claim, largest=True as the k largest; nbr_filter: mask == "
        "{i: #{j!=i, d_ij<=r} >= n} exactly, rows == input rows under the mask (bitwise, as a multiset), "
        "return_mask and plain call agree; integer-grid clouds (ties, duplicates) for the value claim with "
        "radii between distinct distance values; voxel_filter: cloud = min + v*(cell+frac), frac in [.1,.9], "
        "anchor at the minimum corner, or integer-grid clouds with integer / dyadic voxel sizes (points "
        "exactly on cell faces, exact arithmetic); one output row per occupied cell, centroid over all "
        "channels within 4(count+2)eps*max|x|, random=True: bitwise a member row, each cell once; knn_filter: "
        "retained = all or #{j!=i,d_ij<=r} >= k; all rows match reading A (neighbours among all points) or all "
        "rows match reading B (among retained points; only if >= k+1 retained), within 4(k+3)eps*max|x|, rows "
        "in input order or as a multiset; an exception or wrong shape is a failure; random_filter: every batch "
        "item's rows are bitwise input rows at distinct indices (input rows unique), shape (...,num,D).  "
        "Permutation equivariance: every filter is re-run on points[pi] (pi non-identity when N>=2) and checked "
        "against the permuted reference and against the first output (index maps for knn, sorted rows for "
        "filters).  Camera: K = [[fx,0,cx],[0,fy,cy],[0,0,1]], |fx|,|fy| in 1e-2..1e4 both signs, cx,cy in "
        "+-1e3, |z| in 1e-2..1e2 both signs, SE3 extrinsics (|t| <= 10), batch shapes broadcast between "
        "points / K / T; pixel2point(point2pixel(P),z,K)=P within 16 eps (|x|+|cx z/fx|), converse within "
        "16 eps (|u-cx|+|cx|), point2pixel vs the pinhole formula with a forward bound, reprojerr(P, "
        "point2pixel(P,K,T), K, T) == 0 exactly for none/sum/norm, homo2cart(cart2homo(p)) == p bitwise for "
        "any finite p (zeros, subnormals, huge) and cart2homo = [p,1].  Non-trivial: a removed point that is "
        "not in the last rows; k >= 2; >= 2 points sharing a voxel; non-identity permutation; negative focal "
        "length or depth.  distinct = (sub-check, config, size classes).")
ASSUMPTIONS = ["clouds without exactly coinciding points (except the integer-grid value cases of nbr_filter / voxel_filter)",
               "radii never within max(1e-9, 8(D+2)eps) relative of a pairwise distance; positive voxel sizes",
               "k in 1..N-1 for knn_filter (N >= 2), 1..N2 for knn, n in 0..N for nbr_filter, num in 0..N",
               "rectified intrinsics (no skew, last row 0 0 1), non-zero focal lengths, camera-frame depth |z| >= 1e-2",
               "row order of filter outputs is not asserted (multiset), batch shapes only where the docstrings give '...'"]

ORDS = ("2", "2", "1", "inf")
U64 = float(np.finfo(np.float64).eps)


def _eps(dtype):
    return tu.EPS[dtype]


def _rel(dtype, D):
    """relative safety margin for comparisons of computed distances"""
    return max(1e-9, 8.0 * (D + 2) * _eps(dtype))


def _rnd(a, dtype):
    a = np.asarray(a, dtype=np.float64)
    return a.astype(np.float32).astype(np.float64) if dtype == "float32" else a


def _t(a, dtype):
    return torch.tensor(np.asarray(a), dtype=tu.TD[dtype])


def _sizeclass(n):
    return 0 if n <= 0 else int(math.log2(n)) + 1


def _perm(rs, n):
    p = rs.permutation(n)
    if n >= 2 and np.array_equal(p, np.arange(n)):
        p = np.roll(p, 1)
    return p


def make_cloud(rs, N, dim, extra, n_out, out_mode, dtype, grid=False):
    """(N, dim+extra) float64 array (values exactly representable in dtype) and the outlier row flags"""
    n_out = min(n_out, N)
    n_in = N - n_out
    if grid:
        G = max(2, int(round(2 + 1.5 * N ** (1.0 / dim))))
        inl = rs.randint(0, G, size=(n_in, dim)).astype(np.float64)
        out = rs.randint(0, G, size=(n_out, dim)).astype(np.float64) + 8 * G * rs.choice([-1.0, 1.0], size=(n_out, dim))
    else:
        scale = 10.0 ** rs.uniform(-2, 2)
        inl = rs.randn(n_in, dim) * scale
        direction = rs.randn(n_out, dim)
        direction /= np.maximum(np.linalg.norm(direction, axis=1, keepdims=True), 1e-9)
        out = (direction * rs.uniform(15, 60, size=(n_out, 1)) + rs.randn(n_out, dim)) * scale
    coords = np.concatenate([inl, out], 0)
    feats = rs.randn(N, extra) * 10.0 ** rs.uniform(-1, 2)
    flag = np.concatenate([np.zeros(n_in, bool), np.ones(n_out, bool)])
    if out_mode == "first":
        order = np.concatenate([np.arange(n_in, N), np.arange(n_in)])
    elif out_mode == "random":
        order = rs.permutation(N)
    else:
        order = np.arange(N)
    pts = _rnd(np.concatenate([coords, feats], 1)[order], dtype)
    return pts, flag[order]


def pick_radius(d_self, nth, mode, q, rel):
    """radius for a cloud with self-distance matrix d_self (see RULE)"""
    alld = C.pair_distances(d_self)
    if alld.size == 0:
        return 1.0
    if mode == "below":
        return float(alld[0] * 0.5)
    if mode == "above":
        return float(alld[-1] * 1.5)
    if mode == "kth" and d_self.shape[0] >= 2:
        srt = np.sort(d_self, axis=1)                       # column 0 is the point itself
        col = srt[:, min(max(nth, 1), d_self.shape[0] - 1)]
        target = float(np.quantile(col, q))
    else:
        target = float(np.quantile(alld, q))
    return C.safe_radius(alld, target, rel)


def _prefix_mask(mask):
    """True iff the removed points are exactly the last rows (the docstring situation)"""
    m = np.asarray(mask, bool)
    k = int(m.sum())
    return bool(m[:k].all())


def _rowkey(a):
    return np.ascontiguousarray(a).tobytes()


def _sorted_rows(a):
    a = np.asarray(a, dtype=np.float64)
    if a.shape[0] == 0:
        return a
    return a[np.lexsort(a.T[::-1])]


_sizes_q = st.one_of(st.integers(1, 12), st.integers(1, 60), st.integers(1, 60), st.integers(1, 60), st.integers(1, 300))
_sizes_t = st.one_of(st.integers(1, 12), st.integers(1, 60), st.integers(1, 300), st.integers(100, 300))


def _sizes(tier):
    return _sizes_q if tier == "quick" else _sizes_t


_dtype = st.sampled_from(("float64", "float64", "float64", "float32"))
_seed = st.integers(0, 2 ** 31 - 1)


def _shrink_common(case, nkey="N", lo=1):
    n = case[nkey]
    for v in sorted({lo, lo + 1, lo + 2, n // 2, n - 1}):
        if lo <= v < n:
            yield dict(case, **{nkey: v})
    if case.get("dtype") == "float32":
        yield dict(case, dtype="float64")
    if case.get("batch"):
        yield dict(case, batch=case["batch"][1:])
        yield dict(case, batch=[])
    if case.get("extra"):
        yield dict(case, extra=0)
    if case.get("dim", 1) > 1:
        yield dict(case, dim=case["dim"] - 1)
    if case.get("seed"):
        yield dict(case, seed=case["seed"] % 7)


# =====================================================================================================
class Knn(Sub):
    """pp.knn(ref, nbr, k, ord, largest, sorted)"""
    name = "knn"
    n = {"quick": 3200, "thorough": 80000}

    def strategy(self, tier):
        @st.composite
        def s(draw):
            N2 = draw(_sizes(tier))
            same = draw(st.sampled_from((False, False, True)))
            N1 = N2 if same else draw(st.one_of(st.integers(1, 8), st.integers(1, 60 if tier == "quick" else 300)))
            batch = draw(gen.lshape(max_rank=2, extents=(1, 2, 3), max_items=6))
            if N1 * N2 * max(1, int(np.prod(batch))) > 40000:
                batch = []
            return {"N1": N1, "N2": N2, "same": same, "dim": draw(st.integers(1, 6)),
                    "k": draw(st.one_of(st.integers(1, min(N2, 4)), st.integers(1, N2))),
                    "ord": draw(st.sampled_from(ORDS)), "batch": batch,
                    "largest": draw(st.sampled_from((None, None, None, False, True))),
                    "sorted": draw(st.sampled_from((None, None, True, False))),
                    "dtype": draw(_dtype), "seed": draw(_seed)}
        return s()

    def oracle(self, case, rec):
        N1, N2, D, k, dtype = case["N1"], case["N2"], case["dim"], case["k"], case["dtype"]
        if case["same"]:
            N1 = N2
        k = min(k, N2)
        batch = list(case["batch"])
        B = int(np.prod(batch)) if batch else 1
        o = C.ord_of(case["ord"])
        rs = np.random.RandomState(case["seed"])
        scale = 10.0 ** rs.uniform(-2, 2)
        nbr = _rnd(rs.randn(B, N2, D) * scale, dtype)
        ref = nbr.copy() if case["same"] else _rnd(rs.randn(B, N1, D) * scale, dtype)
        pi, sg = _perm(rs, N2), _perm(rs, N1)
        largest = bool(case["largest"])
        srt = case["sorted"] is not False
        kw = {}
        if case["largest"] is not None:
            kw["largest"] = case["largest"]
        if case["sorted"] is not None:
            kw["sorted"] = case["sorted"]
        if o != 2 or rs.rand() < 0.5:
            kw["ord"] = o
        tr, tn = _t(ref.reshape(batch + [N1, D]), dtype), _t(nbr.reshape(batch + [N2, D]), dtype)
        with rec.sut("knn"):
            out = pp.knn(tr, tn, k, **kw) if (k != 1 or rs.rand() < 0.5) else pp.knn(tr, tn, **kw)
            out2 = pp.knn(_t(ref[:, sg].reshape(batch + [N1, D]), dtype), _t(nbr[:, pi].reshape(batch + [N2, D]), dtype), k, **kw)
        rel = _rel(dtype, D)
        cfg = "%s:%s" % (case["ord"], "largest" if largest else "smallest")
        rec.label("ord" + case["ord"], dtype, "rank%d" % len(batch), "largest" if largest else "smallest",
                  "sorted" if srt else "unsorted", "self" if case["same"] else "cross", "k=N" if k == N2 else ("k=1" if k == 1 else "k>=2"))
        nonid = (N2 >= 2 or N1 >= 2)
        if k >= 2 and nonid:
            rec.nt(("knn", case["ord"], dtype, len(batch), largest, srt, case["same"], _sizeclass(N1), _sizeclass(N2), _sizeclass(k), D))
        ok = True
        for nm, res in (("", out), ("perm:", out2)):
            vals, idx = res
            ok &= rec.check(tuple(vals.shape) == tuple(batch + [N1, k]) and tuple(idx.shape) == tuple(batch + [N1, k]),
                            "knn:shape", lambda: "%sknn shapes %s %s, expected %s" % (nm, tuple(vals.shape), tuple(idx.shape), batch + [N1, k]))
            ok &= rec.check(idx.dtype == torch.int64 and vals.dtype == tu.TD[dtype], "knn:dtype", "values/indices dtype %s %s" % (vals.dtype, idx.dtype))
        if not ok:
            return
        V, I = tu.npy(out[0]).reshape(B, N1, k), out[1].numpy().reshape(B, N1, k)
        V2, I2 = tu.npy(out2[0]).reshape(B, N1, k), out2[1].numpy().reshape(B, N1, k)
        worst, ambiguous = 0.0, 0
        for b in range(B):
            d = C.pdist(ref[b], nbr[b], o)
            vref, iref = C.knn(d, k, largest)
            for tag, Vb, Ib, dd, vr in (("", V[b], I[b], d, vref), ("perm:", V2[b], I2[b], d[sg][:, pi], vref[sg])):
                if not rec.check(np.all((Ib >= 0) & (Ib < N2)), "knn:index_range", tag + "index out of range"):
                    return
                tol = rel * np.abs(vr) + 1e-300
                got = Vb if srt else np.sort(Vb, -1)[:, ::-1 if largest else 1]
                err = np.abs(got - vr)
                worst = max(worst, float((err / tol).max()) if err.size else 0.0)
                if not rec.check(np.all(err <= tol), "knn:values:" + cfg, lambda: "%sk=%d ord=%s: distances differ from the k %s "
                                 "reference distances by up to %.3g (tol %.3g) at row %d" % (tag, k, case["ord"], "largest" if largest else
                                 "smallest", float(err.max()), float(tol.flat[int(np.argmax(err / tol))]), int(np.argmax((err / tol).max(-1))))):
                    return
                srt_idx = np.sort(Ib, -1)
                if not rec.check(k < 2 or np.all(srt_idx[:, 1:] != srt_idx[:, :-1]), "knn:index_distinct", tag + "a neighbour index is repeated in a row"):
                    return
                att = np.take_along_axis(dd, Ib, -1)           # reference distance of the returned neighbours
                e2 = np.abs(att - Vb)
                worst = max(worst, float((e2 / (rel * np.abs(Vb) + 1e-300)).max()) if e2.size else 0.0)
                if not rec.check(np.all(e2 <= rel * np.abs(Vb) + 1e-300), "knn:indices:" + cfg, lambda: "%sk=%d ord=%s: a returned index "
                                 "does not attain the returned distance (row %d: indices %s, their distances %s, returned %s)" % (
                                     tag, k, case["ord"], int(np.argmax(e2.max(-1))), Ib[int(np.argmax(e2.max(-1)))].tolist()[:8],
                                     att[int(np.argmax(e2.max(-1)))].tolist()[:8], Vb[int(np.argmax(e2.max(-1)))].tolist()[:8])):
                    return
            # index map under the permutation (only rows whose neighbour order is determined)
            key = np.sort(-d if largest else d, -1)
            for i in range(N1):
                if not C.row_gap_ok(key[sg[i]], k, 2 * rel):
                    ambiguous += 1
                    continue
                a, bb = pi[I2[b, i]], I[b, sg[i]]
                same_idx = np.array_equal(a, bb) if srt else (sorted(a.tolist()) == sorted(bb.tolist()))
                if srt:
                    same_idx = same_idx and np.array_equal(bb, iref[sg[i]])
                if not rec.check(same_idx, "knn:equivariance:" + cfg, lambda: "row %d: indices for the permuted input map to %s, "
                                 "unpermuted gives %s, brute force %s" % (i, a.tolist()[:8], bb.tolist()[:8], iref[sg[i]].tolist()[:8])):
                    return
        rec.notes["knn_err/tol"] = worst
        if ambiguous:
            rec.label("knn:rows_with_near_ties")

    def simplify(self, case):
        yield from _shrink_common(case, "N2")
        yield from _shrink_common(case, "N1")
        if case["k"] > 1:
            yield dict(case, k=1)
            yield dict(case, k=case["k"] - 1)
        for key in ("largest", "sorted"):
            if case[key] is not None:
                yield dict(case, **{key: None})
        if case["same"]:
            yield dict(case, same=False)


# =====================================================================================================
class NbrFilter(Sub):
    name = "nbr_filter"
    n = {"quick": 3200, "thorough": 80000}

    def strategy(self, tier):
        @st.composite
        def s(draw):
            N = draw(_sizes(tier))
            extra = draw(st.sampled_from((0, 0, 1, 2, 3)))
            return {"N": N, "dim": draw(st.integers(1, 6)), "extra": extra,
                    "pdim_given": True if extra else draw(st.booleans()),
                    "n_out": draw(st.integers(0, max(0, N // 3))), "out_mode": draw(st.sampled_from(("random", "random", "first", "last"))),
                    "ord": draw(st.sampled_from(ORDS)), "ord_given": draw(st.booleans()),
                    "nbr": draw(st.one_of(st.integers(0, min(N, 4)), st.integers(0, N))),
                    "rmode": draw(st.sampled_from(("kth", "kth", "kth", "pair", "pair", "below", "above"))),
                    "q": draw(st.floats(0, 1)), "grid": draw(st.sampled_from((False, False, False, True))),
                    "dtype": draw(_dtype), "seed": draw(_seed)}
        return s()

    def oracle(self, case, rec):
        N, dim, extra, dtype, nb = case["N"], case["dim"], case["extra"], case["dtype"], case["nbr"]
        nb = min(nb, N)
        o = C.ord_of(case["ord"])
        rs = np.random.RandomState(case["seed"])
        pts, _ = make_cloud(rs, N, dim, extra, case["n_out"], case["out_mode"], dtype, case["grid"])
        rel = _rel(dtype, dim)
        d = C.pdist(pts[:, :dim], pts[:, :dim], o)
        radius = pick_radius(d, nb, case["rmode"], case["q"], rel)
        if not C.radius_is_safe(d, radius, rel):
            rec.discard_case("no safe radius")
        mref = C.neighbour_count(d, radius) >= nb
        pi = _perm(rs, N)
        kw = {}
        if case["pdim_given"] or extra:
            kw["pdim"] = dim
        if o != 2 or case["ord_given"]:
            kw["ord"] = o
        X = _t(pts, dtype)
        with rec.sut("nbr_filter"):
            y_plain = pp.nbr_filter(X, nb, radius, **kw)
            y, m = pp.nbr_filter(X, nbr=nb, radius=radius, return_mask=True, **kw)
            y2, m2 = pp.nbr_filter(_t(pts[pi], dtype), nb, radius, return_mask=True, **kw)
        kept = int(mref.sum())
        frac = "none" if kept == 0 else ("all" if kept == N else "some")
        rec.label("ord" + case["ord"], dtype, "kept_" + frac, "grid" if case["grid"] else "real", "r_" + case["rmode"],
                  "removed_not_last" if not _prefix_mask(mref) else "removed_last_or_none")
        if not _prefix_mask(mref):
            rec.nt(("nbr", case["ord"], dtype, case["grid"], dim, extra, _sizeclass(N), _sizeclass(nb), int(4 * kept / N)))
        for tag, yy, mm, P, mr in (("", y, m, pts, mref), ("perm:", y2, m2, pts[pi], mref[pi])):
            if not rec.check(mm.dtype == torch.bool and tuple(mm.shape) == (N,), "nbr:mask_shape", tag + "mask %s %s" % (mm.dtype, tuple(mm.shape))):
                return
            mg = mm.numpy()
            if not rec.check(np.array_equal(mg, mr), "nbr:mask:" + case["ord"], lambda: "%sn=%d radius=%r ord=%s: mask differs from "
                             "{i: #{j!=i, d_ij<=r} >= n} at rows %s (brute-force counts there %s)" % (
                                 tag, nb, radius, case["ord"], np.nonzero(mg != mr)[0].tolist()[:8],
                                 C.neighbour_count(C.pdist(P[:, :dim], P[:, :dim], o), radius)[np.nonzero(mg != mr)[0]].tolist()[:8])):
                return
            if not rec.check(yy.dim() == 2 and tuple(yy.shape) == (kept, dim + extra) and yy.dtype == tu.TD[dtype], "nbr:shape",
                             tag + "output shape %s, expected %s" % (tuple(yy.shape), (kept, dim + extra))):
                return
            want = collections.Counter(_rowkey(r) for r in P[mr])
            got = collections.Counter(_rowkey(r) for r in tu.npy(yy))
            if not rec.check(want == got, "nbr:rows", tag + "kept rows are not the input rows selected by the mask"):
                return
        rec.check(torch.equal(y_plain, y), "nbr:plain_vs_mask", "nbr_filter without return_mask returns different points")

    def simplify(self, case):
        yield from _shrink_common(case)
        if case["n_out"]:
            yield dict(case, n_out=case["n_out"] - 1)
        if case["grid"]:
            yield dict(case, grid=False)
        if case["nbr"] > 0:
            yield dict(case, nbr=case["nbr"] - 1)


SUBS = [Knn(), NbrFilter()]
