"""C18 - point-cloud filters and camera helpers match their brute-force definitions."""
import math
import collections
import numpy as np
import torch
import pypose as pp
from hypothesis import strategies as st

from ..core import Sub, load_known
from ..ref import cloud as C
from ..ref import lie as R
from .. import tu, gen

PROPERTY = "C18"
RULE = ("Clouds: N in 1..300 (quick: 80% <= 60), 1..6 coordinate dims + 0..3 feature channels, float64 (3/4) / "
        "float32, coordinates = RandomState(seed).randn * scale rounded to the dtype (ties have probability 0), "
        "0..N/3 far outliers placed first / last / at random rows; the reference is numpy brute force in float64 "
        "on the same rounded data.  rel = 8(D+2)eps bounds |computed - reference distance| / distance with a factor "
        ">= 16 to spare (inputs are exact, so fl(x-y) has relative error eps/2 and nothing cancels; 2-norm (D/2+2)eps/2, "
        "1-norm D eps/2, inf-norm eps/2, the same again for the float64 reference); no other floor.  Radii: midpoint of a "
        "gap of the sorted pairwise distances (gap > 4*rel) at a drawn quantile of all pairwise distances or of the "
        "n-th-neighbour distances, or below the smallest / above the largest distance.  knn: values within rel "
        "relative, shape, indices int64 (documented LongTensor), distinct and ATTAINING the m-th smallest reference "
        "distance within the same tolerance, and no point left out is closer than a returned one (all tie-robust; they "
        "equal index equality when the gaps exceed the tolerance), ord 1/2/inf, batch rank 0..2, sorted=False as a set "
        "claim, largest=True as the k largest, N1 up to 300 (quick: about one case in twelve has N1 > 60).  Ties for knn / knn_filter "
        "(3/8 of the cases): 'dup' = 1..N/3 rows overwritten with copies of other rows (knn: neighbours coincide and "
        "reference points sit exactly on neighbours; knn_filter: coordinates coincide, feature channels stay distinct), "
        "'grid' = small-integer grid (times 2^j for knn) with exactly tied distances between distinct points.  "
        "nbr_filter: mask == {i: #{j!=i, d_ij<=r} >= n} exactly, rows == input rows under the mask (bitwise, as a "
        "multiset), return_mask and plain call agree; integer-grid clouds (ties, duplicates) for the value claim with "
        "radii between distinct distance values; voxel_filter: cloud = min + v*(cell+frac), frac in [.1,.9], "
        "anchor at the minimum corner, or integer-grid clouds with integer / dyadic voxel sizes (points "
        "exactly on cell faces, exact arithmetic); one output row per occupied cell, centroid over all "
        "channels within 4(count+2)eps*max|x|, random=True: bitwise a member row, each cell once; knn_filter: "
        "retained = all or #{j!=i,d_ij<=r} >= k; all rows match reading A (neighbours among all points) or all "
        "rows match reading B (among retained points; only if >= k+1 retained), within 4(k+3)eps*max|x|; a row is "
        "DETERMINED when the gap between its k-th and (k+1)-th neighbour distance exceeds 2 rel (coinciding points do "
        "not matter then: all zero-distance points are among the k+1 nearest); a tied row must equal the mean of one of "
        "the admissible neighbour choices (everything below the near-tie cluster + any subset of the cluster; all "
        "enumerated when <= 64, else the row is unasserted and labelled); rows in input order, or order-free: every "
        "determined reference row has an output row of its own and every other output row is an admissible mean of a "
        "tied row; k = 0 (the point alone; a few % of the cases, and the only k for N = 1, ~2%) must return the points or be "
        "refused loudly (assert / ValueError); an exception otherwise or a wrong shape is a failure; random_filter: "
        "every batch item's rows are bitwise input rows at distinct indices (input rows unique), shape (...,num,D).  "
        "Permutation equivariance: every filter is re-run on points[pi] (pi non-identity when N>=2) and checked "
        "against the permuted reference and against the first output (index maps for knn on rows with determined "
        "order, sorted rows for filters; knn_filter: the determined rows must correspond through pi even when other "
        "rows are tied - order-free: at most as many unmatched rows as tied rows).  Camera: K = [[fx,0,cx],[0,fy,cy],"
        "[0,0,1]], |fx|,|fy| in 1e-2..1e4 both signs, cx,cy in +-1e3, |z| in 1e-2..1e2 both signs, N in 1..40 or (quick: ~1 case in 9) "
        "41..300, SE3 extrinsics: random (4/9, |t| <= 10), identity, pure translation, half turn (w = 0 exactly) "
        "about a coordinate axis with / without translation or about a random axis; batch shapes broadcast between "
        "points / K / T; pixel2point(point2pixel(P),z,K)=P within 16 eps (|x|+|cx z/fx|), converse within "
        "16 eps (|u-cx|+|cx|), point2pixel vs the pinhole formula u = fx X/Z + cx of T*P within 16 eps (|fx X/Z|+|cx|) plus the "
        "propagated rounding 16 eps (2|P|+|t|) of T*P, pixel2point vs ((u-cx)z/fx, (v-cy)z/fy, z) likewise, reprojerr(P, "
        "point2pixel(P,K,T), K, T) == 0 exactly for none/sum/norm, and (so that the zero is not vacuous; docstring: "
        "reduction 'none' = the error 'on each component (u, v)') |reprojerr(P, px + s)| == |s| within 4 eps(|px|+|s|), sign "
        "free; homo2cart(cart2homo(p)) == p bitwise for "
        "any finite p (zeros, subnormals, huge) and cart2homo = [p,1].  Non-trivial: a removed point that is "
        "not in the last rows; k >= 2; >= 2 points sharing a voxel; non-identity permutation; negative focal "
        "length or depth.  distinct = (sub-check, config, size classes, tie mode / extrinsics kind).")
ASSUMPTIONS = ["clouds without exactly coinciding points for nbr_filter's real clouds, voxel_filter's real clouds and random_filter; "
               "knn / knn_filter see coinciding points and exact ties (index / row claims there are the tie-robust ones of RULE)",
               "radii never within 8(D+2)eps relative of a pairwise distance (16 x the worst-case rounding of a computed distance); positive voxel sizes",
               "k in 0..N-1 for knn_filter (the point itself is one of the k+1 nearest, and knn documents k <= N2; the docstring "
               "gives no lower bound for k, so k = 0 may be answered or refused loudly), 1..N2 for knn, n in 0..N for nbr_filter, num in 0..N",
               "rectified intrinsics [[fx,0,cx],[0,fy,cy],[0,0,1]] only - the layout of every docstring example and the one the "
               "property's 'non-zero focal lengths' parameterises; a skew entry K[0,1] is outside the documented domain (point2pixel "
               "multiplies by the full matrix, pixel2point reads fx, fy, cx, cy only, so the two are not inverse for skewed K) and is not generated; "
               "non-zero focal lengths, camera-frame depth |z| >= 1e-2",
               "row order of filter outputs is not asserted (multiset), batch shapes only where the docstrings give '...'",
               "dtype of knn's values: any floating dtype (the docstring promises LongTensor for the indices only)"]

ORDS = ("2", "2", "1", "inf")
U64 = float(np.finfo(np.float64).eps)


def _eps(dtype):
    return tu.EPS[dtype]


def _rel(dtype, D):
    """relative bound for the difference between a distance computed in `dtype` and the float64 reference.

    Derivation (u = eps/2, inputs exactly representable, so there is NO cancellation error: fl(x-y) = (x-y)(1+d), |d| <= u):
      2-norm  sqrt(sum_i fl(x_i-y_i)^2): u (difference) + [u (square) + (D-1)u (sum)]/2 (halved by the root) + u (root)
              <= (D/2 + 2) u;   1-norm: u + (D-1)u = D u;   inf-norm: u.
    The float64 reference carries the same bound with u64, so |computed - reference| <= (D+4) u d = (D+4)/2 eps d in the
    worst case (float64 against float64).  8 (D+2) eps is that bound with a safety factor >= 16 (observed ratios ~0.05);
    the former 1e-9 floor (1e5 round-offs in float64) is gone."""
    return 8.0 * (D + 2) * _eps(dtype)


def _rnd(a, dtype):
    a = np.asarray(a, dtype=np.float64)
    return a.astype(np.float32).astype(np.float64) if dtype == "float32" else a


def _t(a, dtype):
    """tensor handed to pypose.  One in three (chosen by a checksum of the values, so a pure function of the case) of the tensors
    with >= 2 dimensions and more than one row and column is stored column-major in its last two dimensions (same values, other
    strides - what points.mT.contiguous().mT, a slice of a bigger array or a transposed load looks like): memory layout is an input
    dimension for functions that reshape / view / write in place internally."""
    import zlib
    arr = np.asarray(a)
    t = torch.tensor(arr, dtype=tu.TD[dtype])
    if t.dim() >= 2 and t.shape[-1] > 1 and t.shape[-2] > 1 and zlib.crc32(np.ascontiguousarray(arr).tobytes()) % 3 == 0:
        t = t.mT.contiguous().mT
    return t


def _sizeclass(n):
    return 0 if n <= 0 else int(math.log2(n)) + 1


def _perm(rs, n):
    p = rs.permutation(n)
    if n >= 2 and np.array_equal(p, np.arange(n)):
        p = np.roll(p, 1)
    return p


def make_cloud(rs, N, dim, extra, n_out, out_mode, dtype, grid=False):
    """(N, dim+extra) float64 array (values exactly representable in dtype) and the outlier row flags"""
    n_out = min(n_out, N)
    n_in = N - n_out
    if grid:
        G = max(2, int(round(2 + 1.5 * N ** (1.0 / dim))))
        inl = rs.randint(0, G, size=(n_in, dim)).astype(np.float64)
        out = rs.randint(0, G, size=(n_out, dim)).astype(np.float64) + 8 * G * rs.choice([-1.0, 1.0], size=(n_out, dim))
    else:
        scale = 10.0 ** rs.uniform(-2, 2)
        inl = rs.randn(n_in, dim) * scale
        direction = rs.randn(n_out, dim)
        direction /= np.maximum(np.linalg.norm(direction, axis=1, keepdims=True), 1e-9)
        out = (direction * rs.uniform(15, 60, size=(n_out, 1)) + rs.randn(n_out, dim)) * scale
    coords = np.concatenate([inl, out], 0)
    feats = rs.randn(N, extra) * 10.0 ** rs.uniform(-1, 2)
    flag = np.concatenate([np.zeros(n_in, bool), np.ones(n_out, bool)])
    if out_mode == "first":
        order = np.concatenate([np.arange(n_in, N), np.arange(n_in)])
    elif out_mode == "random":
        order = rs.permutation(N)
    else:
        order = np.arange(N)
    pts = _rnd(np.concatenate([coords, feats], 1)[order], dtype)
    return pts, flag[order]


def pick_radius(d_self, nth, mode, q, rel):
    """radius for a cloud with self-distance matrix d_self (see RULE)"""
    alld = C.pair_distances(d_self)
    if alld.size == 0:
        return 1.0
    if mode == "below":
        return float(alld[0] * 0.5)
    if mode == "above":
        return float(alld[-1] * 1.5)
    if mode == "kth" and d_self.shape[0] >= 2:
        srt = np.sort(d_self, axis=1)                       # column 0 is the point itself
        col = srt[:, min(max(nth, 1), d_self.shape[0] - 1)]
        target = float(np.quantile(col, q))
    else:
        target = float(np.quantile(alld, q))
    return C.safe_radius(alld, target, rel)


def _prefix_mask(mask):
    """True iff the removed points are exactly the last rows (the docstring situation)"""
    m = np.asarray(mask, bool)
    k = int(m.sum())
    return bool(m[:k].all())


def _rowkey(a):
    return np.ascontiguousarray(a).tobytes()


_sizes_q = st.one_of(st.integers(1, 12), st.integers(1, 60), st.integers(1, 60), st.integers(1, 60), st.integers(1, 300))
_sizes_t = st.one_of(st.integers(1, 12), st.integers(1, 60), st.integers(1, 300), st.integers(100, 300))


def _sizes(tier):
    return _sizes_q if tier == "quick" else _sizes_t


_dtype = st.sampled_from(("float64", "float64", "float64", "float32"))
# exact ties: "dup" = some points coincide exactly, "grid" = small integer grid (tied distances between distinct points too)
_ties = st.sampled_from(("none", "none", "none", "none", "none", "dup", "dup", "grid"))


def _rare(draw, n):
    """True for roughly one draw in n..2n.  (Hypothesis strongly favours the minimum of an integer range - measured: 0 comes up in
    ~20% of the draws of integers(0, 31) - so a rare class is selected by an interior value of a separate integer draw.)"""
    return draw(st.integers(0, n - 1)) == n // 2


def _duplicate_rows(rs, dst, src, cols=None):
    """overwrite 1..max(1, len(dst)/3) random rows of dst (first `cols` columns) with random rows of src, in place"""
    m = int(rs.randint(1, max(2, dst.shape[0] // 3 + 1)))
    c = dst.shape[1] if cols is None else cols
    for _ in range(m):
        dst[rs.randint(0, dst.shape[0]), :c] = src[rs.randint(0, src.shape[0]), :c]
_seed = st.integers(0, 2 ** 31 - 1)


def _shrink_common(case, nkey="N", lo=1):
    n = case[nkey]
    for v in sorted({lo, lo + 1, lo + 2, n // 2, n - 1}):
        if lo <= v < n:
            yield dict(case, **{nkey: v})
    if case.get("dtype") == "float32":
        yield dict(case, dtype="float64")
    if case.get("batch"):
        yield dict(case, batch=case["batch"][1:])
        yield dict(case, batch=[])
    if case.get("extra"):
        yield dict(case, extra=0)
    if case.get("dim", 1) > 1:
        yield dict(case, dim=case["dim"] - 1)
    if case.get("seed"):
        yield dict(case, seed=case["seed"] % 7)


# =====================================================================================================
class Knn(Sub):
    """pp.knn(ref, nbr, k, ord, largest, sorted)"""
    name = "knn"
    n = {"quick": 3200, "thorough": 80000}

    def strategy(self, tier):
        @st.composite
        def s(draw):
            N2 = draw(_sizes(tier))
            same = draw(st.sampled_from((False, False, True)))
            # quick: a small share (nominally one cross case in five, see _rare) may have up to 300 reference points (the stated maximum), the others stay <= 60
            big = tier != "quick" or _rare(draw, 5)
            N1 = N2 if same else draw(st.one_of(st.integers(1, 8), st.integers(1, 300 if big else 60)))
            batch = draw(gen.lshape(max_rank=2, extents=(1, 2, 3), max_items=6))
            if N1 * N2 * max(1, int(np.prod(batch))) > 40000:
                batch = []
            return {"N1": N1, "N2": N2, "same": same, "dim": draw(st.integers(1, 6)),
                    "k": draw(st.one_of(st.integers(1, min(N2, 4)), st.integers(1, N2))),
                    "ord": draw(st.sampled_from(ORDS)), "batch": batch,
                    "largest": draw(st.sampled_from((None, None, None, False, True))),
                    "sorted": draw(st.sampled_from((None, None, True, False))),
                    "ties": draw(_ties), "dtype": draw(_dtype), "seed": draw(_seed)}
        return s()

    def oracle(self, case, rec):
        N1, N2, D, k, dtype = case["N1"], case["N2"], case["dim"], case["k"], case["dtype"]
        ties = case.get("ties", "none")
        if case["same"]:
            N1 = N2
        k = min(k, N2)
        batch = list(case["batch"])
        B = int(np.prod(batch)) if batch else 1
        o = C.ord_of(case["ord"])
        rs = np.random.RandomState(case["seed"])
        scale = 10.0 ** rs.uniform(-2, 2)
        if ties == "grid":
            # small integer grid times a power of two: exactly tied distances between distinct points, duplicates, zeros
            G = int(rs.randint(2, 6))
            scale = 2.0 ** rs.randint(-6, 7)
            nbr = rs.randint(0, G, size=(B, N2, D)).astype(np.float64) * scale
            ref = nbr.copy() if case["same"] else rs.randint(0, G, size=(B, N1, D)).astype(np.float64) * scale
        else:
            nbr = _rnd(rs.randn(B, N2, D) * scale, dtype)
            ref = None if case["same"] else _rnd(rs.randn(B, N1, D) * scale, dtype)
            if ties == "dup":
                for b in range(B):
                    _duplicate_rows(rs, nbr[b], nbr[b])                  # exactly coinciding neighbours
                    if ref is not None:
                        _duplicate_rows(rs, ref[b], nbr[b])              # reference points ON neighbours (distance 0)
            if ref is None:
                ref = nbr.copy()
        pi, sg = _perm(rs, N2), _perm(rs, N1)
        largest = bool(case["largest"])
        srt = case["sorted"] is not False
        kw = {}
        if case["largest"] is not None:
            kw["largest"] = case["largest"]
        if case["sorted"] is not None:
            kw["sorted"] = case["sorted"]
        if o != 2 or rs.rand() < 0.5:
            kw["ord"] = o
        tr, tn = _t(ref.reshape(batch + [N1, D]), dtype), _t(nbr.reshape(batch + [N2, D]), dtype)
        with rec.sut("knn"):
            out = pp.knn(tr, tn, k, **kw) if (k != 1 or rs.rand() < 0.5) else pp.knn(tr, tn, **kw)
            out2 = pp.knn(_t(ref[:, sg].reshape(batch + [N1, D]), dtype), _t(nbr[:, pi].reshape(batch + [N2, D]), dtype), k, **kw)
        rel = _rel(dtype, D)
        cfg = "%s:%s" % (case["ord"], "largest" if largest else "smallest")
        rec.label("ord" + case["ord"], dtype, "rank%d" % len(batch), "largest" if largest else "smallest",
                  "sorted" if srt else "unsorted", "self" if case["same"] else "cross", "k=N" if k == N2 else ("k=1" if k == 1 else "k>=2"),
                  "ties_" + ties, "N1>60" if N1 > 60 else "N1<=60")
        nonid = (N2 >= 2 or N1 >= 2)
        if k >= 2 and nonid:
            rec.nt(("knn", case["ord"], dtype, len(batch), largest, srt, case["same"], _sizeclass(N1), _sizeclass(N2), _sizeclass(k), D, ties))
        ok = True
        for nm, res in (("", out), ("perm:", out2)):
            vals, idx = res
            ok &= rec.check(tuple(vals.shape) == tuple(batch + [N1, k]) and tuple(idx.shape) == tuple(batch + [N1, k]),
                            "knn:shape", lambda: "%sknn shapes %s %s, expected %s" % (nm, tuple(vals.shape), tuple(idx.shape), batch + [N1, k]))
            # the docstring promises `indices: torch.LongTensor`; for the values it only says torch.Tensor, so only a
            # floating dtype is required (the tolerance below is the one of the input dtype in any case)
            ok &= rec.check(idx.dtype == torch.int64 and vals.dtype.is_floating_point, "knn:dtype", "values/indices dtype %s %s" % (vals.dtype, idx.dtype))
        if not ok:
            return
        V, I = out[0].double().numpy().reshape(B, N1, k), out[1].numpy().reshape(B, N1, k)
        V2, I2 = out2[0].double().numpy().reshape(B, N1, k), out2[1].numpy().reshape(B, N1, k)
        worst, ambiguous, exact_tie = 0.0, 0, 0
        for b in range(B):
            d = C.pdist(ref[b], nbr[b], o)
            vref, iref = C.knn(d, k, largest)
            for tag, Vb, Ib, dd, vr in (("", V[b], I[b], d, vref), ("perm:", V2[b], I2[b], d[sg][:, pi], vref[sg])):
                if not rec.check(np.all((Ib >= 0) & (Ib < N2)), "knn:index_range", tag + "index out of range"):
                    return
                tol = rel * np.abs(vr) + 1e-300
                got = Vb if srt else np.sort(Vb, -1)[:, ::-1 if largest else 1]
                err = np.abs(got - vr)
                worst = max(worst, float((err / tol).max()) if err.size else 0.0)
                if not rec.check(np.all(err <= tol), "knn:values:" + cfg, lambda: "%sk=%d ord=%s: distances differ from the k %s "
                                 "reference distances by up to %.3g (tol %.3g) at row %d" % (tag, k, case["ord"], "largest" if largest else
                                 "smallest", float(err.max()), float(tol.flat[int(np.argmax(err / tol))]), int(np.argmax((err / tol).max(-1))))):
                    return
                srt_idx = np.sort(Ib, -1)
                if not rec.check(k < 2 or np.all(srt_idx[:, 1:] != srt_idx[:, :-1]), "knn:index_distinct", tag + "a neighbour index is repeated in a row"):
                    return
                att = np.take_along_axis(dd, Ib, -1)           # reference distance of the returned neighbours
                e2 = np.abs(att - Vb)
                worst = max(worst, float((e2 / (rel * np.abs(Vb) + 1e-300)).max()) if e2.size else 0.0)
                if not rec.check(np.all(e2 <= rel * np.abs(Vb) + 1e-300), "knn:indices:" + cfg, lambda: "%sk=%d ord=%s: a returned index "
                                 "does not attain the returned distance (row %d: indices %s, their distances %s, returned %s)" % (
                                     tag, k, case["ord"], int(np.argmax(e2.max(-1))), Ib[int(np.argmax(e2.max(-1)))].tolist()[:8],
                                     att[int(np.argmax(e2.max(-1)))].tolist()[:8], Vb[int(np.argmax(e2.max(-1)))].tolist()[:8])):
                    return
                if k < N2:
                    # no closer (further, for largest) point is left out: reference distances of the points NOT returned
                    rest = np.ones(dd.shape, bool)
                    np.put_along_axis(rest, Ib, False, -1)
                    if largest:
                        edge_out, edge_in = np.where(rest, dd, -np.inf).max(-1), att.min(-1)
                        bad = edge_out > edge_in + rel * np.abs(edge_in)
                    else:
                        edge_out, edge_in = np.where(rest, dd, np.inf).min(-1), att.max(-1)
                        bad = edge_out < edge_in - rel * np.abs(edge_in)
                    if not rec.check(not bad.any(), "knn:omitted:" + cfg, lambda: "%sk=%d ord=%s: row %d leaves out a point at distance %r "
                                     "although it returns one at distance %r" % (tag, k, case["ord"], int(np.argmax(bad)),
                                                                                float(edge_out[int(np.argmax(bad))]), float(edge_in[int(np.argmax(bad))]))):
                        return
            # index map under the permutation (only rows whose neighbour order is determined)
            key = np.sort(-d if largest else d, -1)
            if k < N2:
                exact_tie += int((key[:, k - 1] == key[:, k]).sum())
            for i in range(N1):
                if not C.row_gap_ok(key[sg[i]], k, 2 * rel):
                    ambiguous += 1
                    continue
                a, bb = pi[I2[b, i]], I[b, sg[i]]
                same_idx = np.array_equal(a, bb) if srt else (sorted(a.tolist()) == sorted(bb.tolist()))
                if srt:
                    same_idx = same_idx and np.array_equal(bb, iref[sg[i]])
                if not rec.check(same_idx, "knn:equivariance:" + cfg, lambda: "row %d: indices for the permuted input map to %s, "
                                 "unpermuted gives %s, brute force %s" % (i, a.tolist()[:8], bb.tolist()[:8], iref[sg[i]].tolist()[:8])):
                    return
        rec.notes["knn_err/tol"] = worst
        if ambiguous:
            rec.label("knn:rows_with_near_ties")
        if exact_tie:
            rec.label("knn:exact_tie_at_kth")

    def simplify(self, case):
        yield from _shrink_common(case, "N2")
        yield from _shrink_common(case, "N1")
        if case["k"] > 1:
            yield dict(case, k=1)
            yield dict(case, k=case["k"] - 1)
        for key in ("largest", "sorted"):
            if case[key] is not None:
                yield dict(case, **{key: None})
        if case["same"]:
            yield dict(case, same=False)
        if case.get("ties", "none") != "none":
            yield dict(case, ties="none")


# =====================================================================================================
class NbrFilter(Sub):
    name = "nbr_filter"
    n = {"quick": 3200, "thorough": 80000}

    def strategy(self, tier):
        @st.composite
        def s(draw):
            N = draw(_sizes(tier))
            extra = draw(st.sampled_from((0, 0, 1, 2, 3)))
            return {"N": N, "dim": draw(st.integers(1, 6)), "extra": extra,
                    "pdim_given": True if extra else draw(st.booleans()),
                    "n_out": draw(st.integers(0, max(0, N // 3))), "out_mode": draw(st.sampled_from(("random", "random", "first", "last"))),
                    "ord": draw(st.sampled_from(ORDS)), "ord_given": draw(st.booleans()),
                    "nbr": draw(st.one_of(st.integers(1, max(1, min(N - 1, 4))), st.integers(1, max(1, N - 1)), st.integers(0, N))),
                    "rmode": draw(st.sampled_from(("kth", "kth", "kth", "kth", "pair", "pair", "below", "above"))),
                    "q": draw(st.floats(0, 1)), "grid": draw(st.sampled_from((False, False, False, True))),
                    "dtype": draw(_dtype), "seed": draw(_seed)}
        return s()

    def oracle(self, case, rec):
        N, dim, extra, dtype, nb = case["N"], case["dim"], case["extra"], case["dtype"], case["nbr"]
        nb = min(nb, N)
        o = C.ord_of(case["ord"])
        rs = np.random.RandomState(case["seed"])
        pts, _ = make_cloud(rs, N, dim, extra, case["n_out"], case["out_mode"], dtype, case["grid"])
        rel = _rel(dtype, dim)
        d = C.pdist(pts[:, :dim], pts[:, :dim], o)
        radius = pick_radius(d, nb, case["rmode"], case["q"], rel)
        if not C.radius_is_safe(d, radius, rel):
            rec.discard_case("no safe radius")
        mref = C.neighbour_count(d, radius) >= nb
        pi = _perm(rs, N)
        kw = {}
        if case["pdim_given"] or extra:
            kw["pdim"] = dim
        if o != 2 or case["ord_given"]:
            kw["ord"] = o
        X = _t(pts, dtype)
        with rec.sut("nbr_filter"):
            y_plain = pp.nbr_filter(X, nb, radius, **kw)
            y, m = pp.nbr_filter(X, nbr=nb, radius=radius, return_mask=True, **kw)
            y2, m2 = pp.nbr_filter(_t(pts[pi], dtype), nb, radius, return_mask=True, **kw)
        kept = int(mref.sum())
        frac = "none" if kept == 0 else ("all" if kept == N else "some")
        rec.label("ord" + case["ord"], dtype, "kept_" + frac, "grid" if case["grid"] else "real", "r_" + case["rmode"],
                  "removed_not_last" if not _prefix_mask(mref) else "removed_last_or_none")
        if not _prefix_mask(mref):
            rec.nt(("nbr", case["ord"], dtype, case["grid"], dim, extra, _sizeclass(N), _sizeclass(nb), int(4 * kept / N)))
        for tag, yy, mm, P, mr in (("", y, m, pts, mref), ("perm:", y2, m2, pts[pi], mref[pi])):
            if not rec.check(mm.dtype == torch.bool and tuple(mm.shape) == (N,), "nbr:mask_shape", tag + "mask %s %s" % (mm.dtype, tuple(mm.shape))):
                return
            mg = mm.numpy()
            if not rec.check(np.array_equal(mg, mr), "nbr:mask:" + case["ord"], lambda: "%sn=%d radius=%r ord=%s: mask differs from "
                             "{i: #{j!=i, d_ij<=r} >= n} at rows %s (brute-force counts there %s)" % (
                                 tag, nb, radius, case["ord"], np.nonzero(mg != mr)[0].tolist()[:8],
                                 C.neighbour_count(C.pdist(P[:, :dim], P[:, :dim], o), radius)[np.nonzero(mg != mr)[0]].tolist()[:8])):
                return
            if not rec.check(yy.dim() == 2 and tuple(yy.shape) == (kept, dim + extra) and yy.dtype == tu.TD[dtype], "nbr:shape",
                             tag + "output shape %s, expected %s" % (tuple(yy.shape), (kept, dim + extra))):
                return
            want = collections.Counter(_rowkey(r) for r in P[mr])
            got = collections.Counter(_rowkey(r) for r in tu.npy(yy))
            if not rec.check(want == got, "nbr:rows", tag + "kept rows are not the input rows selected by the mask"):
                return
        rec.check(torch.equal(y_plain, y), "nbr:plain_vs_mask", "nbr_filter without return_mask returns different points")

    def simplify(self, case):
        yield from _shrink_common(case)
        if case["n_out"]:
            yield dict(case, n_out=case["n_out"] - 1)
        if case["grid"]:
            yield dict(case, grid=False)
        if case["nbr"] > 0:
            yield dict(case, nbr=case["nbr"] - 1)


# =====================================================================================================
def make_voxel_cloud(rs, case):
    """(points (N, vdim+extra) exactly representable in dtype, constructed cell of every point or None)"""
    N, vdim, extra, dtype, voxel = case["N"], len(case["voxel"]), case["extra"], case["dtype"], np.array(case["voxel"], dtype=np.float64)
    if case["grid"]:
        G = max(2, int(round(1 + (2.0 * N) ** (1.0 / vdim))))
        coords = rs.randint(-G, G + 1, size=(N, vdim)).astype(np.float64) * np.where(voxel < 1, voxel, 1.0)
        cells = None
    else:
        M = max(1, min(case["M"], N))
        G = max(2, int(math.ceil(M ** (1.0 / vdim))) + rs.randint(0, 4))
        occ = {(0,) * vdim}
        while len(occ) < M:
            occ.add(tuple(int(x) for x in rs.randint(0, G, size=vdim)))
        occ = [(0,) * vdim] + sorted(occ - {(0,) * vdim}, key=lambda c: rs.rand())
        assign = np.concatenate([np.arange(M), rs.randint(0, M, size=N - M)]).astype(int)
        cells = np.array(occ, dtype=np.int64).reshape(M, vdim)[assign]
        frac = rs.uniform(0.1, 0.9, size=(N, vdim))
        frac[0] = 0.0                                         # the anchor: exactly the minimum corner
        pmin = voxel * rs.uniform(-50, 50, size=vdim)
        coords = pmin + voxel * (cells + frac)
        coords[0] = pmin
    feats = rs.randn(N, extra) * 10.0 ** rs.uniform(-1, 2)
    pts = np.concatenate([coords, feats], 1)
    order = rs.permutation(N)
    return _rnd(pts[order], dtype), (None if cells is None else cells[order])


class Voxel(Sub):
    name = "voxel_filter"
    n = {"quick": 3200, "thorough": 80000}

    def strategy(self, tier):
        @st.composite
        def s(draw):
            N = draw(_sizes(tier))
            grid = draw(st.sampled_from((False, False, True)))
            vdim = draw(st.integers(1, 6 if not grid else 4))
            if grid:
                voxel = [draw(st.sampled_from((1.0, 1.0, 2.0, 3.0, 4.0, 5.0, 0.5, 0.25))) for _ in range(vdim)]
            else:
                voxel = [float("%.6g" % (10.0 ** draw(st.floats(-2, 2)))) for _ in range(vdim)]
            return {"N": N, "M": draw(st.one_of(st.integers(1, 3), st.integers(1, N))), "voxel": voxel,
                    "extra": draw(st.sampled_from((0, 0, 1, 2, 3))), "grid": grid, "random": draw(st.sampled_from((False, False, True))),
                    "dtype": draw(_dtype), "seed": draw(_seed)}
        return s()

    def oracle(self, case, rec):
        N, voxel, extra, dtype = case["N"], [float(v) for v in case["voxel"]], case["extra"], case["dtype"]
        vdim, D = len(voxel), len(voxel) + extra
        rs = np.random.RandomState(case["seed"])
        pts, cells = make_voxel_cloud(rs, case)
        vcell = C.voxel_cells(pts[:, :vdim], voxel)
        if cells is not None and not np.array_equal(vcell, cells):
            raise AssertionError("harness: constructed voxel cells disagree with floor((p-min)/v)")
        groups = C.voxel_groups(pts[:, :vdim], voxel)
        pi = _perm(rs, N)
        eps = _eps(dtype)
        shared = max(len(g) for g in groups.values())
        rec.label(dtype, "grid" if case["grid"] else "real", "random" if case["random"] else "centroid",
                  "one_cell" if len(groups) == 1 else ("all_single" if shared == 1 else "shared"), "N=1" if N == 1 else "N>1")
        if shared >= 2:
            rec.nt(("vox", dtype, case["grid"], case["random"], vdim, extra, _sizeclass(N), _sizeclass(len(groups)), _sizeclass(shared)))
        torch.manual_seed(case["seed"])
        X = _t(pts, dtype)
        with rec.sut("voxel_filter"):
            if case["random"]:
                y1, y2 = pp.voxel_filter(X, voxel, random=True), pp.voxel_filter(_t(pts[pi], dtype), voxel, random=True)
            elif rs.rand() < 0.5:
                y1, y2 = pp.voxel_filter(X, voxel), pp.voxel_filter(_t(pts[pi], dtype), voxel)
            else:
                y1, y2 = pp.voxel_filter(X, voxel, random=False), pp.voxel_filter(_t(pts[pi], dtype), voxel, False)
        pmin = pts[:, :vdim].min(0)
        gkeys = list(groups)
        gindex = {g: i for i, g in enumerate(gkeys)}
        gmeans = np.array([pts[groups[g]].mean(0) for g in gkeys]).reshape(len(gkeys), D)
        cents = {}
        worst = 0.0
        for tag, y in (("", y1), ("perm:", y2)):
            if not rec.check(y.dim() == 2 and tuple(y.shape) == (len(groups), D) and y.dtype == tu.TD[dtype], "voxel:shape:" +
                             ("random" if case["random"] else "centroid"), "%soutput shape %s for %d occupied voxels of a (%d,%d) cloud" % (
                                 tag, tuple(y.shape), len(groups), N, D)):
                return
            Y = tu.npy(y)
            seen = set()
            bycell = cents.setdefault(tag, {})
            for r in Y:
                c = tuple(int(x) for x in np.floor((r[:vdim] - pmin) / np.array(voxel)))
                if case["random"]:
                    mem = groups.get(c, [])
                    if not rec.check(any(np.array_equal(r, pts[i]) for i in mem), "voxel:member", lambda: "%soutput row %s is not (bitwise) "
                                     "a point of the cloud lying in its voxel %s" % (tag, r.tolist(), c)):
                        return
                else:
                    # a centroid of integer-grid points may lie on a face; identify the cell by the nearest centroid instead
                    if case["grid"] or c not in groups:
                        c = gkeys[int(np.argmin(np.abs(gmeans - r).max(1)))]
                    mem = groups[c]
                    mean = gmeans[gindex[c]]
                    tol = 4 * (len(mem) + 2) * eps * np.maximum(np.abs(pts[mem]).max(0), 1e-300)
                    err = np.abs(r - mean)
                    worst = max(worst, float((err / tol).max()))
                    if not rec.check(np.all(err <= tol), "voxel:centroid", lambda: "%svoxel %s holds %d points with centroid %s, output "
                                     "row is %s" % (tag, c, len(mem), mean.tolist(), r.tolist())):
                        return
                if not rec.check(c not in seen, "voxel:cell_twice", "%svoxel %s is represented by two output rows" % (tag, c)):
                    return
                seen.add(c)
                bycell[c] = r
            if not rec.check(len(seen) == len(groups), "voxel:cell_missing", tag + "an occupied voxel has no output row"):
                return
        if not case["random"]:
            # the two outputs correspond cell by cell (same summands, possibly another summation order)
            tol = 8 * (shared + 2) * eps * np.maximum(np.abs(pts).max(0), 1e-300)
            bad = [c for c in gkeys if not np.all(np.abs(cents[""][c] - cents["perm:"][c]) <= tol)]
            rec.check(not bad, "voxel:equivariance", lambda: "centroid of voxel %s changes when the cloud is permuted: %s vs %s" % (
                bad[0], cents[""][bad[0]].tolist(), cents["perm:"][bad[0]].tolist()))
            rec.notes["voxel_err/tol"] = worst

    def simplify(self, case):
        yield from _shrink_common(case)
        if case["M"] > 1:
            yield dict(case, M=1)
            yield dict(case, M=case["M"] // 2)
        if len(case["voxel"]) > 1:
            yield dict(case, voxel=case["voxel"][:-1])
        if any(v != 1.0 for v in case["voxel"]):
            yield dict(case, voxel=[1.0] * len(case["voxel"]))


# =====================================================================================================
def _unmatched(Y, cand, tol):
    """number of rows of Y left without a partner of their own among the rows of cand (greedy matching within tol)"""
    free = np.ones(cand.shape[0], bool)
    miss = 0
    for r in Y:
        hit = np.nonzero(free & np.all(np.abs(cand - r) <= tol, axis=1))[0]
        if hit.size == 0:
            miss += 1
        else:
            free[hit[0]] = False
    return miss


def _explained(Y, Rdet, options, tol):
    """order-free reading of a filter output with tied rows: every determined reference row (Rdet) has an output row of
    its own, and every other output row is one of `options` (the admissible means of all tied rows together; None =
    some tied row has too many resolutions to enumerate, the remaining rows are not asserted then)"""
    free = np.ones(Y.shape[0], bool)
    for r in Rdet:
        hit = np.nonzero(free & np.all(np.abs(Y - r) <= tol, axis=1))[0]
        if hit.size == 0:
            return False
        free[hit[0]] = False
    if options is None or not free.any():
        return True
    if len(options) == 0:
        return False
    return all(bool(np.any(np.all(np.abs(options - r) <= tol, axis=1))) for r in Y[free])


class KnnFilter(Sub):
    fuzz_runs = 10000     # thorough tier: additional coverage-guided (atheris) campaign, same strategy / oracle
    name = "knn_filter"
    n = {"quick": 4000, "thorough": 100000}

    def strategy(self, tier):
        @st.composite
        def s(draw):
            N = 1 if _rare(draw, 32) else max(2, draw(_sizes(tier)))      # a one-point cloud admits k = 0 only
            extra = draw(st.sampled_from((0, 0, 1, 2, 3)))
            rmode = draw(st.sampled_from(("none", "none", "none", "kth", "kth", "kth", "kth", "kth", "kth", "pair", "pair", "below", "above")))
            batch = draw(gen.lshape(max_rank=2, extents=(1, 2, 3), max_items=6)) if rmode == "none" else []
            if N * N * max(1, int(np.prod(batch))) > 100000:
                batch = []
            return {"N": N, "dim": draw(st.integers(1, 6)), "extra": extra, "pdim_given": True if extra else draw(st.booleans()),
                    # k = 0 (the point alone; the only k a one-point cloud admits) gets a small share, see the oracle
                    "k": 0 if (N == 1 or _rare(draw, 24)) else draw(st.one_of(st.integers(min(2, N - 1), min(N - 1, 5)), st.integers(1, N - 1))),
                    "n_out": draw(st.integers(0, max(0, N // 3))), "out_mode": draw(st.sampled_from(("random", "random", "first", "last"))),
                    "ord": draw(st.sampled_from(ORDS)), "ord_given": draw(st.booleans()), "rmode": rmode, "q": draw(st.floats(0, 1)),
                    "batch": batch, "ties": draw(_ties), "dtype": draw(_dtype), "seed": draw(_seed)}
        return s()

    def oracle(self, case, rec):
        N, dim, extra, dtype = max(1, case["N"]), case["dim"], case["extra"], case["dtype"]
        k = max(0, min(case["k"], N - 1))
        ties = case.get("ties", "none")
        D = dim + extra
        o = C.ord_of(case["ord"])
        batch = list(case["batch"]) if case["rmode"] == "none" else []
        B = int(np.prod(batch)) if batch else 1
        rs = np.random.RandomState(case["seed"])
        clouds = [make_cloud(rs, N, dim, extra, case["n_out"], case["out_mode"], dtype, grid=(ties == "grid"))[0] for _ in range(B)]
        pts = np.stack(clouds, 0)
        if ties == "dup":
            for b in range(B):
                _duplicate_rows(rs, pts[b], pts[b], cols=dim)          # coinciding coordinates, the feature channels stay distinct
        rel = _rel(dtype, dim)
        eps = _eps(dtype)
        radius = None
        if case["rmode"] != "none":
            d = C.pdist(pts[0][:, :dim], pts[0][:, :dim], o)
            radius = pick_radius(d, k, case["rmode"], case["q"], rel)
            if not C.radius_is_safe(d, radius, rel):
                rec.discard_case("no safe radius")
        pi = _perm(rs, N)
        kw = {}
        if case["pdim_given"] or extra:
            kw["pdim"] = dim
        if o != 2 or case["ord_given"]:
            kw["ord"] = o
        if radius is not None:
            kw["radius"] = radius
        refs = [C.knn_filter(pts[b], k, dim, radius, o, 2 * rel) for b in range(B)]
        kept = int(refs[0]["mask"].sum())
        prefix = _prefix_mask(refs[0]["mask"])
        state = "noradius" if radius is None else ("none" if kept == 0 else "all" if kept == N else ("few" if kept < k + 1 else "some"))
        rec.label("ord" + case["ord"], dtype, "rank%d" % len(batch), "kept_" + state, "k>=2" if k >= 2 else "k=%d" % k,
                  "removed_not_last" if not prefix else "removed_last_or_none", "ties_" + ties, "N=1" if N == 1 else "N>1")
        if k >= 2 and (radius is None or not prefix):
            rec.nt(("knnf", case["ord"], dtype, len(batch), dim, extra, _sizeclass(N), _sizeclass(k), state, prefix, ties))
        Xs = pts.reshape(batch + [N, D])
        # k = 0: the docstring gives no range for k ("the number of neighbors"); the statement's "all k" is read as including
        # the point alone (mean of itself = itself, all readings coincide), but a LOUD refusal (assert / ValueError) of k = 0 is
        # accepted as well - only a returned value has to be right.
        refusal = (AssertionError, ValueError) if k == 0 else ()
        try:
            with rec.sut("knn_filter", allow=refusal):
                y1 = pp.knn_filter(_t(Xs, dtype), k, **kw)
                y2 = pp.knn_filter(_t(pts[:, pi].reshape(batch + [N, D]), dtype), k, **kw)
        except refusal:
            rec.label("knnf:k=0_refused")
            return
        worst = 0.0
        outs = {}
        tie_checked = tie_unchecked = 0
        for tag, y, perm in (("", y1, None), ("perm:", y2, pi)):
            if not rec.check(tuple(y.shape) == tuple(batch + [kept, D]) and y.dtype == tu.TD[dtype], "knnf:shape:" + ("r" if radius is not None else "nr"),
                             "%soutput shape %s, expected %s (k=%d radius=%r)" % (tag, tuple(y.shape), batch + [kept, D], k, radius)):
                return
            Y = tu.npy(y).reshape(B, kept, D)
            outs[tag] = Y
            for b in range(B):
                rf = refs[b]
                # rows of the reference in the order of the retained points of the (permuted) input
                order = np.arange(kept)
                if perm is not None:
                    ret = np.nonzero(rf["mask"])[0]
                    pos = {int(i): n for n, i in enumerate(ret)}
                    order = np.array([pos[int(i)] for i in perm if rf["mask"][i]], dtype=int)
                tol = 4 * (k + 3) * eps * np.maximum(np.abs(pts[b]).max(0), 1e-300)
                verdict = {}
                for rd in ("A", "B"):
                    Rr = rf[rd]
                    if Rr is None:
                        continue
                    Rr, okr = Rr[order], rf["ok" + rd][order]
                    err = (np.abs(Y[b] - Rr) / tol).max(1)
                    union = []
                    for j in np.nonzero(~okr)[0]:
                        # (near) tie at the k-th neighbour: the row must be the mean of SOME admissible choice of neighbours
                        opt = rf["opt" + rd][order[j]]
                        if opt is None:                          # too many alternatives to enumerate: not asserted
                            err[j] = 0.0
                            tie_unchecked += rd == "A"
                            union = None
                        else:
                            err[j] = float((np.abs(opt - Y[b][j]) / tol).max(1).min())
                            tie_checked += rd == "A"
                            if union is not None:
                                union.append(opt)
                    inorder = bool(np.all(err <= 1.0))
                    # rows in another order: every determined reference row needs an output row of its own, the others must be
                    # an admissible mean of some tied row
                    verdict[rd] = inorder or _explained(Y[b], Rr[okr], None if union is None else (
                        np.concatenate(union, 0) if union else np.zeros((0, D))), tol)
                    if inorder and err.size and rd == "A":
                        worst = max(worst, float(err.max()))
                    if verdict[rd] and not inorder:
                        rec.label("knnf:rows_not_in_input_order")
                if rf["B"] is not None and kept and not np.all(np.abs(rf["A"] - rf["B"]) <= tol):
                    rec.label("knnf:readings_differ")
                    if verdict.get("B") and not verdict.get("A"):
                        rec.label("knnf:matches_reading_B_only")
                if not any(verdict.values()):
                    ea = np.abs(Y[b] - rf["A"][order]) / tol
                    i = int(np.argmax(ea.max(1)))
                    rec.fail("knnf:rows:" + ("r" if radius is not None else "nr"), "%sk=%d radius=%r ord=%s N=%d kept=%d: output is neither "
                             "'mean of the point and its k nearest among all points' nor '... among retained points'; e.g. output row %d = %s, "
                             "reading A gives %s%s" % (tag, k, radius, case["ord"], N, kept, i, Y[b][i].tolist(), rf["A"][order][i].tolist(),
                                                       "" if rf["B"] is None else ", reading B gives %s" % rf["B"][order][i].tolist()))
                    return
        for b in range(B if kept else 0):
            # direct comparison of the two outputs: rows correspond through pi (input order), else as multisets
            ret = np.nonzero(refs[b]["mask"])[0]
            pos = {int(i): n for n, i in enumerate(ret)}
            order = np.array([pos[int(i)] for i in pi if refs[b]["mask"][i]], dtype=int)
            tol = 8 * (k + 3) * eps * np.maximum(np.abs(pts[b]).max(0), 1e-300)
            Ya, Yb = outs[""][b], outs["perm:"][b]
            okr = refs[b]["okA"] if refs[b]["okB"] is None else (refs[b]["okA"] & refs[b]["okB"])
            dif = np.abs(Yb - Ya[order]) / tol
            dif[~okr[order]] = 0.0                               # near tie at the k-th neighbour: either resolution is right
            # rows of the determined points correspond through pi; if the outputs are not in input order, as multisets: at most
            # as many rows may stay without a partner as there are undetermined (tied) rows
            same = bool(np.all(dif <= 1.0)) or _unmatched(Yb, Ya, tol) <= int((~okr).sum())
            if not okr.all():
                rec.label("knnf:rows_with_near_ties")
            if not rec.check(same, "knnf:equivariance", "outputs for the permuted cloud do not correspond to the outputs for the cloud through the permutation"):
                return
        rec.notes["knnf_err/tol"] = worst
        if tie_checked:
            rec.label("knnf:tie_rows_checked_against_all_resolutions")
        if tie_unchecked:
            rec.label("knnf:tie_rows_unasserted(too_many_resolutions)")

    def simplify(self, case):
        yield from _shrink_common(case, lo=2)
        if case["k"] > 1:
            yield dict(case, k=1)
            yield dict(case, k=case["k"] - 1)
        if case["n_out"]:
            yield dict(case, n_out=case["n_out"] - 1)
        if case.get("ties", "none") != "none":
            yield dict(case, ties="none")


# =====================================================================================================
class RandomFilter(Sub):
    name = "random_filter"
    n = {"quick": 1600, "thorough": 30000}

    def strategy(self, tier):
        @st.composite
        def s(draw):
            N = draw(_sizes(tier))
            return {"N": N, "D": draw(st.integers(1, 9)), "num": draw(st.one_of(st.integers(0, N), st.integers(1, max(1, N - 1)))),
                    "batch": draw(gen.lshape(max_rank=2, extents=(1, 2, 3), max_items=6)), "dtype": draw(_dtype), "seed": draw(_seed)}
        return s()

    def oracle(self, case, rec):
        N, D, dtype, batch = case["N"], case["D"], case["dtype"], list(case["batch"])
        num = min(case["num"], N)
        B = int(np.prod(batch)) if batch else 1
        rs = np.random.RandomState(case["seed"])
        pts = _rnd(rs.randn(B, N, D) * 10.0 ** rs.uniform(-2, 2), dtype)
        pi = _perm(rs, N)
        rec.label(dtype, "rank%d" % len(batch), "num=0" if num == 0 else ("num=N" if num == N else "0<num<N"))
        if 0 < num < N:
            rec.nt(("rand", dtype, len(batch), _sizeclass(N), _sizeclass(num), D))
        torch.manual_seed(case["seed"])
        with rec.sut("random_filter"):
            y1 = pp.random_filter(_t(pts.reshape(batch + [N, D]), dtype), num)
            y2 = pp.random_filter(_t(pts[:, pi].reshape(batch + [N, D]), dtype), num)
        for tag, y in (("", y1), ("perm:", y2)):
            if not rec.check(tuple(y.shape) == tuple(batch + [num, D]) and y.dtype == tu.TD[dtype], "random:shape",
                             "%soutput shape %s, expected %s" % (tag, tuple(y.shape), batch + [num, D])):
                return
            Y = tu.npy(y).reshape(B, num, D)
            for b in range(B):
                index = {_rowkey(r): i for i, r in enumerate(pts[b])}
                if len(index) != N:
                    rec.discard_case("input rows not unique")
                got = [index.get(_rowkey(r)) for r in Y[b]]
                if not rec.check(all(g is not None for g in got), "random:member", tag + "an output row is not an input row of its batch item"):
                    return
                if not rec.check(len(set(got)) == num, "random:distinct", lambda: tag + "input rows sampled more than once: indices %s" % got[:20]):
                    return

    def simplify(self, case):
        yield from _shrink_common(case)
        if case["num"] > 0:
            yield dict(case, num=case["num"] - 1)


# =====================================================================================================
F15_KEY = "pixel2point_batched_intrinsics"


def _f15_status():
    """pixel2point cannot take batched intrinsics on the current tree (fx of shape (B,) is broadcast against
    pixels[..., 0] of shape (B, N): RuntimeError, or silently wrong when N == B).  Until the lead has triaged it
    (entry with this key in known_findings.json) those calls are not generated; once an entry exists they are
    generated: status 'open' -> routed through KNOWN below, 'fixed' -> asserted like everything else."""
    for k in load_known():
        if k.get("key") == F15_KEY:
            return k.get("status")
    return None


def _sub_batch(draw, full):
    """a batch shape that broadcasts to `full`: full / unbatched / some extents set to 1"""
    mode = draw(st.sampled_from(("full", "full", "none", "ones")))
    if mode == "full" or not full:
        return list(full)
    if mode == "none":
        return []
    return [x if draw(st.booleans()) else 1 for x in full]


# extrinsics: random SE3 (half of the cases), the identity, a pure translation, a half turn (quaternion with w = 0 exactly)
# about a coordinate axis / a random axis, with and without translation
TKINDS = ("random", "random", "random", "random", "identity", "translation", "rotpi_axis", "rotpi_axis_t", "rotpi_random")


def make_extrinsics(rs, kind, n):
    """(n, 7) SE3 parameters [t, q] of the given kind (float64, unit quaternion up to rounding)"""
    q = rs.randn(n, 4)
    q /= np.linalg.norm(q, axis=1, keepdims=True)
    t = rs.randn(n, 3) * 10.0 ** rs.uniform(-1, 1)
    if kind == "identity":
        t[:], q[:] = 0.0, [0.0, 0.0, 0.0, 1.0]
    elif kind == "translation":
        q[:] = [0.0, 0.0, 0.0, 1.0]
    elif kind in ("rotpi_axis", "rotpi_axis_t"):
        q[:] = 0.0
        q[np.arange(n), rs.randint(0, 3, size=n)] = rs.choice([-1.0, 1.0], size=n)
        if kind == "rotpi_axis":
            t[:] = 0.0
    elif kind == "rotpi_random":
        q[:, 3] = 0.0
        q /= np.linalg.norm(q, axis=1, keepdims=True)
    return np.concatenate([t, q], 1)


class Camera(Sub):
    name = "camera"
    n = {"quick": 4000, "thorough": 100000}

    def strategy(self, tier):
        f15 = _f15_status()
        sgn = st.sampled_from((1.0, 1.0, -1.0))

        @st.composite
        def s(draw):
            full = draw(gen.lshape(max_rank=2, extents=(1, 2, 3), max_items=6))
            kb = _sub_batch(draw, full)
            kb_p2p = [] if (f15 is None and kb) else kb         # see _f15_status
            return {"batch": full, "pb": _sub_batch(draw, full), "kb": kb, "kb_p2p": kb_p2p, "tb": _sub_batch(draw, full),
                    # a small share of large point sets (up to the 300 of the cloud clauses); quick: nominally one case in eight (see _rare)
                    "N": draw(st.integers(41, 300)) if _rare(draw, 8 if tier == "quick" else 3) else draw(st.one_of(st.integers(1, 4), st.integers(1, 40))),
                    "fx": draw(sgn) * 10.0 ** draw(st.floats(-2, 4)), "fy": draw(sgn) * 10.0 ** draw(st.floats(-2, 4)),
                    "cx": draw(st.one_of(st.just(0.0), st.floats(-1e3, 1e3))), "cy": draw(st.one_of(st.just(0.0), st.floats(-1e3, 1e3))),
                    "zsign": draw(st.sampled_from(("pos", "neg", "mixed"))), "extr": draw(st.booleans()),
                    "tkind": draw(st.sampled_from(TKINDS)),
                    "reduction": draw(st.sampled_from((None, "none", "sum", "norm"))),
                    "dtype": draw(_dtype), "seed": draw(_seed)}
        return s()

    def oracle(self, case, rec):
        dtype, N = case["dtype"], case["N"]
        full, pb, kb, kbp, tb = (list(case[x]) for x in ("batch", "pb", "kb", "kb_p2p", "tb"))
        eps = _eps(dtype)
        rs = np.random.RandomState(case["seed"])
        td = tu.TD[dtype]

        def intr(shape):
            """intrinsics of batch shape `shape`: the case's fx.. for item 0, random sign-preserving variations for the others"""
            n = int(np.prod(shape)) if shape else 1
            K = np.zeros((n, 3, 3))
            for i in range(n):
                f = 1.0 if i == 0 else 10.0 ** rs.uniform(-0.5, 0.5)
                K[i] = [[case["fx"] * f, 0, case["cx"] + (0 if i == 0 else rs.uniform(-50, 50))],
                        [0, case["fy"] / f, case["cy"] + (0 if i == 0 else rs.uniform(-50, 50))], [0, 0, 1]]
            return _rnd(K, dtype).reshape(list(shape) + [3, 3])

        def campoints(shape):
            n = int(np.prod(shape)) if shape else 1
            z = 10.0 ** rs.uniform(-2, 2, size=(n, N))
            sg = {"pos": np.ones((n, N)), "neg": -np.ones((n, N)), "mixed": rs.choice([-1.0, 1.0], size=(n, N))}[case["zsign"]]
            xy = rs.randn(n, N, 2) * 10.0 ** rs.uniform(-2, 2)
            return _rnd(np.concatenate([xy, (z * sg)[..., None]], -1) * scene, dtype).reshape(list(shape) + [N, 3])

        # the pinhole projection does not depend on the unit of length: one case in four is a tiny scene (all coordinates scaled by
        # 10^-22..10^-6 in float64, 10^-12..10^-5 in float32, far from underflow) whose depths are below eps of the dtype - a
        # divisor clamped at eps instead of the smallest normal number changes nothing for metre-sized scenes (seed C18h)
        scene = 1.0
        if tu.crc(case, "scene") % 4 == 0:
            rs_s = np.random.RandomState((case["seed"] + 977) % 2 ** 31)
            scene = 10.0 ** (rs_s.uniform(-22, -6) if dtype == "float64" else rs_s.uniform(-12, -5))
            rec.label("tiny_scene:%s" % ("depth<eps" if scene * 100 < eps else "depth~eps"))

        neg = case["fx"] < 0 or case["fy"] < 0 or case["zsign"] != "pos"
        rec.label(dtype, "rank%d" % len(full), "z_" + case["zsign"], "fx<0" if case["fx"] < 0 else "fx>0", "fy<0" if case["fy"] < 0 else "fy>0",
                  "extr" if case["extr"] else "noextr", "K_batched" if kb else "K_single", "p2pK_batched" if kbp else "p2pK_single",
                  "N>40" if N > 40 else "N<=40")
        tkind = case.get("tkind", "random") if case["extr"] else "none"
        if case["extr"]:
            rec.label("T_" + tkind)
        if neg:
            rec.nt(("cam", dtype, case["fx"] < 0, case["fy"] < 0, case["zsign"], tkind, len(full), len(pb), len(kb), len(kbp), len(tb),
                    _sizeclass(N), int(math.log10(abs(case["fx"])) // 2), case["cx"] == 0))

        # ---- (a) round trips in the camera frame (no extrinsics) --------------------------------------
        Kp = intr(kbp)
        bshape = list(np.broadcast_shapes(tuple(full), tuple(kbp)))
        P = campoints(bshape)
        fx, fy, cx, cy = (np.broadcast_to(Kp[..., i, j].reshape(list(Kp.shape[:-2]) + [1]), bshape + [N])
                          for i, j in ((0, 0), (1, 1), (0, 2), (1, 2)))
        tP, tK = _t(P, dtype), _t(Kp, dtype)
        with rec.sut("point2pixel"):
            px = pp.point2pixel(tP, tK)
        if not rec.check(tuple(px.shape) == tuple(bshape + [N, 2]) and px.dtype == td, "cam:p2p_shape", "point2pixel shape %s, expected %s" % (
                tuple(px.shape), bshape + [N, 2])):
            return
        with rec.sut("pixel2point" + (":batchedK" if kbp else "")):
            back = pp.pixel2point(px, tP[..., 2], tK)
        if not rec.check(tuple(back.shape) == tuple(bshape + [N, 3]) and back.dtype == td, "cam:pixel2point_shape" + (":batchedK" if kbp else ""),
                         "pixel2point shape %s, expected %s" % (tuple(back.shape), bshape + [N, 3])):
            return
        Bn = tu.npy(back)
        sx = np.abs(P[..., 0]) + np.abs(cx * P[..., 2] / fx)
        sy = np.abs(P[..., 1]) + np.abs(cy * P[..., 2] / fy)
        r1 = max(float((np.abs(Bn[..., 0] - P[..., 0]) / (16 * eps * sx + 1e-300)).max()),
                 float((np.abs(Bn[..., 1] - P[..., 1]) / (16 * eps * sy + 1e-300)).max()))
        rec.notes["p->px->p"] = r1
        rec.check(r1 <= 1.0, "cam:roundtrip_point" + (":batchedK" if kbp else ""), lambda: "pixel2point(point2pixel(P,K), z, K) differs from P by "
                  "%.3g x tolerance (fx=%r fy=%r cx=%r cy=%r)" % (r1, case["fx"], case["fy"], case["cx"], case["cy"]))
        rec.check(np.array_equal(Bn[..., 2], P[..., 2]), "cam:depth", "pixel2point does not return the given depth as z")
        # pinhole definition
        pref = C.project(P, fx, fy, cx, cy)
        tolu = 16 * eps * (np.abs(fx * P[..., 0] / P[..., 2]) + np.abs(cx)) + 1e-300
        tolv = 16 * eps * (np.abs(fy * P[..., 1] / P[..., 2]) + np.abs(cy)) + 1e-300
        pxn = tu.npy(px)
        r0 = max(float((np.abs(pxn[..., 0] - pref[..., 0]) / tolu).max()), float((np.abs(pxn[..., 1] - pref[..., 1]) / tolv).max()))
        rec.notes["pinhole"] = r0
        rec.check(r0 <= 1.0, "cam:pinhole", lambda: "point2pixel(P,K) differs from (fx X/Z + cx, fy Y/Z + cy) by %.3g x tolerance" % r0)
        # converse: arbitrary pixels and depths
        Q = campoints(bshape)
        upx = _rnd(C.project(Q, fx, fy, cx, cy) + rs.randn(*(bshape + [N, 2])) * 3.0, dtype)
        depth = Q[..., 2]
        with rec.sut("pixel2point" + (":batchedK" if kbp else "")):
            pts3 = pp.pixel2point(_t(upx, dtype), _t(depth, dtype), tK)
        with rec.sut("point2pixel"):
            px2 = tu.npy(pp.point2pixel(pts3, tK))
        su = 16 * eps * (np.abs(upx[..., 0] - cx) + np.abs(cx)) + 1e-300
        sv = 16 * eps * (np.abs(upx[..., 1] - cy) + np.abs(cy)) + 1e-300
        r2 = max(float((np.abs(px2[..., 0] - upx[..., 0]) / su).max()), float((np.abs(px2[..., 1] - upx[..., 1]) / sv).max()))
        rec.notes["px->p->px"] = r2
        rec.check(r2 <= 1.0, "cam:roundtrip_pixel" + (":batchedK" if kbp else ""), lambda: "point2pixel(pixel2point(px, z, K), K) differs from px "
                  "by %.3g x tolerance (fx=%r fy=%r cx=%r cy=%r)" % (r2, case["fx"], case["fy"], case["cx"], case["cy"]))
        bp = C.backproject(upx, depth, fx, fy, cx, cy)
        tb3 = 16 * eps * np.abs(bp) + 16 * eps * np.abs(np.stack([cx * depth / fx, cy * depth / fy, 0 * depth], -1)) + 1e-300
        r3 = float((np.abs(tu.npy(pts3) - bp) / tb3).max())
        rec.notes["backproject"] = r3
        rec.check(r3 <= 1.0, "cam:backproject" + (":batchedK" if kbp else ""), lambda: "pixel2point differs from ((u-cx) z/fx, (v-cy) z/fy, z) "
                  "by %.3g x tolerance" % r3)

        # ---- (b) world frame: projection through SE3 extrinsics and reprojerr == 0 --------------------
        K = intr(kb)
        Tb = tb if case["extr"] else []
        nT = int(np.prod(Tb)) if Tb else 1
        T = _rnd(make_extrinsics(rs, tkind if case["extr"] else "random", nT), dtype).reshape(Tb + [7])
        wshape = list(np.broadcast_shapes(tuple(pb), tuple(kb), tuple(Tb)))

        def bc(a, bs, tail):
            """broadcast an array of batch shape bs (+ tail dims) to the batch shape wshape"""
            return np.broadcast_to(a.reshape([1] * (len(wshape) - len(bs)) + list(a.shape)), wshape + tail)

        if case["extr"]:
            Mf = bc(np.array([R.mat4("SE3", t) for t in T.reshape(nT, 7)]).reshape(Tb + [4, 4]), Tb, [4, 4])
            if pb == wshape:                                    # aim: wanted camera-frame points (depth away from 0) -> world
                Pcw = campoints(wshape)
                Pw = _rnd(np.einsum("...ji,...nj->...ni", Mf[..., :3, :3], Pcw - Mf[..., None, :3, 3]), dtype)
            else:                                               # points shared by several cameras: generic world points
                Pw = _rnd(rs.randn(*(pb + [N, 3])) * 3.0, dtype)
        else:
            Pw = campoints(pb)
        tPw, tKk = _t(Pw, dtype), _t(K, dtype)
        tT = pp.SE3(_t(T, dtype)) if case["extr"] else None
        with rec.sut("point2pixel+extrinsics"):
            pxw = pp.point2pixel(tPw, tKk, tT) if case["extr"] else pp.point2pixel(tPw, tKk)
        if not rec.check(tuple(pxw.shape) == tuple(wshape + [N, 2]), "cam:p2p_shape", "point2pixel shape %s, expected %s (points %s K %s T %s)" % (
                tuple(pxw.shape), wshape + [N, 2], pb, kb, Tb)):
            return
        # reference projection with a forward error bound
        Pwf, Kf = bc(Pw, pb, [N, 3]), bc(K, kb, [3, 3])
        if case["extr"]:
            Pcam = np.einsum("...ij,...nj->...ni", Mf[..., :3, :3], Pwf) + Mf[..., None, :3, 3]
            dl = 16 * eps * (2 * np.linalg.norm(Pwf, axis=-1) + np.abs(Mf[..., None, :3, 3]).max(-1))      # error of T*p per coordinate
        else:
            Pcam, dl = Pwf, np.zeros(wshape + [N])
        fxw, fyw, cxw, cyw = (Kf[..., i, j][..., None] for i, j in ((0, 0), (1, 1), (0, 2), (1, 2)))
        X, Y, Z = Pcam[..., 0], Pcam[..., 1], Pcam[..., 2]
        well = np.abs(Z) > 64 * dl                              # depth not dominated by the rounding of T*p
        prw = C.project(Pcam, fxw, fyw, cxw, cyw)
        az = np.abs(Z) + 1e-300
        tu_ = 16 * eps * (np.abs(fxw * X) / az + np.abs(cxw)) + 2 * dl * (np.abs(fxw) / az + np.abs(fxw * X) / az ** 2) + 1e-300
        tv_ = 16 * eps * (np.abs(fyw * Y) / az + np.abs(cyw)) + 2 * dl * (np.abs(fyw) / az + np.abs(fyw * Y) / az ** 2) + 1e-300
        pw = tu.npy(pxw)
        if well.any():
            r4 = max(float((np.abs(pw[..., 0] - prw[..., 0]) / tu_)[well].max()), float((np.abs(pw[..., 1] - prw[..., 1]) / tv_)[well].max()))
            rec.notes["pinhole_extr"] = r4
            rec.check(r4 <= 1.0, "cam:pinhole_extrinsics", lambda: "point2pixel(P,K,T) differs from the pinhole projection of T*P by %.3g x tolerance" % r4)
        if not well.all():
            rec.label("cam:some_depth_near_zero")
        red = case["reduction"]
        with rec.sut("reprojerr"):
            args = (tPw, pxw, tKk) + ((tT,) if case["extr"] else ())
            err = pp.reprojerr(*args) if red is None else pp.reprojerr(*args, reduction=red)
        eshape = wshape + ([N] if red in ("sum", "norm") else [N, 2])
        if not rec.check(tuple(err.shape) == tuple(eshape), "cam:reprojerr_shape", "reprojerr(%s) shape %s, expected %s" % (red, tuple(err.shape), eshape)):
            return
        finite = np.isfinite(pw).all()
        if finite:
            rec.check(bool((err == 0).all()), "cam:reprojerr_zero:" + str(red), lambda: "reprojerr(P, point2pixel(P,K,T), K, T, reduction=%s) is "
                      "not exactly zero: max |err| = %.3g" % (red, float(err.abs().max())))
        else:
            rec.label("cam:nonfinite_pixels")
        # and it is not identically zero: shifted pixels give the shift back
        shift = _rnd(rs.choice([-1.0, 1.0], size=wshape + [N, 2]) * 2.0 ** rs.randint(-2, 6), dtype)
        with rec.sut("reprojerr"):
            e2 = pp.reprojerr(tPw, pxw + _t(shift, dtype), tKk, *((tT,) if case["extr"] else ()))
        if finite:
            tol = 4 * eps * (np.abs(pw) + np.abs(shift))
            rec.check(np.all(np.abs(np.abs(tu.npy(e2)) - np.abs(shift)) <= tol), "cam:reprojerr_shift",
                      "reprojerr(P, point2pixel(P) + s) is not +-s (the sign convention is not asserted)")

    def simplify(self, case):
        for key in ("batch", "pb", "kb", "kb_p2p", "tb"):
            if case[key]:
                yield dict(case, batch=[], pb=[], kb=[], kb_p2p=[], tb=[])
                break
        if case["N"] > 1:
            yield dict(case, N=1)
            yield dict(case, N=case["N"] // 2)
        if case["extr"]:
            yield dict(case, extr=False)
            if case.get("tkind", "random") != "identity":
                yield dict(case, tkind="identity")
        if case["dtype"] == "float32":
            yield dict(case, dtype="float64")
        if case["reduction"] is not None:
            yield dict(case, reduction=None)
        if case["zsign"] != "pos":
            yield dict(case, zsign="pos")


KNOWN = {F15_KEY: {
    "probe": ("camera", {"batch": [2], "pb": [2], "kb": [2], "kb_p2p": [2], "tb": [], "N": 3, "fx": 2.0, "fy": 3.0, "cx": 4.5, "cy": 3.5,
                         "zsign": "pos", "extr": False, "reduction": None, "dtype": "float64", "seed": 0}),
    "match": lambda sub, case, bucket: sub == "camera" and bool(case.get("kb_p2p")) and ("batchedK" in bucket or "pixel2point" in bucket)}}


# =====================================================================================================
class Homo(Sub):
    name = "homo"
    n = {"quick": 1600, "thorough": 30000}

    def strategy(self, tier):
        return st.fixed_dictionaries({
            "shape": st.lists(st.integers(1, 4), min_size=0, max_size=3), "D": st.integers(1, 6),
            "regime": st.sampled_from(("unit", "wide", "extreme", "special", "int")),
            "dtype": st.sampled_from(("float64", "float32")), "seed": _seed})

    def oracle(self, case, rec):
        dtype, shape, D = case["dtype"], list(case["shape"]), case["D"]
        rs = np.random.RandomState(case["seed"])
        fi = np.finfo(np.float32 if dtype == "float32" else np.float64)
        full = shape + [D]
        if case["regime"] == "unit":
            p = rs.randn(*full)
        elif case["regime"] == "wide":
            p = rs.randn(*full) * 10.0 ** rs.uniform(-6, 6, size=full)
        elif case["regime"] == "extreme":
            lim = math.log10(float(fi.max)) - 0.5
            p = rs.choice([-1.0, 1.0], size=full) * 10.0 ** rs.uniform(-lim - 6, lim, size=full)     # includes subnormals
        elif case["regime"] == "int":
            p = rs.randint(-5, 6, size=full).astype(np.float64)
        else:
            p = rs.choice([0.0, -0.0, float(fi.tiny), float(fi.max), -float(fi.max), float(fi.eps), 1.0, -1.0,
                           float(fi.tiny) / 8, 1.0 + float(fi.eps)], size=full)
        with np.errstate(over="ignore", under="ignore"):
            p = _rnd(p, dtype)
        p = np.where(np.isfinite(p), p, 1.0)
        t = _t(p, dtype)
        rec.label(dtype, case["regime"], "rank%d" % len(shape))
        rec.nt(("homo", dtype, case["regime"], len(shape), D))
        with rec.sut("cart2homo/homo2cart"):
            h = pp.cart2homo(t)
            c = pp.homo2cart(h)
        if not rec.check(tuple(h.shape) == tuple(shape + [D + 1]) and h.dtype == t.dtype, "homo:shape", "cart2homo shape %s dtype %s" % (tuple(h.shape), h.dtype)):
            return
        rec.check(torch.equal(h[..., :-1], t) and bool((h[..., -1] == 1).all()), "homo:cart2homo", "cart2homo(p) is not [p, 1]")
        if not rec.check(tuple(c.shape) == tuple(full) and c.dtype == t.dtype, "homo:shape", "homo2cart shape %s dtype %s" % (tuple(c.shape), c.dtype)):
            return
        rec.check(torch.equal(c, t), "homo:roundtrip", lambda: "homo2cart(cart2homo(p)) != p exactly: max |diff| %.3g" % float((c - t).abs().max()))

    def simplify(self, case):
        if case["shape"]:
            yield dict(case, shape=case["shape"][1:])
        if case["D"] > 1:
            yield dict(case, D=1)
        if case["regime"] != "unit":
            yield dict(case, regime="unit")


SUBS = [Knn(), NbrFilter(), Voxel(), KnnFilter(), RandomFilter(), Camera(), Homo()]


def selftest():
    """the reference model against a second (loop-based) formulation and the docstring examples"""
    rs = np.random.RandomState(7)
    for o in (1, 2, C.INF):
        A, Bm = rs.randn(7, 3), rs.randn(9, 3)
        v, i = C.knn(C.pdist(A, Bm, o), 4)
        v2, i2 = C.knn_loops(A, Bm, 4, o)
        assert np.allclose(v, v2, rtol=1e-14, atol=0) and np.array_equal(i, i2), "knn reference vs loops (ord %s)" % o
    ref = np.array([[9., 2, 2], [1, 0, 2], [0, 1, 1], [5, 0, 1], [1, 0, 1], [5, 5, 3]])
    nb = np.array([[1., 0, 1], [1, 6, 2], [5, 1, 0], [9, 0, 2]])
    v, i = C.knn(C.pdist(ref, nb, 2), 2)
    assert i.tolist() == [[3, 2], [0, 2], [0, 2], [2, 0], [0, 2], [1, 2]]
    assert np.allclose(v[:, 0], [2, 1, 2 ** .5, 2 ** .5, 0, 18 ** .5])
    pts = np.array([[0., 0, 0], [1, 0, 0], [0, 1, 0], [0, 1, 1], [10, 1, 1], [10, 1, 10]])
    assert C.nbr_mask(pts, 2, 5.0).tolist() == [True] * 4 + [False] * 2
    assert C.nbr_mask(pts, 2, 12.0).tolist() == [True] * 5 + [False]
    assert C.nbr_mask(pts[:, :2], 2, 10.0).tolist() == [True] * 6
    kf = C.knn_filter(pts, 2, 3, 5.0)
    want = np.array([[1, 1, 0], [1, 1, 0], [0, 2, 1], [0, 2, 1]]) / 3.0
    assert kf["mask"].tolist() == [True] * 4 + [False] * 2 and np.allclose(kf["A"], want) and np.allclose(kf["B"], want)
    # readings A and B differ when a removed point is among the k nearest of a retained one
    line = np.array([[0.], [1.], [2.], [3.4], [9.]])
    kf = C.knn_filter(line, 2, 1, 2.1)          # retained: 0,1,2 ; point 3 has one neighbour (2) within 2.1
    assert kf["mask"].tolist() == [True, True, True, False, False]
    assert np.allclose(kf["A"][:, 0], [1.0, 1.0, (2 + 1 + 3.4) / 3]) and np.allclose(kf["B"][:, 0], [1.0, 1.0, 1.0])
    kf = C.knn_filter(line, 1, 1, 1.2)          # retained 0,1,2 with k=1
    assert kf["B"] is not None
    kf = C.knn_filter(np.array([[0.], [1.], [1.9], [5.]]), 2, 1, 1.0)       # only the middle point has 2 within 1.0
    assert kf["mask"].tolist() == [False, True, False, False] and kf["B"] is None and np.allclose(kf["A"], [[2.9 / 3]])
    # ties: the point 0 has -1 and +1 at the same distance (k = 1: two admissible means), the points +-1 are determined;
    # coinciding points with distinct feature channels are determined as long as the boundary after the k-th neighbour is clear
    kf = C.knn_filter(np.array([[0.], [1.], [-1.], [7.]]), 1, 1)
    assert kf["okA"].tolist() == [False, True, True, True] and kf["optA"][1] is None
    assert sorted(kf["optA"][0][:, 0].tolist()) == [-0.5, 0.5] and np.allclose(kf["A"][1:, 0], [0.5, -0.5, 4.0])
    dupc = np.array([[0., 10.], [0., 20.], [1., 30.], [5., 40.]])
    kf = C.knn_filter(dupc, 1, 1)                                            # rows 0 and 1 coincide in the coordinate
    assert kf["okA"].tolist() == [True, True, False, True] and np.allclose(kf["A"][:2], [[0., 15.], [0., 15.]])
    assert sorted(kf["optA"][2][:, 1].tolist()) == [20.0, 25.0]
    kf = C.knn_filter(dupc, 0, 1)                                            # k = 0: the point alone, or its exact twin
    assert kf["okA"].tolist() == [False, False, True, True] and sorted(kf["optA"][0][:, 1].tolist()) == [10.0, 20.0]
    assert np.allclose(kf["A"][2:], dupc[2:])
    assert _unmatched(np.array([[1.], [2.], [2.]]), np.array([[2.], [3.], [1.]]), 0.1) == 1
    for kind in TKINDS:
        for t7 in make_extrinsics(np.random.RandomState(3), kind, 4):
            Mx = R.mat4("SE3", t7)
            assert np.allclose(Mx[:3, :3] @ Mx[:3, :3].T, np.eye(3), atol=1e-14) and abs(np.linalg.det(Mx[:3, :3]) - 1) < 1e-14
            if kind.startswith("rotpi"):
                assert abs(np.trace(Mx[:3, :3]) + 1) < 1e-14 and t7[6] == 0.0          # half turn
            if kind in ("identity", "rotpi_axis"):
                assert not t7[:3].any()
    vp = np.array([[1., 2, 3], [4, 5, 6], [7, 8, 9], [10, 11, 12], [13, 14, 15]])
    g = C.voxel_groups(vp, [5., 5, 5])
    assert sorted(g.values()) == [[0, 1], [2, 3], [4]]
    assert sorted(C.voxel_groups(vp[:, :1], [5.]).values()) == [[0, 1], [2, 3], [4]]
    K = (2.0, 2.0, 4.5, 4.5)
    obj = np.array([[2., 0, 2], [1, 0, 2], [0, 1, 1], [0, 0, 1], [1, 0, 1], [5, 5, 3]])
    px = C.project(obj, *K)
    assert np.allclose(px, [[6.5, 4.5], [5.5, 4.5], [4.5, 6.5], [4.5, 4.5], [6.5, 4.5], [7.8333, 7.8333]], atol=1e-4)
    assert np.allclose(C.backproject(px, obj[:, 2], *K), obj)
    assert np.allclose(C.backproject(np.array([[0.5, 0.0], [5.0, 1.5]]), np.array([5.0, 0.7]), *K), [[-10, -11.25, 5], [0.175, -1.05, 0.7]])
    # extrinsics convention (docstring example of point2pixel): pixel = project(T * p_world)
    pose = np.array([0., -8, 0, 0., -0.3827, 0., 0.9239])
    Mx = R.mat4("SE3", pose)
    pc = obj @ Mx[:3, :3].T + Mx[:3, 3]
    assert np.allclose(C.project(pc, *K), [[4.4999, -1.1568], [3.8332, -3.0425], [2.4998, -15.2997], [2.4998, -18.1282],
                                           [4.4999, -6.8135], [4.9999, 3.4394]], atol=2e-3)
    # the radius picker never returns a radius close to a pairwise distance; voxel construction agrees with floor()
    for sd in range(20):
        r2 = np.random.RandomState(sd)
        P, _ = make_cloud(r2, 2 + sd, 1 + sd % 3, 0, sd % 4, "random", "float32" if sd % 2 else "float64")
        d = C.pdist(P, P, 2)
        for mode in ("kth", "pair", "below", "above"):
            rad = pick_radius(d, 1 + sd % 3, mode, sd / 20.0, 1e-5)
            assert C.radius_is_safe(d, rad, 1e-5), "unsafe radius"
        case = {"N": 3 + sd, "M": 1 + sd // 2, "voxel": [0.37, 12.5][: 1 + sd % 2], "extra": sd % 3, "grid": False, "dtype": "float32", "seed": sd}
        pv, cells = make_voxel_cloud(r2, case)
        assert np.array_equal(C.voxel_cells(pv[:, :len(case["voxel"])], case["voxel"]), cells)
