"""C14 - LQR returns the feasible global minimiser of the LQ problem; MPC agrees with it."""
import math
import numpy as np
import torch
import pypose as pp
from hypothesis import strategies as st

from ..core import Sub
from .. import tu, gen

PROPERTY = "C14"
RULE = ("lqr: Hypothesis draws LTI (batch 1..3) and LTV (subclass with time-indexed A_t, B_t, c1_t, as the test-suite does) systems, state / "
        "input dims 1..6, horizon 1..20 (quick: 11..20 one case in 8), spectral radius <= 1.5, positive-definite Q_t = U diag(lambda) U^T with condition up "
        "to 1e6 (x-u cross terms, time varying or constant), arbitrary p_t, c1, x_init, nominal u_traj None / random, and a HISTORY on ONE "
        "system object: solves with new data (new LQR object, full horizon or a shorter one) and repeated calls of the SAME LQR object "
        "with a new x_init / u_traj (its Q, p, T are constructor data), interleaved with system(x,u) calls, systime assignment and "
        "reset(), so the time counter is arbitrary before a solve.  Oracle (float64 numpy, independent): condensing x = Phi x0 + Gamma U + gamma turns the cost into "
        "1/2 U^T H U + h^T U + c; asserted: x[0] == x_init; x[t+1] = A_t x[t] + B_t u[t] + c1_t with the harness's own matrices indexed "
        "by horizon time; reported cost == sum 1/2 tau^T Q tau + p^T tau along the RETURNED (x,u) within 16 (2 nsc + T + 4) eps sum|terms| "
        "(forward error of any float64 evaluation of that sum); |H U + h| small and U == -H^-1 h (tolerance scaled by cond(H)); "
        "no random perturbation lowers the cost; the result does not depend on u_traj or on what happened to the system object / the LQR object before.  "
        "mpc_linear: MPC on the same linear problems (single batch; dims 1..6, horizons 1..20 - quick: 9..20 one case in 8 -, cond(Q) up to 1e6, "
        "stepper budget 1..7 including the single-pass budget 1, the same MPC object called twice) returns the same optimum.  mpc_nonlinear: random smooth "
        "time-invariant NLS x' = W1 x + a sin(W2 x) + B u (a = 0, the linear member, one case in 8), dims 1..6, horizons 1..20 (quick: 7..20 one case in 8), "
        "Q_t constant or time varying with condition 1e2..1e6, budget 1..6: returned x satisfies the nonlinear dynamics and the returned cost equals the sum along (x,u).  "
        "Non-trivial: T >= 3 with time-varying data or cross terms; history with >= 2 solves on one object; non-zero c1; random u_traj.")
ASSUMPTIONS = ["Q_t positive definite (cond <= 1e6); no control bounds (u_lower/u_upper/du None)", "dt = 1 (time index = step index)",
               "MPC nonlinear clause uses time-invariant dynamics (the statement does not fix the clock inside the horizon)",
               "an existing LQR object can only be re-called with another x_init / u_traj (horizon and cost are fixed at construction): other horizons "
               "on the same SYSTEM object are reached with a new LQR object"]


class MyLTV(pp.module.LTV):
    def __init__(self, A, B, C, D, c1):
        super().__init__(A, B, C, D, c1)

    @property
    def A(self):
        return self._A[..., self._t, :, :]

    @property
    def B(self):
        return self._B[..., self._t, :, :]

    @property
    def C(self):
        return self._C[..., self._t, :, :]

    @property
    def D(self):
        return self._D[..., self._t, :, :]

    @property
    def c1(self):
        return self._c1[..., self._t, :]


TV_ALL = ("A", "B", "c1")


def tv_of(case):
    """which of A, B, c1 of an LTV case really vary with time (and are overridden by the system class): all of them for half of the
    LTV cases; otherwise a proper subset - the other matrices are the stock constant LTI properties (an LTV system need not vary
    in every matrix; code that decides 'time-invariant' from ONE of them reuses a stale matrix for the others - seed C14h)"""
    if not case["ltv"]:
        return TV_ALL
    return (TV_ALL, TV_ALL, ("B", "c1"), ("A",), ("B",), ("A", "c1"))[tu.crc(case, "tv") % 6]


def problem(seed, nb, ns, nc, T, ltv, tvq, cross, condq, has_c1, tv=TV_ALL):
    rs = np.random.RandomState(seed)
    nsc = ns + nc
    def stable(M):
        r = max(abs(np.linalg.eigvals(M)))
        return M / max(r, 1e-9) * rs.uniform(0.3, 1.5)
    nA = T if ltv else 1
    A = np.stack([[stable(rs.randn(ns, ns)) for _ in range(nA)] for _ in range(nb)])         # nb, nA, ns, ns
    B = rs.randn(nb, nA, ns, nc)
    c1 = rs.randn(nb, nA, ns) * (1.0 if has_c1 else 0.0)
    def pd():
        U, _ = np.linalg.qr(rs.randn(nsc, nsc))
        lam = 10.0 ** rs.uniform(-math.log10(condq) / 2, math.log10(condq) / 2, size=nsc)
        Q = U @ np.diag(lam) @ U.T
        if not cross:
            Q[:ns, ns:] = 0; Q[ns:, :ns] = 0
            Q[:ns, :ns] += np.eye(ns) * 1e-3; Q[ns:, ns:] += np.eye(nc) * 1e-3
        return (Q + Q.T) / 2
    if tvq:
        Q = np.stack([[pd() for _ in range(T)] for _ in range(nb)])
        p = rs.randn(nb, T, nsc)
    else:
        Q0 = np.stack([pd() for _ in range(nb)])
        Q = np.repeat(Q0[:, None], T, 1)
        p0 = rs.randn(nb, nsc)
        p = np.repeat(p0[:, None], T, 1)
    x0 = rs.randn(nb, ns) * 2
    if "A" not in tv:
        A[:, :] = A[:, :1]
    if "B" not in tv:
        B[:, :] = B[:, :1]
    if "c1" not in tv:
        c1[:, :] = c1[:, :1]
    return {"A": A, "B": B, "c1": c1, "Q": Q, "p": p, "x0": x0, "rs": rs}


_PART = {}


def part_ltv(tv):
    """an LTV subclass that overrides only the properties named in tv with time-indexed stacks (the docstring recipe); the others
    are the stock properties returning the constant tensor given to the constructor"""
    key = tuple(sorted(tv))
    if key not in _PART:
        ns_ = {}
        if "A" in key:
            ns_["A"] = property(lambda self: self._A[..., self._t, :, :])
        if "B" in key:
            ns_["B"] = property(lambda self: self._B[..., self._t, :, :])
        if "c1" in key:
            ns_["c1"] = property(lambda self: self._c1[..., self._t, :])
        _PART[key] = type("PartLTV_" + "_".join(key), (pp.module.LTV,), ns_)
    return _PART[key]


def make_system(pr, ltv, tv=TV_ALL):
    T_ = torch.tensor
    nb, nA, ns, nc = pr["B"].shape
    C = np.tile(np.eye(ns), (nb, nA, 1, 1)); D = np.zeros((nb, nA, ns, nc))
    if ltv and tuple(tv) != TV_ALL:
        pick = lambda k: T_(pr[k]) if k in tv else T_(pr[k][:, 0])
        return part_ltv(tv)(pick("A"), pick("B"), T_(C[:, 0]), T_(D[:, 0]), pick("c1"))
    if ltv:
        return MyLTV(T_(pr["A"]), T_(pr["B"]), T_(C), T_(D), T_(pr["c1"]))
    return pp.module.LTI(T_(pr["A"][:, 0]), T_(pr["B"][:, 0]), T_(C[:, 0]), T_(D[:, 0]), T_(pr["c1"][:, 0]))


def condense(pr, b, T, ltv, Q, p, x0):
    """returns H, h, const and helper to evaluate states/cost for batch item b"""
    A = pr["A"][b]; B = pr["B"][b]; c1 = pr["c1"][b]
    ns, nc = B.shape[1], B.shape[2]
    At = lambda t: A[t if ltv else 0]
    Bt = lambda t: B[t if ltv else 0]
    ct = lambda t: c1[t if ltv else 0]
    # x_t = Phi_t x0 + sum_j G[t][j] u_j + g_t  for t = 0..T
    Phi = [np.eye(ns)]; G = [np.zeros((ns, T * nc))]; g = [np.zeros(ns)]
    for t in range(T):
        Phi.append(At(t) @ Phi[-1])
        Gn = At(t) @ G[-1]
        Gn[:, t * nc:(t + 1) * nc] += Bt(t)
        G.append(Gn)
        g.append(At(t) @ g[-1] + ct(t))
    H = np.zeros((T * nc, T * nc)); h = np.zeros(T * nc)
    for t in range(T):
        # tau_t = [x_t; u_t] = S_t U + s_t
        S = np.zeros((ns + nc, T * nc)); S[:ns] = G[t]; S[ns:, t * nc:(t + 1) * nc] = np.eye(nc)
        s = np.concatenate([Phi[t] @ x0 + g[t], np.zeros(nc)])
        H += S.T @ Q[t] @ S
        h += S.T @ (Q[t] @ s + p[t])

    def rollout(U):
        U = U.reshape(T, nc)
        xs = [x0]
        for t in range(T):
            xs.append(At(t) @ xs[-1] + Bt(t) @ U[t] + ct(t))
        return np.stack(xs)

    def cost(U):
        xs = rollout(U); U2 = U.reshape(T, nc)
        tot = 0.0
        for t in range(T):
            tau = np.concatenate([xs[t], U2[t]])
            tot += 0.5 * tau @ Q[t] @ tau + p[t] @ tau
        return tot
    return H, h, rollout, cost


def check_solution(rec, tag, pr, T, ltv, Q, p, x0, x, u, cost, nb):
    eps = 2.220446049250313e-16
    ok = True
    for b in range(nb):
        H, h, rollout, costf = condense(pr, b, T, ltv, Q[b], p[b], x0[b])
        U = u[b].reshape(-1)
        xs = rollout(U)
        scale = max(1.0, float(np.abs(xs).max()), float(np.abs(U).max()))
        ok &= rec.check(np.array_equal(x[b, 0], x0[b]), tag + ":x0", "x[0] differs from x_init")
        ed = float(np.abs(x[b] - xs).max())
        rec.notes[tag + ":dyn"] = max(rec.notes.get(tag + ":dyn", 0), ed / (1e-9 * scale))
        ok &= rec.check(ed <= 1e-9 * scale, tag + ":dynamics", lambda: "returned states violate x[t+1] = A_t x[t] + B_t u[t] + c1_t by %.3g (scale %.3g)" % (ed, scale))
        # reported cost: "the sum of 1/2 tau^T Q tau + p^T tau along them", i.e. along the RETURNED x, u.  Any float64 evaluation of that
        # sum (nsc-term matrix-vector and dot products, T terms added up) is within gamma * sum|terms| of the exact value, so two
        # evaluations differ by at most 2 (2 nsc + T + 4) eps cabs; allowed: 8x that.  (No dependence on how unstable A is - the
        # states enter only through the terms themselves.)
        tau = np.concatenate([x[b][:T], u[b]], axis=1)
        cref = float(sum(0.5 * tau[t] @ Q[b][t] @ tau[t] + p[b][t] @ tau[t] for t in range(T)))
        cabs = float(sum(0.5 * np.abs(tau[t]) @ np.abs(Q[b][t]) @ np.abs(tau[t]) + np.abs(p[b][t]) @ np.abs(tau[t]) for t in range(T)))
        tol_c = 16 * (2 * tau.shape[1] + T + 4) * eps * cabs + 1e-300
        ec = abs(float(cost[b]) - cref)
        rec.notes[tag + ":cost"] = max(rec.notes.get(tag + ":cost", 0), ec / tol_c)
        ok &= rec.check(ec <= tol_c, tag + ":cost", lambda: "reported cost %.17g but the sum along the returned trajectory is %.17g (tol %.3g)" % (float(cost[b]), cref, tol_c))
        # optimality
        condH = float(np.linalg.cond(H))
        Us = -np.linalg.solve(H, h)
        g = H @ U + h
        gs = float(np.linalg.norm(H, 2)) * max(float(np.linalg.norm(Us)), 1e-300) + float(np.linalg.norm(h))
        tol_g = 1e-10 * gs * max(1.0, condH * 1e-3) ** 0.5 * 10
        eg = float(np.linalg.norm(g))
        rec.notes[tag + ":grad"] = max(rec.notes.get(tag + ":grad", 0), eg / tol_g)
        ok &= rec.check(eg <= tol_g, tag + ":gradient", lambda: "cost gradient w.r.t. the inputs is %.3g at the returned solution (tol %.3g, cond(H)=%.3g)" % (eg, tol_g, condH))
        eu = float(np.linalg.norm(U - Us))
        tol_u = 1e-11 * condH * max(1.0, float(np.linalg.norm(Us))) + 1e-9
        rec.notes[tag + ":u"] = max(rec.notes.get(tag + ":u", 0), eu / tol_u)
        ok &= rec.check(eu <= tol_u, tag + ":argmin", lambda: "returned inputs differ from the global minimiser -H^-1 h by %.3g (tol %.3g, cond(H)=%.3g)" % (eu, tol_u, condH))
        rs = np.random.RandomState(b + 5)
        c0 = costf(U)
        for _ in range(8):
            d = rs.randn(U.size) * 10 ** rs.uniform(-3, 0)
            ok &= rec.check(costf(U + d) >= c0 - 1e-9 * max(1.0, abs(c0)), tag + ":perturbation", "a perturbation of the inputs lowers the cost")
    return ok


def weighted(*pairs):
    """choice among strategies with integer weights (one_of would drop repeated alternatives, sampled_from keeps repeats)"""
    idx = [i for i, (_, w) in enumerate(pairs) for _ in range(w)]
    return st.sampled_from(idx).flatmap(lambda i: pairs[i][0])


def _nominal(rs, nb, Th, nc, flag, arg):
    """nominal input trajectory of a solve: None, a dense random tensor, or (one in three of the given ones) a CONSTANT nominal broadcast
    over the horizon with expand() - a stride-0 view, every time step shares memory.  Returns (tensor or None, bitwise copy, label).
    A solver that builds its result in place on the caller's nominal (or reads it after writing part of it) is only visible on such a
    view, and only if the caller's tensor is compared afterwards (seed C14e)."""
    if not flag:
        return None, None, "nominal:none"
    if arg % 3 == 0 and Th >= 2:
        base = torch.tensor(rs.randn(nb, 1, nc))
        ut = base.expand(nb, Th, nc)
        return ut, ut.clone(), "nominal:expanded_stride0"
    ut = torch.tensor(rs.randn(nb, Th, nc))
    return ut, ut.clone(), "nominal:dense"


class LQRHist(Sub):
    """ops of a history on ONE system object:  solve = new LQR object (new Q, p, x_init) with the full horizon T;  solveT = new LQR
    object with a shorter horizon 1 + arg % T (an LTV system with T matrices accepts every horizon <= T);  again = the PREVIOUS LQR
    object is called once more with a new x_init / u_traj (its Q, p, T are constructor data - the call arguments are all the API lets
    one change on an existing LQR instance);  call / systime / reset act on the system in between."""
    name = "lqr"
    n = {"quick": 700, "thorough": 30000}

    def strategy(self, tier):
        # horizon: the stated range is 1..20; quick gives 11..20 one case in 8
        Ts = st.integers(1, 20) if tier != "quick" else weighted((st.integers(1, 10), 7), (st.integers(11, 20), 1))
        solve = st.tuples(st.just("solve"), st.integers(0, 10 ** 6), st.booleans())
        op = st.one_of(solve,
                       st.tuples(st.just("call"), st.integers(1, 4), st.booleans()),
                       st.tuples(st.just("systime"), st.integers(0, 30), st.booleans()),
                       st.tuples(st.just("reset"), st.integers(0, 5), st.booleans()),
                       st.tuples(st.just("again"), st.integers(0, 10 ** 6), st.booleans()),
                       st.tuples(st.just("solveT"), st.integers(0, 10 ** 6), st.booleans()),
                       # the history continues on a copy.deepcopy of the system (flag: and of the live LQR module) - nn.Module
                       # semantics: an independent module with the same state (a clock captured in a hook closure would stay behind)
                       st.tuples(st.just("copy"), st.integers(0, 1), st.booleans()))
        return st.fixed_dictionaries({
            "seed": st.integers(0, 10 ** 7), "nb": st.integers(1, 3), "ns": st.integers(1, 6), "nc": st.integers(1, 6), "T": Ts,
            "ltv": st.booleans(), "tvq": st.booleans(), "cross": st.booleans(), "condq": st.sampled_from((1.0, 1e2, 1e4, 1e6)), "c1": st.booleans(),
            "ops": st.lists(op, min_size=0, max_size=6), "last_again": st.booleans()})

    def oracle(self, case, rec):
        nb, ns, nc, T, ltv = case["nb"], case["ns"], case["nc"], case["T"], case["ltv"]
        tv = tv_of(case)
        pr = problem(case["seed"], nb, ns, nc, T, ltv, case["tvq"], case["cross"], case["condq"], case["c1"], tv=tv)
        sysm = make_system(pr, ltv, tv)
        if ltv:
            rec.label("ltv_varies:" + "+".join(tv))
        ops = [list(o) for o in case["ops"]] + [["solve", case["seed"] % 1000, True]]
        if case.get("last_again", False):
            ops.append(["again", case["seed"] % 977, False])
        nsolve = nagain = nshort = 0
        Tn = torch.tensor
        lqr = cur = None            # the live LQR object and the (Q, p, horizon) it was built with
        for kind, arg, flag in ops:
            if kind == "call":
                with rec.sut("system()"):
                    for _ in range(arg):
                        if ltv and int(sysm.systime) >= T:
                            sysm.reset()              # the test-suite's LTV has exactly T matrices
                        sysm(Tn(np.zeros((nb, ns))), Tn(np.zeros((nb, nc))))
            elif kind == "systime":
                sysm.systime = arg % T if ltv else arg
            elif kind == "reset":
                sysm.reset(arg % T if ltv else arg)
            elif kind == "copy":
                import copy as _copy
                with rec.sut("copy.deepcopy"):
                    if flag and lqr is not None:
                        lqr = _copy.deepcopy(lqr)            # the module owns its system: continue with the copy's system
                        sysm = lqr.system
                        rec.label("deepcopied:LQR_module")
                    else:
                        sysm = _copy.deepcopy(sysm)
                        lqr = None                           # an LQR built on the old object is not reused
                        rec.label("deepcopied:system")
            else:
                rs = np.random.RandomState(arg)
                if kind == "again" and lqr is not None:
                    # same LQR instance, same cost data, new initial state (and nominal inputs)
                    Q, p, Th = cur
                    x0 = rs.randn(nb, ns) * 2
                    ut, ut_keep, nlab = _nominal(rs, nb, Th, nc, flag, arg)
                    rec.label(nlab)
                    with rec.sut("LQR(second call on one instance)"):
                        x, u, cost = lqr(Tn(x0), u_traj=ut)
                    if ut is not None:
                        rec.check(torch.equal(ut, ut_keep), "lqr:mutates_u_traj", "LQR changed the caller's nominal input trajectory (%s)" % nlab)
                    nagain += 1
                    tag = "lqr_again"
                else:
                    Th = T if kind != "solveT" else 1 + arg % T
                    nshort += Th < T
                    # new cost data / initial state for this solve (same dynamics object)
                    pr2 = problem(case["seed"] + arg + 1, nb, ns, nc, Th, ltv, case["tvq"], case["cross"], case["condq"], case["c1"])
                    Q, p, x0 = pr2["Q"], pr2["p"], pr2["x0"]
                    ut, ut_keep, nlab = _nominal(rs, nb, Th, nc, flag, arg)
                    rec.label(nlab)
                    Qa, pa = Tn(Q), Tn(p)
                    if (not case["tvq"]) and arg % 2 == 0:
                        # time-invariant cost in the documented SHORT forms Q (B, n, n), p (B, n): the constructor tiles them over the
                        # horizon itself (every batch entry must keep its own row)
                        Qa, pa = Qa[:, 0].clone(), pa[:, 0].clone()
                        rec.label("cost:short_form")
                    with rec.sut("LQR"):
                        lqr = pp.module.LQR(sysm, Qa, pa, Th)
                        x, u, cost = lqr(Tn(x0), u_traj=ut)
                    if ut is not None:
                        rec.check(torch.equal(ut, ut_keep), "lqr:mutates_u_traj", "LQR changed the caller's nominal input trajectory (%s)" % nlab)
                    cur = (Q, p, Th)
                    tag = "lqr"
                nsolve += 1
                if not check_solution(rec, tag, pr, Th, ltv, Q, p, x0, x.numpy(), u.numpy(), cost.numpy().reshape(-1), nb):
                    rec.notes["failed_at_solve"] = nsolve
                    break
        rec.label("LTV" if ltv else "LTI", "nb%d" % nb, "solves>=2" if nsolve >= 2 else "solves1", "T>10" if T > 10 else "T<=10")
        if nagain:
            rec.label("same_LQR_instance_reused", "LTV:instance_reused" if ltv else "LTI:instance_reused")
        if nshort:
            rec.label("shorter_horizon_on_same_system")
        if (T >= 3 and (case["tvq"] or case["cross"] or ltv)) or nsolve >= 2 or case["c1"]:
            rec.nt((ltv, nb, ns, nc, min(T, 5) if T <= 10 else 11, case["tvq"], case["cross"], case["c1"], min(nsolve, 3), tuple(o[0] for o in ops)))

    def simplify(self, case):
        ops = case["ops"]
        for i in range(len(ops)):
            yield dict(case, ops=ops[:i] + ops[i + 1:])
        for k in ("nb", "ns", "nc", "T"):
            if case[k] > 1:
                yield dict(case, **{k: case[k] - 1})
        for k in ("tvq", "cross", "c1"):
            if case[k]:
                yield dict(case, **{k: False})


class MPCLinear(Sub):
    name = "mpc_linear"
    n = {"quick": 250, "thorough": 8000}

    def strategy(self, tier):
        # stated ranges: horizons 1..20, dims 1..6, cond(Q) up to 1e6; quick gives horizons 9..20 one case in 8
        Ts = st.integers(1, 20) if tier != "quick" else weighted((st.integers(1, 8), 7), (st.integers(9, 20), 1))
        return st.fixed_dictionaries({
            "seed": st.integers(0, 10 ** 7), "ns": st.integers(1, 6), "nc": st.integers(1, 6), "T": Ts,
            "ltv": st.booleans(), "tvq": st.booleans(), "cross": st.booleans(), "condq": st.sampled_from((1.0, 1e2, 1e4, 1e6)), "c1": st.booleans(),
            "uinit": st.booleans(), "budget": st.integers(1, 7), "twice": st.booleans()})

    def oracle(self, case, rec):
        ns, nc, T, ltv = case["ns"], case["nc"], case["T"], case["ltv"]
        tv = tv_of(case)
        pr = problem(case["seed"], 1, ns, nc, T, ltv, case["tvq"], case["cross"], case["condq"], case["c1"], tv=tv)
        sysm = make_system(pr, ltv, tv)
        if ltv:
            rec.label("ltv_varies:" + "+".join(tv))
        Tn = torch.tensor
        rs = pr["rs"]
        # iteration budget of the stepper: 1 (a single LQR pass before the final one) .. 7; older replay files carry "steps" = budget - 1
        budget = case["budget"] if "budget" in case else case["steps"] + 1
        stepper = pp.utils.ReduceToBason(steps=budget, verbose=False)
        with rec.sut("MPC"):
            mpc = pp.module.MPC(sysm, Tn(pr["Q"]), Tn(pr["p"]), T, stepper=stepper)
            ui = Tn(rs.randn(1, T, nc)) if case["uinit"] else None
            x, u, cost = mpc(1, Tn(pr["x0"]), u_init=ui)
            if case["twice"]:
                x, u, cost = mpc(1, Tn(pr["x0"]), u_init=None)
        check_solution(rec, "mpc", pr, T, ltv, pr["Q"], pr["p"], pr["x0"], x.detach().numpy(), u.detach().numpy(), cost.detach().numpy().reshape(-1), 1)
        rec.label("LTV" if ltv else "LTI", "budget1" if budget == 1 else "budget>1", "T>8" if T > 8 else "T<=8", "cond%g" % case["condq"],
                  "dims6" if max(ns, nc) == 6 else "dims<6")
        if T >= 3 or case["twice"] or case["uinit"]:
            rec.nt(("mpc_lin", ltv, ns, nc, min(T, 4) if T <= 8 else 9, case["twice"], case["uinit"], budget))

    def simplify(self, case):
        for k in ("ns", "nc", "T"):
            if case[k] > 1:
                yield dict(case, **{k: case[k] - 1})
        for k in ("tvq", "cross", "c1", "twice", "uinit", "ltv"):
            if case[k]:
                yield dict(case, **{k: False})


class SmoothNLS(pp.module.NLS):
    def __init__(self, W1, W2, Bm, a, tv=0.0, dvec=None):
        super().__init__()
        self.W1, self.W2, self.Bm, self.a, self.tv, self.dvec = W1, W2, Bm, a, tv, dvec

    def state_transition(self, state, input, t=None):
        out = pp.bmv(self.W1, state) + self.a * torch.sin(pp.bmv(self.W2, state)) + pp.bmv(self.Bm, input)
        if self.tv:
            # explicit time dependence f(x, u, t) (an NLS receives the system time): a drift tv * sin(0.7 t) along a fixed direction
            out = out + self.tv * torch.sin(0.7 * torch.as_tensor(t, dtype=state.dtype)) * self.dvec
        return out

    def observation(self, state, input, t=None):
        return state


class MPCNonlinear(Sub):
    name = "mpc_nonlinear"
    n = {"quick": 150, "thorough": 4000}

    def strategy(self, tier):
        Ts = st.integers(1, 20) if tier != "quick" else weighted((st.integers(1, 6), 7), (st.integers(7, 20), 1))
        # a = 0 is a LINEAR system (kept as one case in eight: MPC must not break on the degenerate member of the family)
        return st.fixed_dictionaries({"seed": st.integers(0, 10 ** 7), "ns": st.integers(1, 6), "nc": st.integers(1, 6), "T": Ts,
                                      "steps": st.integers(1, 6), "a": st.sampled_from((0.0, 0.1, 0.1, 0.3, 0.3, 0.5, 0.5, 0.5)),
                                      "tvq": st.booleans(), "condq": st.sampled_from((1e2, 1e2, 1e4, 1e6)),
                                      # explicit time dependence of f (an NLS is handed the system time): half of the systems
                                      "tv": st.sampled_from((0.0, 0.0, 0.3, 1.0))})

    def oracle(self, case, rec):
        ns, nc, T = case["ns"], case["nc"], case["T"]
        rs = np.random.RandomState(case["seed"])
        W1 = rs.randn(ns, ns); W1 = W1 / max(abs(np.linalg.eigvals(W1))) * rs.uniform(0.3, 1.0)
        W2, Bm, a = rs.randn(ns, ns), rs.randn(ns, nc), case["a"]
        Tn = torch.tensor
        tv = float(case.get("tv", 0.0))
        dvec = np.random.RandomState(case["seed"] + 3).randn(ns)
        sysm = SmoothNLS(Tn(W1), Tn(W2), Tn(Bm), a, tv=tv, dvec=Tn(dvec))
        nsc = ns + nc
        hw = math.log10(case.get("condq", 1e2)) / 2          # eigenvalues of Q_t in 10^[-hw, hw]

        def pdq():
            U, _ = np.linalg.qr(rs.randn(nsc, nsc))
            Q1 = U @ np.diag(10.0 ** rs.uniform(-hw, hw, size=nsc)) @ U.T
            return (Q1 + Q1.T) / 2
        if case.get("tvq", False):
            Q0 = pdq()
            Q = np.stack([Q0] + [pdq() for _ in range(T - 1)])[None]
        else:
            Q = np.tile(pdq(), (1, T, 1, 1))
        p = rs.randn(1, T, nsc); x0 = rs.randn(1, ns)
        with rec.sut("MPC(nonlinear)"):
            mpc = pp.module.MPC(sysm, Tn(Q), Tn(p), T, stepper=pp.utils.ReduceToBason(steps=case["steps"], verbose=False))
            x, u, cost = mpc(1, Tn(x0), u_init=Tn(rs.randn(1, T, nc) * 0.1))
        x, u, cost = x.detach().numpy()[0], u.detach().numpy()[0], float(cost.detach().numpy().reshape(-1)[0])
        rec.label("linear(a=0)" if a == 0 else "nonlinear", "budget1" if case["steps"] == 1 else "budget>1", "T>6" if T > 6 else "T<=6",
                  "Q_time_varying" if case.get("tvq", False) else "Q_constant", "dims>4" if max(ns, nc) > 4 else "dims<=4")
        if not rec.check(bool(np.all(np.isfinite(x)) and np.all(np.isfinite(u))), "mpcnl:nonfinite", "MPC returned non-finite trajectory"):
            return
        f = lambda xx, uu, tt: W1 @ xx + a * np.sin(W2 @ xx) + Bm @ uu + tv * math.sin(0.7 * tt) * dvec
        rec.label("f:time_dependent" if tv else "f:autonomous")
        rec.check(np.array_equal(x[0], x0[0]), "mpcnl:x0", "x[0] differs from x_init")
        scale = max(1.0, float(np.abs(x).max()))
        ed = max(float(np.abs(x[t + 1] - f(x[t], u[t], t)).max()) for t in range(T))
        rec.notes["mpcnl:dyn"] = max(rec.notes.get("mpcnl:dyn", 0), ed / (1e-9 * scale))
        rec.check(ed <= 1e-9 * scale, "mpcnl:dynamics", lambda: "returned trajectory violates the nonlinear dynamics by %.3g" % ed)
        # cost along the returned trajectory: same conditioning argument as in check_solution
        tau = np.concatenate([x[:T], u], axis=1)
        cref = float(sum(0.5 * tau[t] @ Q[0, t] @ tau[t] + p[0, t] @ tau[t] for t in range(T)))
        cabs = float(sum(0.5 * np.abs(tau[t]) @ np.abs(Q[0, t]) @ np.abs(tau[t]) + np.abs(p[0, t]) @ np.abs(tau[t]) for t in range(T)))
        tol_c = 16 * (2 * nsc + T + 4) * 2.220446049250313e-16 * cabs + 1e-300
        rec.notes["mpcnl:cost"] = max(rec.notes.get("mpcnl:cost", 0), abs(cost - cref) / tol_c)
        rec.check(abs(cost - cref) <= tol_c, "mpcnl:cost", lambda: "reported cost %.17g, sum along the trajectory %.17g (tol %.3g)" % (cost, cref, tol_c))
        rec.nt(("mpc_nl", ns, nc, min(T, 7), case["steps"], a, case.get("tvq", False)))

    def simplify(self, case):
        for k in ("ns", "nc", "T", "steps"):
            if case[k] > 1:
                yield dict(case, **{k: case[k] - 1})
        if case.get("tvq"):
            yield dict(case, tvq=False)


SUBS = [LQRHist(), MPCLinear(), MPCNonlinear()]


def selftest():
    # condensing against a brute-force numerical gradient of the rolled-out cost
    pr = problem(3, 1, 2, 2, 4, True, True, True, 1e2, True)
    H, h, rollout, cost = condense(pr, 0, 4, True, pr["Q"][0], pr["p"][0], pr["x0"][0])
    U = np.random.RandomState(0).randn(8)
    g = np.array([(cost(U + 1e-6 * e) - cost(U - 1e-6 * e)) / 2e-6 for e in np.eye(8)])
    assert np.abs(g - (H @ U + h)).max() < 1e-5 * max(1.0, np.abs(g).max())
    Us = -np.linalg.solve(H, h)
    assert all(cost(Us + 1e-3 * np.random.RandomState(i).randn(8)) >= cost(Us) for i in range(5))
