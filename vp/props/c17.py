"""C17 - point-set alignment (svdtf / svdstf), ICP and EPnP return the optimal / true transformation."""
import math
import numpy as np
import torch
import pypose as pp
from hypothesis import strategies as st

from ..core import Sub
from ..ref import lie as R
from ..ref import align as A
from .. import tu, gen

PROPERTY = "C17"
RULE = (
    "align: Hypothesis draws fn in {svdtf, svdstf, svdstf(with_scale=False)}, dtype f64/f32, N in 3..200 (quick: "
    "mostly <= 40), batch shape (), (1,), (2,), (3,) and per batch item a class generic / planar / collinear / "
    "duplicated (2..N-1 distinct points) / thin-plane / needle (squeezed by 10^-15..10^-0.5) cloud (anisotropy 0.2..1, spread 1e-2..1e2, centroid offset 0..10 spreads, "
    "axis-aligned or randomly oriented), a true rotation over all of SO(3) (regimes incl. angle = pi, w~0, v~0), "
    "translation 0..100 spreads, scale 0.1..10, Gaussian noise sigma in {0} U [1e-6,0.5] (absolute log-uniform, or 0.3..5 x "
    "the target spread capped at 0.5 = reflection-prone); the cloud / noise are "
    "np.random.RandomState(seed) expansions.  Oracle: Horn's quaternion optimum (largest eigenvector of the 4x4 N "
    "matrix, numpy float64; similarity: same R, s = sum y_c.(R x_c)/sum|x_c|^2, t = ybar - s R xbar; selftest against "
    "the SVD/Umeyama form and random rotations).  Asserted: SE3/Sim3 LieTensor of shape batch+(7|8,), finite, "
    "| |q|-1 | <= 16 eps, scale > 0 (|s-1| <= 16 eps without scale), SSE(returned) <= SSE(opt)(1+1e-9) + "
    "4 eps N (s X + Y)^2 (X, Y = max |x_i|, |y_i|) -- a validity predicate, so non-unique optima pass; for sigma = 0 "
    "max_i |y_i - T x_i| <= 32 [eps L + eps sX Y rmax N/sig1 + min(eps sX Y rmax N/(sig2+sig3), 2 s dperp)] "
    "(sig_k scatter eigenvalues of the source, dperp = max distance from its principal line: rotation about the axis "
    "of a collinear set is free, a thin set is ill-conditioned in proportion).  icp: jittered-grid clouds (N 20..200, "
    "min separation >= extent/(2 g)), volume or planar, target = T (source + 0..20 further grid points) (optionally permuted), init = D^-1 T (ctor "
    "or forward argument) or None with T = D, D = rotation <= 5 deg x level, shift <= 5 % extent x level, level in "
    "{1, 6, 36}; default or explicit ReduceToBason stepper; asserted: brute-force mean squared closest-point distance "
    "after <= before (1+1e-9) + 64 eps L^2, and -- whenever the initial nearest-neighbour matching is the true "
    "correspondence with margin (d_true^2 <= 0.64 d_second^2) -- |R-R_true|, |t-t_true|/(1+L) <= 1e-6 (f64) / 2e-4 "
    "(f32).  epnp (float64): N 6..100 points with spread in all three directions (anisotropy >= 0.25), camera-frame "
    "centroid depth rho x rmax (rho 1.1..16, all depths >= 1), lateral offset <= 0.4 depth, fx 1..2000, fy/fx 0.8..1.25, "
    "principal point in [-500,1000]^2, refine on/off, intrinsics by ctor / forward, batch () or (2,); pixels from the "
    "harness's own numpy projection (pp.point2pixel must agree to 1e-9 f); asserted: reprojection <= 1e-8 f F, "
    "|R-R_true| <= 1e-6 F, |t-t_true| <= 1e-6 (1+|t|) F with F = max(1, (kappa/1000)^2), kappa = s_1/s_11 of the "
    "row-normalised 2N x 12 DLT matrix of the instance (EPnP's eig(M^T M) squares the conditioning; F = 1 for ~95 % of "
    "the cases).  Non-trivial: align = planar / collinear / thin / 3-point / noisy / "
    "angle > 2 rad; icp = non-zero D and (planar or permuted or explicit init or level > 1); epnp = kappa <= 3000 and (angle > 2 rad or "
    "N <= 8 or rho > 8 or anisotropy < 0.4).  distinct = (sub, fn/config, dtype, class, N bucket, noise / level / rho "
    "bucket, angle bucket, batch).")
ASSUMPTIONS = [
    "source points are not all identical; source and target have the same batch shape and N",
    "similarity: true scale in 0.1..10; a ValueError('not full rank') of svdstf is accepted only when the optimal scale is < 1e-4",
    "ICP recovery is asserted only when the first nearest-neighbour matching is the true correspondence (sufficient condition for "
    "'within the convergence basin'); otherwise only monotonicity",
    "EPnP: float64, non-coplanar points, depth/size ratio <= 16, rectified intrinsics; 'non-degenerate' is quantified by the "
    "DLT condition number kappa of the instance: design tolerances for kappa <= 1000, scaled by (kappa/1000)^2 beyond",
    "numpy eigh/svd (float64) trusted for the 4x4 / 3x3 reference problems",
]

QI = [0.0, 0.0, 0.0, 1.0]


def _unit(v):
    v = np.asarray(v, dtype=np.float64)
    n = np.linalg.norm(v)
    return v / n if n > 0 else np.array([1.0, 0.0, 0.0])


def _rand_rot(rs):
    q = rs.randn(4)
    return A.qrot_wxyz(q)


def _cast(a, dtype):
    """round to the dtype, return float64 array holding exactly the rounded values"""
    if dtype == "float32":
        return np.asarray(a, dtype=np.float64).astype(np.float32).astype(np.float64)
    return np.asarray(a, dtype=np.float64)


def _qR(q):
    """rotation matrix of an [x y z w] quaternion (normalised)"""
    return R.qrot(np.asarray(q, dtype=np.float64))


def _angle(q):
    return R.quat_angle(np.asarray(q, dtype=np.float64) / np.linalg.norm(q))


def _nbucket(N):
    return N if N <= 8 else (int(math.log2(N)) + 100)


def _abucket(a):
    return int(a / 0.5)


# =====================================================================================
# align
CLS = ("generic", "planar", "collinear", "dup", "thinplane", "needle")


def make_cloud(cls, N, seed, spread, an, oriented, cmul, mfrac, thick=1e-6):
    """source cloud (float64) of the given class; pure function of its arguments.
    thinplane / needle: generic cloud squeezed by `thick` in one / two directions (near-degenerate)"""
    rs = np.random.RandomState(seed % (2 ** 31))
    if cls == "collinear":
        P = np.zeros((N, 3))
        P[:, 0] = rs.randn(N)
    else:
        P = rs.randn(N, 3) * np.asarray(an)
        if cls == "planar":
            P[:, 2] = 0.0
        elif cls == "thinplane":
            P[:, 2] *= thick
        elif cls == "needle":
            P[:, 1:] *= thick
    if cls == "dup":
        m = max(2, min(N - 1, int(round(mfrac * N))))
        idx = np.concatenate([np.arange(m), rs.randint(0, m, N - m)])
        P = P[rs.permutation(idx)]
    if cls == "collinear":       # make sure at least two distinct abscissae
        if np.ptp(P[:, 0]) < 1e-3:
            P[0, 0] += 1.0
    Q = _rand_rot(rs) if oriented else np.eye(3)
    c = _unit(rs.randn(3)) * cmul
    return (P @ Q.T + c) * spread


def item_data(it, N, fn, dtype):
    X = _cast(make_cloud(it["cls"], N, it["seed"], it["spread"], it["an"], it["oriented"], it["cmul"], it["mfrac"],
                         it.get("thick", 1e-6)), dtype)
    Rt = _qR(it["q"])
    s = it["s"] if fn == "svdstf" else 1.0
    t = np.asarray(it["tdir"]) * it["tmul"] * it["spread"]
    rs = np.random.RandomState((it["seed"] + 7919) % (2 ** 31))
    Y = s * (X @ Rt.T) + t + it["sigma"] * rs.randn(N, 3)
    return X, _cast(Y, dtype), s, Rt, t


class Align(Sub):
    name = "align"
    n = {"quick": 6400, "thorough": 250000}

    def strategy(self, tier):
        @st.composite
        def item(draw):
            q, _ = draw(gen.unit_quat("float64"))
            d, _ = draw(gen.direction3())
            scale = draw(st.one_of(st.just(1.0), st.floats(math.log(0.1), math.log(10.0)).map(math.exp)))
            # noise: none / absolute log-uniform 1e-6..0.5 / relative to the target spread (reflection-prone; the spread
            # is then drawn small enough for the 0.5 cap not to bite too often)
            nmode = draw(st.sampled_from(("zero", "zero", "abs", "rel")))
            dec = draw(st.sampled_from((-2.0, -1.0, -1.0) if nmode == "rel" else (-2.0, -1.0, 0.0, 0.0, 1.0, 2.0)))
            spread = 10.0 ** dec * draw(st.floats(1.0, 9.0)) / 3.0
            if nmode == "zero":
                sigma = 0.0
            elif nmode == "abs":
                sigma = 10.0 ** draw(st.floats(-6.0, math.log10(0.5)))
            else:
                sigma = max(1e-6, min(0.5, draw(st.floats(0.3, 5.0)) * spread * scale))
            return {
                "cls": draw(st.sampled_from(CLS)), "seed": draw(st.integers(0, 2 ** 31 - 1)),
                "spread": spread,
                "an": [draw(st.floats(0.2, 1.0)) for _ in range(3)],
                "oriented": draw(st.booleans()), "cmul": draw(st.sampled_from((0.0, 0.0, 1.0, 10.0))),
                "mfrac": draw(st.floats(0.0, 1.0)), "thick": 10.0 ** draw(st.floats(-15.0, -0.5)),
                "q": q, "tdir": d, "tmul": draw(st.sampled_from((0.0, 1.0, 1.0, 10.0, 100.0))),
                "s": scale, "sigma": sigma,
            }

        @st.composite
        def s(draw):
            nb = draw(st.sampled_from((0, 0, 0, 1, 2, 3)))
            if tier == "quick":
                N = draw(st.one_of(st.integers(3, 6), st.integers(3, 40), st.integers(3, 40), st.integers(41, 200)))
            else:
                N = draw(st.one_of(st.integers(3, 6), st.integers(3, 40), st.integers(3, 200)))
            return {"fn": draw(st.sampled_from(("svdtf", "svdtf", "svdstf", "svdstf", "svdstf_noscale"))),
                    "dtype": draw(st.sampled_from(gen.DTYPES)), "N": N, "nb": nb,
                    "items": [draw(item()) for _ in range(max(1, nb))]}
        return s()

    def valid(self, case):
        try:
            if case["N"] < 3 or len(case["items"]) != max(1, case["nb"]):
                return False
            for it in case["items"]:
                if not (np.linalg.norm(it["q"]) > 1e-3 and 0.09 <= it["s"] <= 10.5 and 0 <= it["sigma"] <= 0.5
                        and it["spread"] > 1e-3 and min(it["an"]) >= 0.2 and max(it["an"]) <= 1.0
                        and 0.99 <= np.linalg.norm(it["tdir"]) <= 1.01 and 0 <= it["mfrac"] <= 1
                        and 0 <= it["cmul"] <= 10 and 0 <= it["tmul"] <= 100 and 1e-15 <= it.get("thick", 1e-6) <= 0.5
                        and it["cls"] in CLS):
                    return False
            return True
        except Exception:
            return False

    def oracle(self, case, rec):
        fn, dtype, N, nb = case["fn"], case["dtype"], case["N"], case["nb"]
        eps = tu.EPS[dtype]
        data = [item_data(it, N, fn, dtype) for it in case["items"]]
        Xs = np.stack([d[0] for d in data], 0)
        Ys = np.stack([d[1] for d in data], 0)
        if nb == 0:
            src, tgt = tu.tens(Xs[0], dtype), tu.tens(Ys[0], dtype)
        else:
            src, tgt = tu.tens(Xs, dtype), tu.tens(Ys, dtype)
        src0, tgt0 = src.clone(), tgt.clone()
        mode = "rigid" if fn in ("svdtf", "svdstf_noscale") else "sim"
        refs = [A.optimum(d[0], d[1], mode) for d in data]
        try:
            with rec.sut(fn, allow=(ValueError,) if fn != "svdtf" else ()):
                if fn == "svdtf":
                    T = pp.svdtf(src, tgt)
                elif fn == "svdstf":
                    T = pp.svdstf(src, tgt)
                else:
                    T = pp.svdstf(src, tgt, with_scale=False)
        except ValueError as e:
            # mat2Sim3(check=True) refuses a (nearly) singular linear part: legitimate only when the optimal
            # scale itself is (nearly) zero, which needs noise far above the signal
            if "full rank" in str(e) and min(r["s"] for r in refs) < 1e-4:
                rec.discard_case("optimal scale < 1e-4 (svdstf refuses)")
            rec.fail("raises:ValueError:%s:%s" % (fn, dtype), "%s raised ValueError: %s (optimal scales %s)"
                     % (fn, str(e)[:200], [r["s"] for r in refs]))
            return
        rec.check(torch.equal(src, src0) and torch.equal(tgt, tgt0), "mutates_input", "%s changed its inputs" % fn)
        want_lt, dim = (pp.SE3_type, 7) if fn == "svdtf" else (pp.Sim3_type, 8)
        if not rec.check(isinstance(T, pp.LieTensor) and T.ltype == want_lt, "type:" + fn,
                         "%s returned %s / %s" % (fn, type(T).__name__, getattr(T, "ltype", None))):
            return
        shape = ((nb,) if nb else ()) + (dim,)
        if not rec.check(tuple(T.shape) == shape, "shape:" + fn, "%s: result shape %s, expected %s for inputs %s"
                         % (fn, tuple(T.shape), shape, tuple(src.shape))):
            return
        rec.check(T.dtype == tu.TD[dtype], "dtype:" + fn, "%s: result dtype %s for %s inputs" % (fn, T.dtype, dtype))
        Tn = tu.npy(T).reshape(max(1, nb), dim)
        if not rec.check(bool(np.all(np.isfinite(Tn))), "nonfinite:%s:%s" % (fn, dtype), "%s returned %s" % (fn, Tn.tolist())):
            return
        rec.label(fn, dtype, "batch%d" % nb)
        for b, (it, (X, Y, s_true, R_true, t_true), ref) in enumerate(zip(case["items"], data, refs)):
            t_ret, q_ret = Tn[b, :3], Tn[b, 3:7]
            s_ret = float(Tn[b, 7]) if dim == 8 else 1.0
            cls, sigma = it["cls"], it["sigma"]
            ang = _angle(it["q"])
            tag = "%s:%s" % (fn, dtype)
            # ---- classes / labels
            km = A.kabsch_umeyama(X, Y, mode)
            reflective = km["refl"] and km["sv"][2] > 1e-6 * km["sv"][0]
            noisy = sigma > 0
            rec.label("cls:" + cls, "noisy" if noisy else "exact", "N=3" if N == 3 else ("N<=8" if N <= 8 else ("N<=40" if N <= 40 else "N>40")))
            if reflective:
                rec.label("reflective_optimum")
            if ref["gap"] < 1e-9:
                rec.label("nonunique_optimum")
            if ang > 2.0:
                rec.label("angle>2")
            if cls in ("planar", "collinear", "thinplane", "needle") or N == 3 or noisy or ang > 2.0:
                nlev = 0 if not noisy else (1 if sigma < 1e-3 * it["spread"] else (2 if sigma < 0.1 * it["spread"] else 3))
                rec.nt(("align", fn, dtype, cls, _nbucket(N), nlev, reflective, _abucket(ang), nb))
            # ---- proper transform
            qn = float(np.linalg.norm(q_ret))
            rec.notes["r_qnorm"] = max(rec.notes.get("r_qnorm", 0), abs(qn - 1) / (16 * eps))
            if not rec.check(abs(qn - 1) <= 16 * eps, "unit_quat:" + tag,
                             "%s item %d: |q| - 1 = %.3g (> 16 eps)" % (fn, b, qn - 1)):
                continue
            if dim == 8:
                if not rec.check(s_ret > 0, "scale_positive:" + tag, "%s item %d: scale %r" % (fn, b, s_ret)):
                    continue
                if fn == "svdstf_noscale":
                    rec.notes["r_unit_scale"] = max(rec.notes.get("r_unit_scale", 0), abs(s_ret - 1) / (16 * eps))
                    rec.check(abs(s_ret - 1) <= 16 * eps, "noscale_scale:" + tag,
                              "svdstf(with_scale=False) item %d: scale %r != 1" % (b, s_ret))
            R_ret = _qR(q_ret)
            # ---- optimality (validity predicate)
            sse_ret = A.sse(X, Y, s_ret, R_ret, t_ret)
            Xm = float(np.sqrt((X * X).sum(-1)).max())
            Ym = float(np.sqrt((Y * Y).sum(-1)).max())
            L = ref["s"] * Xm + Ym
            tol = 4 * eps * N * L * L
            exc = sse_ret - ref["sse"] * (1 + 1e-9)
            rec.notes["r_sse"] = max(rec.notes.get("r_sse", 0), exc / tol)
            rec.check(exc <= tol, "optimal:%s:%s" % (tag, cls if N > 3 else "N3"),
                      lambda: "%s item %d (%s, N=%d, sigma=%.3g, angle=%.3f): SSE of the returned transform %.6g > SSE of "
                              "the Horn optimum %.6g (+ tol %.3g); returned s=%.6g q=%s t=%s, reference s=%.6g"
                              % (fn, b, cls, N, sigma, ang, sse_ret, ref["sse"], tol, s_ret, q_ret.tolist(),
                                 t_ret.tolist(), ref["s"]))
            # ---- exact correspondences are reproduced
            if not noisy:
                stt = A.scatter_stats(X)
                sig = stt["sig"]
                E = eps * (s_true * Xm) * Ym
                term0 = E * stt["rmax"] * N / sig[0]
                w2 = (sig[1] + sig[2])
                termA = E * stt["rmax"] * N / w2 if w2 > 0 else float("inf")
                termB = 2 * s_true * stt["dperp"]
                tolr = 32 * (eps * (s_true * Xm + Ym) + term0 + min(termA, termB))
                res = float(A.residuals(X, Y, s_ret, R_ret, t_ret).max())
                rec.notes["r_exact"] = max(rec.notes.get("r_exact", 0), res / tolr)
                rec.notes["cond_exact"] = max(rec.notes.get("cond_exact", 0), tolr / (32 * eps * (s_true * Xm + Ym)))
                rec.check(res <= tolr, "exact:%s:%s" % (tag, cls if N > 3 else "N3"),
                          lambda: "%s item %d (%s, N=%d, angle=%.3f): exact correspondences y = s R x + t not reproduced: "
                                  "max residual %.3g > %.3g; returned s=%.6g q=%s t=%s, true s=%.6g t=%s"
                                  % (fn, b, cls, N, ang, res, tolr, s_ret, q_ret.tolist(), t_ret.tolist(), s_true,
                                     t_true.tolist()))

    def simplify(self, case):
        its = case["items"]
        if case["nb"] > 0:
            for i in range(len(its)):
                yield dict(case, nb=0, items=[its[i]])
        if case["N"] > 3:
            for n in sorted({3, 4, case["N"] // 2, case["N"] - 1}):
                if 3 <= n < case["N"]:
                    yield dict(case, N=n)
        if case["dtype"] == "float32":
            yield dict(case, dtype="float64")
        for i, it in enumerate(its):
            def rep(**kw):
                return dict(case, items=its[:i] + [dict(it, **kw)] + its[i + 1:])
            if it["sigma"] != 0:
                yield rep(sigma=0.0)
            if it["cls"] != "generic":
                yield rep(cls="generic")
            if it["q"] != QI:
                yield rep(q=list(QI))
            if it["tmul"] != 0:
                yield rep(tmul=0.0)
            if it["cmul"] != 0:
                yield rep(cmul=0.0)
            if it["s"] != 1.0:
                yield rep(s=1.0)
            if it["oriented"]:
                yield rep(oriented=False)
            if it["an"] != [1.0, 1.0, 1.0]:
                yield rep(an=[1.0, 1.0, 1.0])
            if it["spread"] != 1.0:
                yield rep(spread=1.0)
            if it["tdir"] != [1.0, 0.0, 0.0]:
                yield rep(tdir=[1.0, 0.0, 0.0])
            for sd in (0, 1, 2, 3):
                if it["seed"] > sd:
                    yield rep(seed=sd)

    def size(self, case):
        return case["N"] * 50 * len(case["items"]) + len(repr(case))


# =====================================================================================
# icp
LEVELS = (1, 6, 36)


def grid_cloud(N, seed, planar, extent, oriented=True):
    """N points on distinct cells of a jittered grid (min separation >= extent / (2 g)), centred, randomly oriented"""
    rs = np.random.RandomState(seed % (2 ** 31))
    if planar:
        g = int(math.ceil(math.sqrt(N)))
        cells = rs.permutation(g * g)[:N]
        ijk = np.stack([cells // g, cells % g, np.zeros(N, dtype=int)], -1).astype(np.float64)
        jit = rs.uniform(-0.25, 0.25, (N, 3)); jit[:, 2] = 0.0
    else:
        g = int(math.ceil(N ** (1.0 / 3.0) - 1e-9))
        cells = rs.permutation(g ** 3)[:N]
        ijk = np.stack([cells // (g * g), (cells // g) % g, cells % g], -1).astype(np.float64)
        jit = rs.uniform(-0.25, 0.25, (N, 3))
    P = (ijk + 0.5 + jit) / g - 0.5
    if planar:
        P[:, 2] = 0.0
    Q = _rand_rot(rs) if oriented else np.eye(3)
    c = rs.uniform(-1, 1, 3)
    return (P @ Q.T + c) * extent, g


def _compose(Ra, ta, Rb, tb):
    """(Ra,ta) o (Rb,tb)"""
    return Ra @ Rb, Ra @ tb + ta


def _q_of_R(Rm):
    """[x y z w] quaternion of a rotation matrix (float64, Shepperd)"""
    K = np.array([
        [Rm[0, 0] - Rm[1, 1] - Rm[2, 2], Rm[1, 0] + Rm[0, 1], Rm[2, 0] + Rm[0, 2], Rm[2, 1] - Rm[1, 2]],
        [Rm[1, 0] + Rm[0, 1], Rm[1, 1] - Rm[0, 0] - Rm[2, 2], Rm[2, 1] + Rm[1, 2], Rm[0, 2] - Rm[2, 0]],
        [Rm[2, 0] + Rm[0, 2], Rm[2, 1] + Rm[1, 2], Rm[2, 2] - Rm[0, 0] - Rm[1, 1], Rm[1, 0] - Rm[0, 1]],
        [Rm[2, 1] - Rm[1, 2], Rm[0, 2] - Rm[2, 0], Rm[1, 0] - Rm[0, 1], Rm[0, 0] + Rm[1, 1] + Rm[2, 2]]]) / 3.0
    w, V = np.linalg.eigh(K)
    q = V[:, -1]
    return q if q[3] >= 0 else -q


class ICPSub(Sub):
    name = "icp"
    n = {"quick": 640, "thorough": 12000}

    def strategy(self, tier):
        @st.composite
        def s(draw):
            q, _ = draw(gen.unit_quat("float64"))
            td, _ = draw(gen.direction3())
            pa, _ = draw(gen.direction3())
            pt, _ = draw(gen.direction3())
            if tier == "quick":
                N = draw(st.one_of(st.integers(20, 60), st.integers(20, 60), st.integers(20, 200)))
            else:
                N = draw(st.integers(20, 200))
            return {"dtype": draw(st.sampled_from(("float64", "float64", "float32"))), "N": N,
                    "nb": draw(st.sampled_from((0, 0, 1, 2))), "seed": draw(st.integers(0, 2 ** 31 - 1)),
                    "planar": draw(st.booleans()), "extent": 10.0 ** draw(st.floats(-1.0, 1.5)),
                    "q": q, "tdir": td, "tmul": draw(st.sampled_from((0.0, 1.0, 3.0))),
                    "perm": draw(st.booleans()), "init": draw(st.sampled_from(("none", "ctor", "fwd"))),
                    "level": draw(st.sampled_from((1, 1, 1, 6, 36))),
                    "prot": draw(st.one_of(st.just(0.0), st.floats(0.0, 1.0), st.floats(0.0, 1.0))), "paxis": pa,
                    "ptr": draw(st.one_of(st.just(0.0), st.floats(0.0, 1.0), st.floats(0.0, 1.0))), "ptdir": pt,
                    "stepper": draw(st.sampled_from(("default", "tight", "short"))),
                    "extra": draw(st.one_of(st.just(0), st.just(0), st.integers(1, 20))),
                    # the same ICP object is first used for an unrelated registration with a far per-call init (result discarded)
                    "reuse": draw(st.sampled_from((False, False, True)))}
        return s()

    def valid(self, case):
        try:
            return (20 <= case["N"] and np.linalg.norm(case["q"]) > 1e-3 and 0 <= case["prot"] <= 1 and 0 <= case["ptr"] <= 1
                    and case["level"] in LEVELS and 0.05 <= case["extent"] <= 50 and 0 <= case["extra"] <= 20
                    and all(0.99 <= np.linalg.norm(case[k]) <= 1.01 for k in ("tdir", "paxis", "ptdir")))
        except Exception:
            return False

    def _problem(self, case, b):
        """-> X (N,3), Y (N+extra,3) (rounded to dtype), perm, (R_true, t_true), initial (q0, t0) or None, grid size.
        The target is the image of the source plus `extra` further points of the same jittered grid."""
        dtype, N, M = case["dtype"], case["N"], case["N"] + case["extra"]
        P, g = grid_cloud(M, case["seed"] + 1013 * b, case["planar"], case["extent"])
        P = _cast(P, dtype)
        X = P[:N]
        ext = case["extent"]
        lev = case["level"]
        RD = A.rot_from_axis_angle(case["paxis"], math.radians(5.0) * lev * case["prot"])
        # the perturbation rotates about the centroid of the (initially placed) cloud and shifts it
        shift = np.asarray(case["ptdir"]) * 0.05 * ext * lev * case["ptr"]
        if case["init"] == "none":
            c = X.mean(0)
            R_true, t_true = RD, c - RD @ c + shift
            init = None
        else:
            R_true = _qR(case["q"])
            t_true = np.asarray(case["tdir"]) * case["tmul"] * ext
            # T_true = D o T0  =>  T0 = D^-1 o T_true, D about the centroid of T_true X
            c = R_true @ X.mean(0) + t_true
            tD = c - RD @ c + shift
            R0, t0 = _compose(RD.T, -RD.T @ tD, R_true, t_true)
            q0 = _cast(_q_of_R(R0), dtype)
            t0 = _cast(t0, dtype)
            init = (q0, t0)
        Y = P @ R_true.T + t_true
        if case["perm"]:
            perm = np.random.RandomState((case["seed"] + 31 * b + 5) % (2 ** 31)).permutation(M)
        else:
            perm = np.arange(M)
        Y = _cast(Y[perm], dtype)        # Y[j] = T p_{perm[j]}, p_i = x_i for i < N
        return X, Y, perm, (R_true, t_true), init, g

    def oracle(self, case, rec):
        dtype, N, nb = case["dtype"], case["N"], case["nb"]
        eps = tu.EPS[dtype]
        probs = [self._problem(case, b) for b in range(max(1, nb))]
        Xs = np.stack([p[0] for p in probs], 0)
        Ys = np.stack([p[1] for p in probs], 0)
        src = tu.tens(Xs if nb else Xs[0], dtype)
        tgt = tu.tens(Ys if nb else Ys[0], dtype)
        init = None
        if case["init"] != "none":
            I = np.stack([np.concatenate([p[4][1], p[4][0]]) for p in probs], 0)
            init = pp.SE3(tu.tens(I if nb else I[0], dtype))
        src0, tgt0 = src.clone(), tgt.clone()
        with rec.sut("ICP"):
            if case["stepper"] == "default":
                stepper = None
            elif case["stepper"] == "tight":
                stepper = pp.utils.ReduceToBason(steps=100, patience=3, decreasing=1e-4, tol=1e-13)
            else:
                stepper = pp.utils.ReduceToBason(steps=3, tol=1e-9)
            icp = pp.module.ICP(init=init, stepper=stepper) if case["init"] == "ctor" else pp.module.ICP(stepper=stepper)
            if case.get("reuse"):
                # an earlier call on the same object, started from a transform far away (2.5 rad about (1,1,0)): a per-call
                # init must not leak into later calls
                far = pp.SE3(tu.tens([3.0, -2.0, 1.0, 0.67103, 0.67103, 0.0, 0.31532], dtype))
                far = far.lview(1).expand(nb, 7) if nb else far
                icp(src, tgt, init=pp.SE3(far.tensor().clone()))
                rec.label("reused_module")
            if case["init"] == "fwd":
                T = icp(src, tgt, init=init)
            else:
                T = icp(src, tgt)
        rec.check(torch.equal(src, src0) and torch.equal(tgt, tgt0), "icp:mutates_input", "ICP changed its inputs")
        if not rec.check(isinstance(T, pp.LieTensor) and T.ltype == pp.SE3_type, "icp:type",
                         "ICP returned %s / %s" % (type(T).__name__, getattr(T, "ltype", None))):
            return
        shape = ((nb,) if nb else ()) + (7,)
        if not rec.check(tuple(T.shape) == shape, "icp:shape", "ICP result shape %s, expected %s" % (tuple(T.shape), shape)):
            return
        Tn = tu.npy(T).reshape(max(1, nb), 7)
        if not rec.check(bool(np.all(np.isfinite(Tn))), "icp:nonfinite:" + dtype, "ICP returned %s" % Tn.tolist()):
            return
        lev = case["level"]
        rec.label(dtype, "batch%d" % nb, "init:" + case["init"], "level%d" % lev, "stepper:" + case["stepper"],
                  "planar" if case["planar"] else "volume", "perm" if case["perm"] else "ordered",
                  "extra_target_points" if case["extra"] else "same_count")
        zeroD = (case["prot"] == 0.0 and case["ptr"] == 0.0)
        for b, (X, Y, perm, (R_true, t_true), ini, g) in enumerate(probs):
            t_ret, q_ret = Tn[b, :3], Tn[b, 3:]
            qn = float(np.linalg.norm(q_ret))
            if not rec.check(abs(qn - 1) <= 16 * eps, "icp:unit_quat:" + dtype, "ICP item %d: |q| - 1 = %.3g" % (b, qn - 1)):
                continue
            R_ret = _qR(q_ret)
            if ini is None:
                X0 = X
            else:
                X0 = X @ _qR(ini[0]).T + ini[1]
            X1 = X @ R_ret.T + t_ret
            d0, idx0, D2 = A.closest_sq(X0, Y)
            d1, _, _ = A.closest_sq(X1, Y)
            before, after = float(d0.mean()), float(d1.mean())
            L = float(max(np.abs(Y).max(), np.abs(X0).max(), np.abs(X).max()) * math.sqrt(3))
            tol = 64 * eps * L * L
            exc = after - before * (1 + 1e-9)
            rec.notes["r_mono"] = max(rec.notes.get("r_mono", 0), exc / tol)
            rec.check(exc <= tol, "icp:monotone:%s:%s" % (dtype, "planar" if case["planar"] else "volume"),
                      lambda: "ICP item %d (N=%d, init=%s, level %d, %s): mean squared closest-point distance %.6g after "
                              "> %.6g before (+tol %.3g)" % (b, N, case["init"], lev, case["stepper"], after, before, tol))
            # first matching = true correspondence?  x_{perm[j]} <-> Y[j]
            inv = np.empty(len(perm), dtype=int); inv[perm] = np.arange(len(perm))
            inv = inv[:N]
            dtrue = D2[np.arange(N), inv]
            D2o = D2.copy(); D2o[np.arange(N), inv] = np.inf
            unique = bool(np.all(dtrue <= 0.64 * D2o.min(-1)))
            if unique:
                rec.label("matched_at_start", "matched:level%d" % lev)
                eR = float(np.abs(R_ret - R_true).max())
                et = float(np.abs(t_ret - t_true).max()) / (1 + L)
                lim = 1e-6 if dtype == "float64" else 2e-4
                rec.notes["r_recover:" + dtype] = max(rec.notes.get("r_recover:" + dtype, 0), max(eR, et) / lim)
                rec.check(max(eR, et) <= lim, "icp:recover:%s:%s" % (dtype, "planar" if case["planar"] else "volume"),
                          lambda: "ICP item %d (N=%d, init=%s, level %d, %s, %s): initial nearest neighbours are the true "
                                  "correspondences but the exact transform is not recovered: |dR|=%.3g |dt|/(1+L)=%.3g; "
                                  "returned %s" % (b, N, case["init"], lev, case["stepper"],
                                                   "planar" if case["planar"] else "volume", eR, et, Tn[b].tolist()))
            else:
                rec.label("not_matched_at_start")
                eR = float(np.abs(R_ret - R_true).max())
                rec.label("unmatched_recovered" if eR < 1e-3 else "unmatched_not_recovered")
            if not zeroD and (case["planar"] or case["perm"] or case["init"] != "none" or lev > 1):
                rec.nt(("icp", dtype, case["planar"], case["perm"], case["init"], lev, case["stepper"], _nbucket(N),
                        unique, nb, _abucket(R.rot_angle(R_true)), case["extra"] > 0))

    def simplify(self, case):
        if case["nb"] > 0:
            yield dict(case, nb=0)
        if case["N"] > 20:
            for n in sorted({20, case["N"] // 2, case["N"] - 1}):
                if 20 <= n < case["N"]:
                    yield dict(case, N=n)
        if case["dtype"] == "float32":
            yield dict(case, dtype="float64")
        if case["perm"]:
            yield dict(case, perm=False)
        if case["extra"]:
            yield dict(case, extra=0)
        if case["level"] > 1:
            yield dict(case, level=1)
        if case["stepper"] != "default":
            yield dict(case, stepper="default")
        if case["q"] != QI:
            yield dict(case, q=list(QI))
        if case["tmul"] != 0:
            yield dict(case, tmul=0.0)
        if case["extent"] != 1.0:
            yield dict(case, extent=1.0)
        for sd in (0, 1, 2, 3):
            if case["seed"] > sd:
                yield dict(case, seed=sd)

    def size(self, case):
        return case["N"] * 50 * max(1, case["nb"]) + len(repr(case))


# =====================================================================================
# epnp
class EPnPSub(Sub):
    name = "epnp"
    n = {"quick": 640, "thorough": 12000}

    def strategy(self, tier):
        @st.composite
        def s(draw):
            q, _ = draw(gen.unit_quat("float64"))
            return {"N": draw(st.one_of(st.integers(6, 8), st.integers(6, 30), st.integers(6, 100))),
                    "nb": draw(st.sampled_from((0, 0, 2))), "seed": draw(st.integers(0, 2 ** 31 - 1)),
                    "size": 10.0 ** draw(st.floats(-1.0, 1.0)), "an": [draw(st.floats(0.25, 1.0)) for _ in range(3)],
                    "cmul": draw(st.sampled_from((0.0, 1.0, 5.0))), "q": q,
                    "rho": draw(st.one_of(st.floats(1.1, 4.0), st.floats(1.1, 16.0))),
                    "lat": [draw(st.floats(-0.4, 0.4)) for _ in range(2)],
                    "fx": 10.0 ** draw(st.floats(0.0, 3.3)), "fyr": draw(st.one_of(st.just(1.0), st.floats(0.8, 1.25))),
                    "pp": [draw(st.floats(-500.0, 1000.0)) for _ in range(2)],
                    "refine": draw(st.booleans()), "via": draw(st.sampled_from(("ctor", "fwd"))), "reuse": draw(st.sampled_from((False, False, True))),
                    "kbatch": draw(st.booleans())}
        return s()

    def valid(self, case):
        try:
            return (case["N"] >= 6 and np.linalg.norm(case["q"]) > 1e-3 and 0.25 <= min(case["an"]) and max(case["an"]) <= 1
                    and 1.1 <= case["rho"] <= 16 and max(abs(v) for v in case["lat"]) <= 0.4 and 1 <= case["fx"] <= 2000
                    and 0.8 <= case["fyr"] <= 1.25 and 0.1 <= case["size"] <= 10 and 0 <= case["cmul"] <= 5
                    and all(-500 <= v <= 1000 for v in case["pp"]))
        except Exception:
            return False

    def _problem(self, case, b):
        N = case["N"]
        rs = np.random.RandomState((case["seed"] + 7 * b) % (2 ** 31))
        P = rs.randn(N, 3) * np.asarray(case["an"])
        P = P @ _rand_rot(rs).T
        # guarantee spread in all three directions whatever the draw: add the 6 corners of an octahedron to the first points
        oct6 = np.array([[1, 0, 0], [-1, 0, 0], [0, 1, 0], [0, -1, 0], [0, 0, 1], [0, 0, -1]], dtype=np.float64) * min(case["an"])
        P[:6] = 0.5 * P[:6] + oct6
        P = (P + _unit(rs.randn(3)) * case["cmul"]) * case["size"]
        Rt = _qR(case["q"])
        Pc0 = (P - P.mean(0)) @ Rt.T
        rmax = float(np.linalg.norm(Pc0, axis=1).max())
        cz = max(case["rho"] * rmax, 1.0 - float(Pc0[:, 2].min()) + 1e-3)
        c = np.array([case["lat"][0] * cz, case["lat"][1] * cz, cz])
        t = c - Rt @ P.mean(0)
        return P, Rt, t, cz / rmax

    def oracle(self, case, rec):
        N, nb = case["N"], case["nb"]
        fx = case["fx"]; fy = fx * case["fyr"]; cx, cy = case["pp"]
        f = max(fx, fy)
        probs = [self._problem(case, b) for b in range(max(1, nb))]
        pix = []
        for P, Rt, t, rho in probs:
            uv, z = A.project(P, Rt, t, fx, fy, cx, cy)
            if z.min() < 1.0 - 1e-9:
                raise AssertionError("harness: depth %r < 1" % z.min())
            pix.append(uv)
        Ps = np.stack([p[0] for p in probs], 0)
        UV = np.stack(pix, 0)
        K = np.array([[fx, 0, cx], [0, fy, cy], [0, 0, 1.0]])
        pts = tu.tens(Ps if nb else Ps[0], "float64")
        pxl = tu.tens(UV if nb else UV[0], "float64")
        Kt = tu.tens(np.stack([K] * nb, 0) if (nb and case["kbatch"]) else K, "float64")
        pts0, pxl0 = pts.clone(), pxl.clone()
        # consistency of the harness projection with pypose's camera model (property C18 covers point2pixel itself)
        pose_true = np.stack([np.concatenate([p[2], _q_of_R(p[1])]) for p in probs], 0)
        with rec.sut("point2pixel"):
            uv_pp = tu.npy(pp.point2pixel(pts, Kt, pp.SE3(tu.tens(pose_true if nb else pose_true[0], "float64"))))
        dev = float(np.abs(uv_pp.reshape(UV.shape) - UV).max()) / f
        rec.notes["r_p2p"] = max(rec.notes.get("r_p2p", 0), dev / 1e-9)
        if not rec.check(dev <= 1e-9, "epnp:point2pixel_consistency",
                         "pp.point2pixel differs from u = fx X/Z + cx by %.3g f" % dev):
            return
        with rec.sut("EPnP"):
            solver = pp.module.EPnP(Kt, refine=case["refine"]) if case["via"] == "ctor" else pp.module.EPnP(refine=case["refine"])
            if case.get("reuse"):
                # an earlier call of the same module with OTHER per-call intrinsics (result discarded): nothing may leak
                K2 = Kt.clone()
                K2[..., 0, 0] = K2[..., 0, 0] * 1.7
                K2[..., 1, 1] = K2[..., 1, 1] * 0.6
                K2[..., 0, 2] = K2[..., 0, 2] + 11.0
                solver(pts, pp.point2pixel(pts, K2, pp.SE3(tu.tens(pose_true if nb else pose_true[0], "float64"))), K2)
                rec.label("reused_module")
            T = solver(pts, pxl) if case["via"] == "ctor" else solver(pts, pxl, Kt)
        rec.check(torch.equal(pts, pts0) and torch.equal(pxl, pxl0), "epnp:mutates_input", "EPnP changed its inputs")
        if not rec.check(isinstance(T, pp.LieTensor) and T.ltype == pp.SE3_type, "epnp:type",
                         "EPnP returned %s / %s" % (type(T).__name__, getattr(T, "ltype", None))):
            return
        shape = ((nb,) if nb else ()) + (7,)
        if not rec.check(tuple(T.shape) == shape, "epnp:shape", "EPnP result shape %s, expected %s" % (tuple(T.shape), shape)):
            return
        Tn = tu.npy(T).reshape(max(1, nb), 7)
        if not rec.check(bool(np.all(np.isfinite(Tn))), "epnp:nonfinite", "EPnP returned %s" % Tn.tolist()):
            return
        ang = _angle(case["q"])
        aniso = min(case["an"]) / max(case["an"])
        rec.label("refine" if case["refine"] else "norefine", "via:" + case["via"], "batch%d" % nb,
                  "N<=8" if N <= 8 else ("N<=30" if N <= 30 else "N>30"))
        tagr = "refine" if case["refine"] else "norefine"
        for b, (P, Rt, t, rho) in enumerate(probs):
            t_ret, q_ret = Tn[b, :3], Tn[b, 3:]
            qn = float(np.linalg.norm(q_ret))
            if not rec.check(abs(qn - 1) <= 16 * tu.EPS["float64"], "epnp:unit_quat", "EPnP item %d: |q| - 1 = %.3g" % (b, qn - 1)):
                continue
            R_ret = _qR(q_ret)
            uv2, z2 = A.project(P, R_ret, t_ret, fx, fy, cx, cy)
            rep = float(np.abs(uv2 - pix[b]).max()) / f if np.all(np.isfinite(uv2)) else float("inf")
            eR = float(np.abs(R_ret - Rt).max())
            et = float(np.abs(t_ret - t).max()) / (1 + float(np.abs(t).max()))
            # EPnP takes the null vector from eig(M^T M): its error grows with the SQUARE of the conditioning of the
            # resection problem (measured over 4e4 six-point cases: pose error <= 30 eps kappa^2, reprojection error
            # <= 3 eps kappa^2 f).  The design tolerances are kept up to kappa = 1000 (~95 % of the generated cases);
            # beyond that they grow with (kappa/1000)^2.
            uvn = (pix[b] - np.array([cx, cy])) / np.array([fx, fy])
            kap = A.dlt_condition(P, uvn)
            F = max(1.0, (kap / 1000.0) ** 2)
            tol_rep, tol_pose = 1e-8 * F, 1e-6 * F
            rec.notes["r_reproj"] = max(rec.notes.get("r_reproj", 0), rep / tol_rep)
            rec.notes["r_pose"] = max(rec.notes.get("r_pose", 0), max(eR, et) / tol_pose)
            rec.notes["kappa"] = max(rec.notes.get("kappa", 0), kap)
            rec.label("rho<=4" if rho <= 4 else ("rho<=8" if rho <= 8 else "rho>8"),
                      "kappa<=1000" if kap <= 1000 else ("kappa<=3000" if kap <= 3000 else "kappa>3000"))
            msg = lambda: ("EPnP item %d (N=%d, %s, rho=%.2f, kappa=%.3g, angle=%.3f, f=%.4g): reprojection error %.3g f "
                           "(tol %.3g), |dR|=%.3g, |dt|/(1+|t|)=%.3g (tol %.3g); returned %s, true t=%s R=%s"
                           % (b, N, tagr, rho, kap, ang, f, rep, tol_rep, eR, et, tol_pose, Tn[b].tolist(), t.tolist(),
                              Rt.tolist()))
            rec.check(rep <= tol_rep, "epnp:reprojection:" + tagr, msg)
            rec.check(max(eR, et) <= tol_pose, "epnp:pose:" + tagr, msg)
            if kap <= 3000 and (ang > 2.0 or N <= 8 or rho > 8 or aniso < 0.4):
                rec.nt(("epnp", case["refine"], case["via"], nb, _nbucket(N), int(rho), _abucket(ang), int(aniso * 5),
                        int(math.log10(fx) * 2)))

    def simplify(self, case):
        if case["nb"] > 0:
            yield dict(case, nb=0)
        if case["N"] > 6:
            for n in sorted({6, case["N"] // 2, case["N"] - 1}):
                if 6 <= n < case["N"]:
                    yield dict(case, N=n)
        if case["refine"]:
            yield dict(case, refine=False)
        if case["q"] != QI:
            yield dict(case, q=list(QI))
        if case["an"] != [1.0, 1.0, 1.0]:
            yield dict(case, an=[1.0, 1.0, 1.0])
        if case["cmul"] != 0:
            yield dict(case, cmul=0.0)
        if case["lat"] != [0.0, 0.0]:
            yield dict(case, lat=[0.0, 0.0])
        if case["pp"] != [0.0, 0.0]:
            yield dict(case, pp=[0.0, 0.0])
        if case["fyr"] != 1.0:
            yield dict(case, fyr=1.0)
        for sd in (0, 1, 2, 3):
            if case["seed"] > sd:
                yield dict(case, seed=sd)

    def size(self, case):
        return case["N"] * 50 * max(1, case["nb"]) + len(repr(case))


SUBS = [Align(), ICPSub(), EPnPSub()]


# =====================================================================================
def selftest():
    rs = np.random.RandomState(11)
    for trial in range(60):
        N = int(rs.randint(3, 30))
        cls = CLS[trial % len(CLS)]
        X = make_cloud(cls, N, int(rs.randint(1 << 30)), 10.0 ** rs.uniform(-1, 1), rs.uniform(0.2, 1, 3), True,
                       float(rs.choice([0, 1, 10])), float(rs.uniform()))
        Rt = _rand_rot(rs)
        s = float(np.exp(rs.uniform(-2, 2)))
        sig = float(rs.choice([0, 0, 1e-3, 0.5]))
        Y = s * X @ Rt.T + rs.randn(3) + sig * rs.randn(N, 3)
        for mode in ("rigid", "sim"):
            a, k = A.optimum(X, Y, mode), A.kabsch_umeyama(X, Y, mode)
            scale = N * (np.abs(X).max() * max(a["s"], 1) + np.abs(Y).max()) ** 2
            assert abs(a["sse"] - k["sse"]) <= 1e-11 * scale + 1e-9 * k["sse"], (mode, cls, a["sse"], k["sse"])
            assert abs(np.linalg.det(a["R"]) - 1) < 1e-12 and a["s"] >= 0
            if sig == 0 and mode == "sim":
                assert a["sse"] <= 1e-18 * scale * 1e6, (cls, a["sse"], scale)
                if cls == "generic" and N >= 4:
                    assert np.allclose(a["R"], Rt, atol=1e-8) and abs(a["s"] - s) < 1e-9 * s
            # no random transform of the class does better
            for _ in range(20):
                Rr = _rand_rot(rs) if rs.rand() < 0.5 else a["R"] @ A.rot_from_axis_angle(rs.randn(3), 1e-3 * rs.randn())
                sr = a["s"] * (1 + (1e-3 * rs.randn() if mode == "sim" else 0.0))
                tr = Y.mean(0) - sr * Rr @ X.mean(0)
                assert A.sse(X, Y, sr, Rr, tr) >= a["sse"] - 1e-11 * scale
    # quaternion extraction / composition helpers
    for _ in range(20):
        Rm = _rand_rot(rs)
        assert np.allclose(_qR(_q_of_R(Rm)), Rm, atol=1e-13)
    # grid clouds are well separated
    for planar in (False, True):
        for N in (20, 57, 200):
            P, g = grid_cloud(N, 3, planar, 2.0)
            d2 = ((P[:, None] - P[None]) ** 2).sum(-1) + np.eye(N) * 1e9
            assert math.sqrt(d2.min()) >= 2.0 * 0.5 / g - 1e-12
    # brute-force closest distance
    a = np.array([[0.0, 0, 0], [1, 0, 0]]); bb = np.array([[0.0, 0, 0.5], [1, 1, 0], [5, 5, 5]])
    assert abs(A.closest_mse(a, bb) - (0.25 + 1.0) / 2) < 1e-15
