"""C17 - point-set alignment (svdtf / svdstf), ICP and EPnP return the optimal / true transformation.

Batch items are independent problems (own cloud, pose, perturbation, noise; rank-0/1/2 batches and operands that broadcast
against each other), so that mixing of batch items is visible."""
import math
import numpy as np
import torch
import pypose as pp
from hypothesis import strategies as st

from ..core import Sub
from ..ref import lie as R
from ..ref import align as A
from .. import tu, gen

PROPERTY = "C17"
RULE = (
    "align: Hypothesis draws fn in {svdtf, svdstf, svdstf(with_scale=False)}, dtype f64/f32, N in 3..200 (quick: "
    "mostly <= 40), batch shape (), (1,), (2,), (3,), (2,2), (2,3) (thorough also (3,2), (1,3), (2,1)); with a batch the operands "
    "either share it or ONE source / ONE target (no batch dimensions, or size-1 dimensions) broadcasts against per-item "
    "targets / sources; per batch item a class generic / planar / collinear / "
    "duplicated (2..N-1 distinct points) / thin-plane / needle (squeezed by 10^-15..10^-0.5) cloud (anisotropy 0.2..1, spread 1e-2..1e2, centroid offset 0..10 spreads, "
    "axis-aligned or randomly oriented), a true rotation over all of SO(3) (regimes incl. angle = pi, w~0, v~0), "
    "translation 0..100 spreads, scale 0.1..10 (svdtf: rigid data; svdstf(with_scale=False): also scaled data, judged against "
    "the best RIGID transform), Gaussian noise sigma in {0} U [1e-6,0.5] (absolute log-uniform, or 0.3..5 x "
    "the target spread capped at 0.5 = reflection-prone); the cloud / noise are "
    "np.random.RandomState(seed) expansions.  Oracle: Horn's quaternion optimum (largest eigenvector of the 4x4 N "
    "matrix, numpy float64, of the inputs as rounded to the dtype; similarity: same R, s = sum y_c.(R x_c)/sum|x_c|^2, t = ybar - s R xbar; selftest against "
    "the SVD/Umeyama form and random rotations).  Asserted: SE3/Sim3 LieTensor of the broadcast batch shape +(7|8,), finite, "
    "| |q|-1 | <= 16 eps, scale > 0 (|s-1| <= 16 eps without scale), SSE(returned) <= SSE(opt)(1+1e-9) + tol, both SSEs evaluated on "
    "the centred sets, tol = min(4 eps N (s X + Y)^2 (X, Y = max |x_i|, |y_i|), backward-error bound of an SVD alignment on the "
    "centred data: N d^2 + N v^2 + min(4 sqrt3 s |dM|, 16 s |dM|^2/(l1-l2)) [+ scale term; + 16 eps |Sxx-Syy+SSE| for the unit scale "
    "of with_scale=False] + float64 evaluation error, d = ((N-1)/2+16) eps "
    "(s X + Y), v = 24 eps (s rx + ry), |dM| = ((N-1)/2+16) eps sum|x_c||y_c| + 3N(..eps)^2 X Y, see opt_tolerance) -- everything "
    "but the degenerate-optimum term is second order in eps, so for noisy data in float32 a rotation error of ~1e-2 rad is visible even "
    "100 spreads from the origin (evidence: theta_detectable_wellcond); still a validity predicate, so non-unique optima pass; for sigma = 0 (and unscaled data) "
    "max_i |y_i - T x_i| <= 32 [eps L + eps sX Y rmax N/sig1 + min(eps sX Y rmax N/(sig2+sig3), 2 s dperp)] "
    "(sig_k scatter eigenvalues of the source, dperp = max distance from its principal line: rotation about the axis "
    "of a collinear set is free, a thin set is ill-conditioned in proportion).  icp: jittered-grid clouds (N 3..200, "
    "min separation >= extent/(2 g)), volume or planar, target = T (source + 0..20 further grid points) (optionally permuted) "
    "+ Gaussian noise of 0 or 1e-3..0.3 grid cells, batch shape () .. (2,2), (1,3) (thorough (2,3), (3,1)) with per batch item its own cloud, "
    "pose and perturbation, or one source / one target shared by all items (no or size-1 batch dimensions), init = D^-1 T (ctor "
    "or forward argument; per item, or one init without batch dimensions) or None with T = D, D = rotation <= 5 deg x level, shift <= 5 % extent x level, level in "
    "{1, 6, 36}; default or explicit ReduceToBason stepper; asserted (exact and noisy targets): brute-force mean squared closest-point distance "
    "after <= before (1+1e-9) + 64 eps L^2, and -- for exact targets, whenever the initial nearest-neighbour matching is the true "
    "correspondence with margin (d_true^2 <= 0.64 d_second^2) -- |R-R_true|, |t-t_true|/(1+L) <= 3 (4 k_max+16) eps cond, cond = "
    "L sum|x_c|/(sig2+sig3) (k_max = step limit of the stepper; rounding only: the first SVD step is exact and independent of the "
    "stopping tolerance), for N >= 20 capped by 1e-6 (f64) / 2e-4 "
    "(f32).  epnp (float64, 1/4 float32): N 6..100 points with spread in all three directions (anisotropy >= 0.25), camera-frame "
    "centroid depth rho x rmax (rho 1.1..16, so all depths > 0; in 1/3 of the cases additionally all depths >= 1), lateral offset <= 0.4 depth, fx 1..2000, fy/fx 0.8..1.25, "
    "principal point in [-500,1000]^2, refine on/off, intrinsics by ctor / forward, batch () .. (2,2), (1,2) with per item its own points, "
    "pose, distance (and focal length x 0.5/1/2 when the intrinsics are batched); pixels from the "
    "harness's own numpy projection (pp.point2pixel must agree to 1e-9 f in float64); asserted: reprojection <= 1e-8 f F, "
    "|R-R_true| <= 1e-6 F, |t-t_true| <= 1e-6 (1+|t|) F with F = max(1, (kappa/1000)^2), kappa = s_1/s_11 of the "
    "row-normalised 2N x 12 DLT matrix of the instance (EPnP's eig(M^T M) squares the conditioning; F = 1 for ~95 % of "
    "the cases); float32: reprojection <= 80 eps kappa^2 + 16 pr, pose <= 160 eps kappa^2 + 16 kappa pr (pr = eps (1 + max|u|/f): "
    "the rounding of the pixels) for kappa <= 60, not asserted beyond.  Non-trivial: align = planar / collinear / thin / 3-point / noisy / scaled-data rigid fit / "
    "angle > 2 rad; icp = non-zero D and (planar or permuted or explicit init or level > 1 or noisy); epnp = kappa <= 3000 and (angle > 2 rad or "
    "N <= 8 or rho > 8 or anisotropy < 0.4).  distinct = (sub, fn/config, dtype, class, N bucket, noise / level / rho "
    "bucket, angle bucket, batch shape, broadcast mode).")
ASSUMPTIONS = [
    "source points are not all identical (the quantifier lists generic / planar / collinear / duplicated clouds; a single repeated point "
    "leaves the whole rotation free and makes the similarity scale 0/0 -- outside the statement); source and target have the same N; "
    "their batch shapes are equal or one of them has no / size-1 batch dimensions (torch broadcasting, as the '...' of the docstrings)",
    "similarity: true scale in 0.1..10; a ValueError('not full rank') of svdstf is accepted only when the optimal scale is < 1e-4",
    "ICP recovery is asserted only for exact targets and when the first nearest-neighbour matching is the true correspondence (sufficient condition for "
    "'within the convergence basin'); otherwise (and for noisy targets) only monotonicity: result not worse than the initial transform; "
    "the initial transform has the batch shape of the clouds or no batch dimensions (an init with MORE batch dimensions than the clouds is not documented and not generated)",
    "EPnP: non-coplanar points, depth/size ratio <= 16, all depths > 0, rectified intrinsics (batched per item or one matrix); 'non-degenerate' is quantified by the "
    "DLT condition number kappa of the instance: design tolerances for kappa <= 1000, scaled by (kappa/1000)^2 beyond; float32 only asserted for kappa <= 60",
    "numpy eigh/svd (float64) trusted for the 4x4 / 3x3 reference problems",
    "svdstf on a rank-2 batch (a,b), a != b raised RuntimeError in mat2Sim3 (scale compared with zeros of another shape): found by this "
    "module, repaired in /repo (known_findings F21); such batches are asserted like any other",
    "EPnP with ONE un-batched point set against batched pixels / intrinsics with more batch dimensions than the points raises "
    "RuntimeError('stack expects each tensor to be equal size') in _compute_nullv: the docstring gives the shapes (..., N, 3) / (..., N, 2) / "
    "(..., 3, 3) but promises no broadcasting between them, and the refusal is loud: such cases are generated, counted under the label "
    "epnp:broadcast_refused(loud) and not reported; a WRONG pose for such operands would be reported",
]

QI = [0.0, 0.0, 0.0, 1.0]


def _unit(v):
    v = np.asarray(v, dtype=np.float64)
    n = np.linalg.norm(v)
    return v / n if n > 0 else np.array([1.0, 0.0, 0.0])


def _rand_rot(rs):
    q = rs.randn(4)
    return A.qrot_wxyz(q)


def _cast(a, dtype):
    """round to the dtype, return float64 array holding exactly the rounded values"""
    if dtype == "float32":
        return np.asarray(a, dtype=np.float64).astype(np.float32).astype(np.float64)
    return np.asarray(a, dtype=np.float64)


def _qR(q):
    """rotation matrix of an [x y z w] quaternion (normalised)"""
    return R.qrot(np.asarray(q, dtype=np.float64))


def _angle(q):
    return R.quat_angle(np.asarray(q, dtype=np.float64) / np.linalg.norm(q))


def _nbucket(N):
    return N if N <= 8 else (int(math.log2(N)) + 100)


def _abucket(a):
    return int(a / 0.5)


# =====================================================================================
# align
CLS = ("generic", "planar", "collinear", "dup", "thinplane", "needle")


def make_cloud(cls, N, seed, spread, an, oriented, cmul, mfrac, thick=1e-6):
    """source cloud (float64) of the given class; pure function of its arguments.
    thinplane / needle: generic cloud squeezed by `thick` in one / two directions (near-degenerate)"""
    rs = np.random.RandomState(seed % (2 ** 31))
    if cls == "collinear":
        P = np.zeros((N, 3))
        P[:, 0] = rs.randn(N)
    else:
        P = rs.randn(N, 3) * np.asarray(an)
        if cls == "planar":
            P[:, 2] = 0.0
        elif cls == "thinplane":
            P[:, 2] *= thick
        elif cls == "needle":
            P[:, 1:] *= thick
    if cls == "dup":
        m = max(2, min(N - 1, int(round(mfrac * N))))
        idx = np.concatenate([np.arange(m), rs.randint(0, m, N - m)])
        P = P[rs.permutation(idx)]
    if cls == "collinear":       # make sure at least two distinct abscissae
        if np.ptp(P[:, 0]) < 1e-3:
            P[0, 0] += 1.0
    Q = _rand_rot(rs) if oriented else np.eye(3)
    c = _unit(rs.randn(3)) * cmul
    return (P @ Q.T + c) * spread


CLOUD_KEYS = ("cls", "seed", "spread", "an", "oriented", "cmul", "mfrac", "thick")
BCS = ("same", "src_shared", "tgt_shared")


def _data_scale(it, fn):
    """scale of the generated correspondences: svdtf always sees rigid data; svdstf(with_scale=False) also gets SCALED
    data (item scale != 1): the best RIGID transform is then the oracle and nothing is asserted about exactness"""
    return 1.0 if fn == "svdtf" else it["s"]


def item_data(it, N, fn, dtype, b=0):
    X = _cast(make_cloud(it["cls"], N, it["seed"], it["spread"], it["an"], it["oriented"], it["cmul"], it["mfrac"],
                         it.get("thick", 1e-6)), dtype)
    Rt = _qR(it["q"])
    s = _data_scale(it, fn)
    t = np.asarray(it["tdir"]) * it["tmul"] * it["spread"]
    rs = np.random.RandomState((it["seed"] + 7919 + 104729 * b) % (2 ** 31))
    Y = s * (X @ Rt.T) + t + it["sigma"] * rs.randn(N, 3)
    return X, _cast(Y, dtype), s, Rt, t


def _prod(shape):
    n = 1
    for d in shape:
        n *= int(d)
    return n


def _bshape(case):
    """batch shape of a case (older cases carry only the integer `nb`: 0 = no batch dimension)"""
    if "bshape" in case:
        return tuple(int(d) for d in case["bshape"])
    return (case["nb"],) if case.get("nb") else ()


def _shared_shape(bshape, keep1):
    """batch shape of the operand that is shared by all batch items: no batch dimensions, or size-1 dimensions"""
    return (1,) * len(bshape) if keep1 else ()


def align_data(case):
    """-> list over the batch items (row-major over the batch shape) of (X, Y, s_true, R_true, t_true, item).
    bc = "same": every item has its own cloud; "src_shared": ONE source cloud (item 0's) and per item its own
    transform / noise -> per-item targets (the source is passed without batch dimensions or with size-1 dimensions and
    broadcasts); "tgt_shared": ONE target (item 0's) and per item a source x = R^T (y - t) / s + noise/s."""
    fn, dtype, N = case["fn"], case["dtype"], case["N"]
    items, bc = case["items"], case.get("bc", "same")
    out = []
    for b, it in enumerate(items):
        if bc == "same":
            out.append(item_data(it, N, fn, dtype) + (it,))
            continue
        it2 = dict(it, **{k: items[0][k] for k in CLOUD_KEYS if k in items[0]})
        if bc == "src_shared" or b == 0:
            out.append(item_data(it2, N, fn, dtype, b) + (it2,))
        else:
            Y = out[0][1]
            Rt, s = _qR(it2["q"]), _data_scale(it2, fn)
            t = np.asarray(it2["tdir"]) * it2["tmul"] * it2["spread"]
            rs = np.random.RandomState((it2["seed"] + 7919 + 104729 * b) % (2 ** 31))
            X = _cast(((Y - t) @ Rt) / s + (it2["sigma"] / s) * rs.randn(N, 3), dtype)
            out.append((X, Y, s, Rt, t, it2))
    return out


def opt_tolerance(X, Y, ref, mode, eps, unit_scale_dev=0.0):
    """Bound on  SSE(returned) - SSE(optimum)  for an SVD alignment carried out in arithmetic of precision eps on the
    (already rounded) inputs X, Y, written from a backward-error argument on the CENTRED data.

    For any (s', R', t'):  SSE = SSE_c(s', R') + N |t' - (ybar - s' R' xbar)|^2  EXACTLY (the centred residuals sum to zero),
    with SSE_c = Syy - 2 s' tr(R'^T M) + s'^2 Sxx, M = sum y_c x_c^T.  Hence, for the returned (rounded) s', R', t':
      * translation: t' = fl(ybar' - s R xbar') with centroids summed in working precision (|error| <= (N-1)/2 eps max|x|,
        sequential-summation worst case) and q, t, s stored rounded: |t' - t*| <= d = cN eps (s Xm + Ym), cN = (N-1)/2 + 16;
        contributes N d^2 -- second order, although d carries the distance from the origin;
      * rotation: the SVD is backward stable, so the computed rotation maximises tr(R^T M') for M' = M + dM,
        |dM|_F <= cN eps sum|x_c,i||y_c,i| + 3 N (cN eps)^2 Xm Ym  (rounding of the centred points and of the N-term sums;
        a common centroid error e_x, e_y only enters as N e_y e_x^T).  Rigorously tr(R'^T M) >= tr(R_opt^T M) - 2 sqrt(3)|dM|_F,
        i.e. SSE_c grows by at most B1 = 4 sqrt(3) s |dM|_F; when dM is small against the stiffness (l1 - l2)/2 =
        sigma_2 + d sigma_3 of the optimum, perturbation theory gives rotation errors theta_k = dm_k/(sigma_i+sigma_j) and a
        loss  s sum theta_k^2 (sigma_i+sigma_j) <= 4 s |dM|_F^2/(l1 - l2); used with a factor 4 and only for |dM|_F <= (l1-l2)/8.
        Rounding the rotation to a stored quaternion (angle c eps) is second order as well (the gradient vanishes at the
        maximiser): <= N (24 eps (s rx + ry))^2;
      * scale (similarity): s' = tr(D Sigma')/Sxx' misses the best scale for R' by at most (sqrt(3)|dM|_F + cN eps s Sxx)/Sxx,
        costing that squared times Sxx;
      * svdstf(with_scale=False) returns s' = 1 + delta, |delta| <= unit_scale_dev (asserted separately), and the optimum is
        constrained to s = 1 where the SSE has the slope 2 (Sxx - tr(R^T M)) = Sxx - Syy + SSE_c:  |delta| |Sxx - Syy + SSE_c| +
        delta^2 Sxx (zero for data a rigid transform fits exactly);
      * evaluation of both SSEs by the harness (float64, centred): per-point v64 = 32 eps64 (s rx + ry): 2 sqrt(SSE N) v64 + N v64^2.
    Returns (tolerance, dict of the terms)."""
    X = np.asarray(X, dtype=np.float64)
    Y = np.asarray(Y, dtype=np.float64)
    N = len(X)
    Xc, Yc = X - X.mean(0), Y - Y.mean(0)
    rx, ry = np.sqrt((Xc * Xc).sum(-1)), np.sqrt((Yc * Yc).sum(-1))
    Xm, Ym = float(np.sqrt((X * X).sum(-1)).max()), float(np.sqrt((Y * Y).sum(-1)).max())
    s = ref["s"] if mode == "sim" else 1.0
    cN = (N - 1) / 2.0 + 16.0
    d = cN * eps * (s * Xm + Ym)
    rr = s * float(rx.max()) + float(ry.max())
    v, v64 = 24.0 * eps * rr, 32.0 * tu.EPS["float64"] * rr
    Sxy, Sxx, Syy = float((rx * ry).sum()), float((rx * rx).sum()), float((ry * ry).sum())
    dM = cN * eps * Sxy + 3.0 * N * (cN * eps) ** 2 * Xm * Ym
    B1 = 4.0 * math.sqrt(3.0) * s * dM
    gap = ref["l1"] - ref["l2"]
    Bq = 16.0 * s * dM * dM / gap if (gap > 0 and dM <= gap / 8.0) else float("inf")
    B = min(B1, Bq)
    ts = 0.0
    if mode == "sim" and Sxx > 0:
        ts = (math.sqrt(3.0) * dM + cN * eps * s * Sxx) ** 2 / Sxx
    us = unit_scale_dev * abs(Sxx - Syy + ref["sse_c"]) + unit_scale_dev ** 2 * Sxx
    sse = max(ref["sse_c"], 0.0)
    ev = 2.0 * math.sqrt(sse * N) * v64 + N * v64 ** 2
    tr = N * d * d + N * v * v
    return ev + tr + B + ts + us, {"eval": ev, "transl+round": tr, "rot": B, "quadratic": Bq < B1, "scale": ts, "unit_scale": us}


ALIGN_SHAPES = {
    # (batch shape, weight); rank-2 batches and broadcasting get a small share of the quick budget
    "quick": ([],) * 6 + ([1],) + ([2],) * 2 + ([3],) + ([2, 2],) + ([2, 3],),
    "thorough": ([],) * 4 + ([1],) + ([2],) * 2 + ([3],) * 2 + ([2, 2],) + ([2, 3],) + ([3, 2],) + ([1, 3],) + ([2, 1],),
}


class Align(Sub):
    name = "align"
    n = {"quick": 6400, "thorough": 250000}

    def strategy(self, tier):
        @st.composite
        def item(draw):
            q, _ = draw(gen.unit_quat("float64"))
            d, _ = draw(gen.direction3())
            scale = draw(st.one_of(st.just(1.0), st.floats(math.log(0.1), math.log(10.0)).map(math.exp)))
            # noise: none / absolute log-uniform 1e-6..0.5 / relative to the target spread (reflection-prone; the spread
            # is then drawn small enough for the 0.5 cap not to bite too often)
            nmode = draw(st.sampled_from(("zero", "zero", "abs", "rel")))
            dec = draw(st.sampled_from((-2.0, -1.0, -1.0) if nmode == "rel" else (-2.0, -1.0, 0.0, 0.0, 1.0, 2.0)))
            spread = 10.0 ** dec * draw(st.floats(1.0, 9.0)) / 3.0
            if nmode == "zero":
                sigma = 0.0
            elif nmode == "abs":
                sigma = 10.0 ** draw(st.floats(-6.0, math.log10(0.5)))
            else:
                sigma = max(1e-6, min(0.5, draw(st.floats(0.3, 5.0)) * spread * scale))
            return {
                "cls": draw(st.sampled_from(CLS)), "seed": draw(st.integers(0, 2 ** 31 - 1)),
                "spread": spread,
                "an": [draw(st.floats(0.2, 1.0)) for _ in range(3)],
                "oriented": draw(st.booleans()), "cmul": draw(st.sampled_from((0.0, 0.0, 1.0, 10.0))),
                "mfrac": draw(st.floats(0.0, 1.0)), "thick": 10.0 ** draw(st.floats(-15.0, -0.5)),
                "q": q, "tdir": d, "tmul": draw(st.sampled_from((0.0, 1.0, 1.0, 10.0, 100.0))),
                "s": scale, "sigma": sigma,
            }

        @st.composite
        def s(draw):
            bshape = list(draw(st.sampled_from(ALIGN_SHAPES[tier])))
            if tier == "quick":
                N = draw(st.one_of(st.integers(3, 6), st.integers(3, 40), st.integers(3, 40), st.integers(41, 200)))
            else:
                N = draw(st.one_of(st.integers(3, 6), st.integers(3, 40), st.integers(3, 200)))
            # operands of different batch shapes (broadcast): only when there is a batch
            bc = draw(st.sampled_from(("same", "same", "src_shared", "tgt_shared"))) if bshape else "same"
            return {"fn": draw(st.sampled_from(("svdtf", "svdtf", "svdstf", "svdstf", "svdstf_noscale"))),
                    "dtype": draw(st.sampled_from(gen.DTYPES)), "N": N, "bshape": bshape, "bc": bc,
                    "keep1": draw(st.booleans()) if bc != "same" else False,
                    "items": [draw(item()) for _ in range(_prod(bshape))]}
        return s()

    def valid(self, case):
        try:
            bshape = _bshape(case)
            if case["N"] < 3 or len(case["items"]) != _prod(bshape) or len(bshape) > 2 or min(bshape + (1,)) < 1:
                return False
            if case.get("bc", "same") not in BCS or (case.get("bc", "same") != "same" and not bshape):
                return False
            for it in case["items"]:
                if not (np.linalg.norm(it["q"]) > 1e-3 and 0.09 <= it["s"] <= 10.5 and 0 <= it["sigma"] <= 0.5
                        and it["spread"] > 1e-3 and min(it["an"]) >= 0.2 and max(it["an"]) <= 1.0
                        and 0.99 <= np.linalg.norm(it["tdir"]) <= 1.01 and 0 <= it["mfrac"] <= 1
                        and 0 <= it["cmul"] <= 10 and 0 <= it["tmul"] <= 100 and 1e-15 <= it.get("thick", 1e-6) <= 0.5
                        and it["cls"] in CLS):
                    return False
            return True
        except Exception:
            return False

    def oracle(self, case, rec):
        fn, dtype, N = case["fn"], case["dtype"], case["N"]
        bshape, bc, keep1 = _bshape(case), case.get("bc", "same"), bool(case.get("keep1"))
        nitems = _prod(bshape)
        eps = tu.EPS[dtype]
        data = align_data(case)
        Xs = np.stack([d[0] for d in data], 0).reshape(bshape + (N, 3))
        Ys = np.stack([d[1] for d in data], 0).reshape(bshape + (N, 3))
        if bc == "src_shared":
            Xs = data[0][0].reshape(_shared_shape(bshape, keep1) + (N, 3))
        elif bc == "tgt_shared":
            Ys = data[0][1].reshape(_shared_shape(bshape, keep1) + (N, 3))
        src, tgt = tu.tens(Xs, dtype), tu.tens(Ys, dtype)
        src0, tgt0 = src.clone(), tgt.clone()
        mode = "rigid" if fn in ("svdtf", "svdstf_noscale") else "sim"
        refs = [A.optimum(d[0], d[1], mode) for d in data]
        sbatch = "batch" + str(bshape).replace(" ", "")
        try:
            with rec.sut(fn, allow=(ValueError, RuntimeError) if fn != "svdtf" else ()):
                if fn == "svdtf":
                    T = pp.svdtf(src, tgt)
                elif fn == "svdstf":
                    T = pp.svdstf(src, tgt)
                else:
                    T = pp.svdstf(src, tgt, with_scale=False)
        except ValueError as e:
            # mat2Sim3(check=True) refuses a (nearly) singular linear part: legitimate only when the optimal
            # scale itself is (nearly) zero, which needs noise far above the signal
            if "full rank" in str(e) and min(r["s"] for r in refs) < 1e-4:
                rec.discard_case("optimal scale < 1e-4 (svdstf refuses)")
            rec.fail("raises:ValueError:%s:%s" % (fn, dtype), "%s raised ValueError: %s (optimal scales %s)"
                     % (fn, str(e)[:200], [r["s"] for r in refs]))
            return
        except RuntimeError as e:
            rec.fail("raises:RuntimeError:%s:%s" % (fn, "rank%d" % len(bshape)),
                     "%s raised RuntimeError for source %s, target %s: %s" % (fn, tuple(src.shape), tuple(tgt.shape), str(e)[:300]))
            return
        rec.check(torch.equal(src, src0) and torch.equal(tgt, tgt0), "mutates_input", "%s changed its inputs" % fn)
        want_lt, dim = (pp.SE3_type, 7) if fn == "svdtf" else (pp.Sim3_type, 8)
        if not rec.check(isinstance(T, pp.LieTensor) and T.ltype == want_lt, "type:" + fn,
                         "%s returned %s / %s" % (fn, type(T).__name__, getattr(T, "ltype", None))):
            return
        shape = bshape + (dim,)
        if not rec.check(tuple(T.shape) == shape, "shape:" + fn, "%s: result shape %s, expected %s for inputs %s, %s"
                         % (fn, tuple(T.shape), shape, tuple(src.shape), tuple(tgt.shape))):
            return
        rec.check(T.dtype == tu.TD[dtype], "dtype:" + fn, "%s: result dtype %s for %s inputs" % (fn, T.dtype, dtype))
        Tn = tu.npy(T).reshape(nitems, dim)
        if not rec.check(bool(np.all(np.isfinite(Tn))), "nonfinite:%s:%s" % (fn, dtype), "%s returned %s" % (fn, Tn.tolist())):
            return
        rec.label(fn, dtype, sbatch, "rank%d" % len(bshape))
        if bshape:
            rec.label("bc:" + bc + (":keep1" if keep1 else ""))
        for b, ((X, Y, s_true, R_true, t_true, it), ref) in enumerate(zip(data, refs)):
            t_ret, q_ret = Tn[b, :3], Tn[b, 3:7]
            s_ret = float(Tn[b, 7]) if dim == 8 else 1.0
            cls, sigma = it["cls"], it["sigma"]
            ang = _angle(it["q"])
            tag = "%s:%s" % (fn, dtype)
            # ---- classes / labels
            km = A.kabsch_umeyama(X, Y, mode)
            reflective = km["refl"] and km["sv"][2] > 1e-6 * km["sv"][0]
            noisy = sigma > 0
            # svdstf(with_scale=False) on scaled data: the best rigid fit of a similar copy (never exact)
            misfit = fn == "svdstf_noscale" and s_true != 1.0
            rec.label("cls:" + cls, "noisy" if noisy else ("rigid_fit_of_scaled_data" if misfit else "exact"),
                      "N=3" if N == 3 else ("N<=8" if N <= 8 else ("N<=40" if N <= 40 else "N>40")))
            if reflective:
                rec.label("reflective_optimum")
            if ref["gap"] < 1e-9:
                rec.label("nonunique_optimum")
            if ang > 2.0:
                rec.label("angle>2")
            if cls in ("planar", "collinear", "thinplane", "needle") or N == 3 or noisy or misfit or ang > 2.0:
                nlev = 0 if not noisy else (1 if sigma < 1e-3 * it["spread"] else (2 if sigma < 0.1 * it["spread"] else 3))
                rec.nt(("align", fn, dtype, cls, _nbucket(N), nlev, misfit, reflective, _abucket(ang), bshape, bc))
            # ---- proper transform
            qn = float(np.linalg.norm(q_ret))
            rec.notes["r_qnorm"] = max(rec.notes.get("r_qnorm", 0), abs(qn - 1) / (16 * eps))
            if not rec.check(abs(qn - 1) <= 16 * eps, "unit_quat:" + tag,
                             "%s item %d: |q| - 1 = %.3g (> 16 eps)" % (fn, b, qn - 1)):
                continue
            if dim == 8:
                if not rec.check(s_ret > 0, "scale_positive:" + tag, "%s item %d: scale %r" % (fn, b, s_ret)):
                    continue
                if fn == "svdstf_noscale":
                    rec.notes["r_unit_scale"] = max(rec.notes.get("r_unit_scale", 0), abs(s_ret - 1) / (16 * eps))
                    rec.check(abs(s_ret - 1) <= 16 * eps, "noscale_scale:" + tag,
                              "svdstf(with_scale=False) item %d: scale %r != 1" % (b, s_ret))
            R_ret = _qR(q_ret)
            # ---- optimality (validity predicate): SSE of the returned transform against the float64 Horn optimum of the
            # SAME (rounded) inputs.  Tolerance = min(coarse bound 4 eps N (s X + Y)^2 with the distances from the origin,
            # backward-error bound on the centred data (opt_tolerance)): the second one is what makes a float32 rotation
            # error of 1e-2 rad visible for a cloud 100 spreads away from the origin.
            sse_ret = A.sse_centred(X, Y, s_ret, R_ret, t_ret)
            Xm = float(np.sqrt((X * X).sum(-1)).max())
            Ym = float(np.sqrt((Y * Y).sum(-1)).max())
            L = ref["s"] * Xm + Ym
            tol_coarse = 4 * eps * N * L * L
            if fn == "svdstf_noscale":
                # the unit scale is returned within 16 eps (asserted above); on data that no rigid transform fits the SSE has a
                # slope in s: 2 |s - 1| |sum r_i . R x_c,i| <= 32 eps sqrt(SSE Sxx)
                Xc = X - X.mean(0)
                tol_coarse += 32 * eps * math.sqrt(max(ref["sse_c"], 0.0) * float((Xc * Xc).sum()))
            tol_fine, terms = opt_tolerance(X, Y, ref, mode, eps, 16 * eps if fn == "svdstf_noscale" else 0.0)
            tol = min(tol_coarse, tol_fine)
            exc = sse_ret - ref["sse_c"] * (1 + 1e-9)
            rec.notes["r_sse"] = max(rec.notes.get("r_sse", 0), exc / tol)
            rec.notes["r_sse_coarse"] = max(rec.notes.get("r_sse_coarse", 0), exc / tol_coarse)
            if noisy or misfit:
                rec.label("opt_tol:quadratic" if terms["quadratic"] else "opt_tol:first_order")
                if terms["quadratic"] and ref["gap"] > 0.1:
                    # rotation error (rad) about the softest axis that would exceed the tolerance: loss = s theta^2 (l1 - l2)/2
                    th = math.sqrt(2 * tol / (max(ref["s"] if mode == "sim" else 1.0, 1e-300) * (ref["l1"] - ref["l2"])))
                    kth = "theta_detectable_wellcond:" + dtype
                    rec.notes[kth] = max(rec.notes.get(kth, 0), th)
                    rec.notes[kth + ":coarse_bound_alone"] = max(rec.notes.get(kth + ":coarse_bound_alone", 0), th * math.sqrt(tol_coarse / tol))
            rec.check(exc <= tol, "optimal:%s:%s" % (tag, cls if N > 3 else "N3"),
                      lambda: "%s item %d (%s, N=%d, sigma=%.3g, angle=%.3f, batch %s %s): SSE of the returned transform %.9g > SSE of "
                              "the Horn optimum %.9g (+ tol %.3g = min(coarse %.3g, centred %.3g %s)); returned s=%.6g q=%s t=%s, "
                              "reference s=%.6g" % (fn, b, cls, N, sigma, ang, bshape, bc, sse_ret, ref["sse_c"], tol, tol_coarse,
                                                    tol_fine, terms, s_ret, q_ret.tolist(), t_ret.tolist(), ref["s"]))
            # ---- exact correspondences are reproduced
            if not noisy and not misfit:
                stt = A.scatter_stats(X)
                sig = stt["sig"]
                E = eps * (s_true * Xm) * Ym
                term0 = E * stt["rmax"] * N / sig[0]
                w2 = (sig[1] + sig[2])
                termA = E * stt["rmax"] * N / w2 if w2 > 0 else float("inf")
                termB = 2 * s_true * stt["dperp"]
                tolr = 32 * (eps * (s_true * Xm + Ym) + term0 + min(termA, termB))
                res = float(A.residuals(X, Y, s_ret, R_ret, t_ret).max())
                rec.notes["r_exact"] = max(rec.notes.get("r_exact", 0), res / tolr)
                rec.notes["cond_exact"] = max(rec.notes.get("cond_exact", 0), tolr / (32 * eps * (s_true * Xm + Ym)))
                rec.check(res <= tolr, "exact:%s:%s" % (tag, cls if N > 3 else "N3"),
                          lambda: "%s item %d (%s, N=%d, angle=%.3f, batch %s %s): exact correspondences y = s R x + t not reproduced: "
                                  "max residual %.3g > %.3g; returned s=%.6g q=%s t=%s, true s=%.6g t=%s"
                                  % (fn, b, cls, N, ang, bshape, bc, res, tolr, s_ret, q_ret.tolist(), t_ret.tolist(), s_true,
                                     t_true.tolist()))

    def simplify(self, case):
        its = case["items"]
        if len(its) > 1 or _bshape(case):
            for i in range(len(its)):
                c = {k: v for k, v in case.items() if k not in ("nb", "bshape", "bc", "keep1")}
                it = its[i]
                if case.get("bc", "same") != "same":      # keep the shared cloud of item 0
                    it = dict(it, **{k: its[0][k] for k in CLOUD_KEYS if k in its[0]})
                if case.get("bc", "same") == "tgt_shared" and i > 0:
                    continue                               # its source is derived from item 0's target: not separable
                yield dict(c, bshape=[], bc="same", keep1=False, items=[it])
        if case.get("bc", "same") != "same":
            if case.get("keep1"):
                yield dict(case, keep1=False)
        if case["N"] > 3:
            for n in sorted({3, 4, case["N"] // 2, case["N"] - 1}):
                if 3 <= n < case["N"]:
                    yield dict(case, N=n)
        if case["dtype"] == "float32":
            yield dict(case, dtype="float64")
        for i, it in enumerate(its):
            def rep(**kw):
                return dict(case, items=its[:i] + [dict(it, **kw)] + its[i + 1:])
            if it["sigma"] != 0:
                yield rep(sigma=0.0)
            if it["cls"] != "generic":
                yield rep(cls="generic")
            if it["q"] != QI:
                yield rep(q=list(QI))
            if it["tmul"] != 0:
                yield rep(tmul=0.0)
            if it["cmul"] != 0:
                yield rep(cmul=0.0)
            if it["s"] != 1.0:
                yield rep(s=1.0)
            if it["oriented"]:
                yield rep(oriented=False)
            if it["an"] != [1.0, 1.0, 1.0]:
                yield rep(an=[1.0, 1.0, 1.0])
            if it["spread"] != 1.0:
                yield rep(spread=1.0)
            if it["tdir"] != [1.0, 0.0, 0.0]:
                yield rep(tdir=[1.0, 0.0, 0.0])
            for sd in (0, 1, 2, 3):
                if it["seed"] > sd:
                    yield rep(seed=sd)

    def size(self, case):
        return case["N"] * 50 * len(case["items"]) + len(repr(case))


# =====================================================================================
# icp
LEVELS = (1, 6, 36)


def grid_cloud(N, seed, planar, extent, oriented=True):
    """N points on distinct cells of a jittered grid (min separation >= extent / (2 g)), centred, randomly oriented"""
    rs = np.random.RandomState(seed % (2 ** 31))
    if planar:
        g = int(math.ceil(math.sqrt(N)))
        cells = rs.permutation(g * g)[:N]
        ijk = np.stack([cells // g, cells % g, np.zeros(N, dtype=int)], -1).astype(np.float64)
        jit = rs.uniform(-0.25, 0.25, (N, 3)); jit[:, 2] = 0.0
    else:
        g = int(math.ceil(N ** (1.0 / 3.0) - 1e-9))
        cells = rs.permutation(g ** 3)[:N]
        ijk = np.stack([cells // (g * g), (cells // g) % g, cells % g], -1).astype(np.float64)
        jit = rs.uniform(-0.25, 0.25, (N, 3))
    P = (ijk + 0.5 + jit) / g - 0.5
    if planar:
        P[:, 2] = 0.0
    Q = _rand_rot(rs) if oriented else np.eye(3)
    c = rs.uniform(-1, 1, 3)
    return (P @ Q.T + c) * extent, g


def _compose(Ra, ta, Rb, tb):
    """(Ra,ta) o (Rb,tb)"""
    return Ra @ Rb, Ra @ tb + ta


def _q_of_R(Rm):
    """[x y z w] quaternion of a rotation matrix (float64, Shepperd)"""
    K = np.array([
        [Rm[0, 0] - Rm[1, 1] - Rm[2, 2], Rm[1, 0] + Rm[0, 1], Rm[2, 0] + Rm[0, 2], Rm[2, 1] - Rm[1, 2]],
        [Rm[1, 0] + Rm[0, 1], Rm[1, 1] - Rm[0, 0] - Rm[2, 2], Rm[2, 1] + Rm[1, 2], Rm[0, 2] - Rm[2, 0]],
        [Rm[2, 0] + Rm[0, 2], Rm[2, 1] + Rm[1, 2], Rm[2, 2] - Rm[0, 0] - Rm[1, 1], Rm[1, 0] - Rm[0, 1]],
        [Rm[2, 1] - Rm[1, 2], Rm[0, 2] - Rm[2, 0], Rm[1, 0] - Rm[0, 1], Rm[0, 0] + Rm[1, 1] + Rm[2, 2]]]) / 3.0
    w, V = np.linalg.eigh(K)
    q = V[:, -1]
    return q if q[3] >= 0 else -q


ICP_ITEM_KEYS = ("q", "tdir", "tmul", "prot", "paxis", "ptr", "ptdir")
ICP_SHAPES = {
    "quick": ([],) * 5 + ([1],) + ([2],) * 3 + ([3],) + ([2, 2],) + ([1, 3],),
    "thorough": ([],) * 4 + ([1],) + ([2],) * 3 + ([3],) * 2 + ([2, 2],) + ([2, 3],) + ([1, 3],) + ([3, 1],),
}


def _rigid_inv(Rm, t):
    return Rm.T, -Rm.T @ t


class ICPSub(Sub):
    name = "icp"
    n = {"quick": 640, "thorough": 12000}

    def strategy(self, tier):
        @st.composite
        def pose(draw):
            q, _ = draw(gen.unit_quat("float64"))
            td, _ = draw(gen.direction3())
            pa, _ = draw(gen.direction3())
            pt, _ = draw(gen.direction3())
            return {"q": q, "tdir": td, "tmul": draw(st.sampled_from((0.0, 1.0, 3.0))),
                    "prot": draw(st.one_of(st.just(0.0), st.floats(0.0, 1.0), st.floats(0.0, 1.0))), "paxis": pa,
                    "ptr": draw(st.one_of(st.just(0.0), st.floats(0.0, 1.0), st.floats(0.0, 1.0))), "ptdir": pt}

        @st.composite
        def s(draw):
            if tier == "quick":
                N = draw(st.one_of(st.integers(3, 19), st.integers(20, 60), st.integers(20, 60), st.integers(20, 200)))
            else:
                N = draw(st.one_of(st.integers(3, 19), st.integers(3, 200), st.integers(20, 200)))
            bshape = list(draw(st.sampled_from(ICP_SHAPES[tier])))
            if tier == "quick" and _prod(bshape) > 2:
                N = min(N, 60)
            bc = draw(st.sampled_from(("same", "same", "same", "src_shared", "tgt_shared"))) if bshape else "same"
            init = draw(st.sampled_from(("none", "ctor", "fwd")))
            case = {"dtype": draw(st.sampled_from(("float64", "float64", "float32"))), "N": N,
                    "bshape": bshape, "bc": bc, "keep1": draw(st.booleans()) if bc != "same" else False,
                    "seed": draw(st.integers(0, 2 ** 31 - 1)),
                    "planar": draw(st.booleans()), "extent": 10.0 ** draw(st.floats(-1.0, 1.5)),
                    "perm": draw(st.booleans()), "init": init,
                    # one initial transform without batch dimensions for all batch items
                    "init_shared": draw(st.booleans()) if (init != "none" and bshape) else False,
                    "level": draw(st.sampled_from((1, 1, 1, 6, 36))),
                    "stepper": draw(st.sampled_from(("default", "tight", "short"))),
                    "extra": draw(st.one_of(st.just(0), st.just(0), st.integers(1, 20))),
                    # Gaussian noise on the target, in units of the grid cell (0 = exact rigid copy)
                    "noise": draw(st.one_of(st.just(0.0), st.just(0.0), st.floats(-3.0, -0.5).map(lambda e: 10.0 ** e))),
                    # the same ICP object is first used for an unrelated registration with a far per-call init (result discarded)
                    "reuse": draw(st.sampled_from((False, False, True)))}
            case.update(draw(pose()))
            # every further batch item has its own pose and its own perturbation
            case["items"] = [draw(pose()) for _ in range(_prod(bshape) - 1)]
            return case
        return s()

    def valid(self, case):
        try:
            bshape = _bshape(case)
            ok = (3 <= case["N"] and case["level"] in LEVELS and 0.05 <= case["extent"] <= 50 and 0 <= case["extra"] <= 20
                  and 0 <= case.get("noise", 0.0) <= 0.35 and len(bshape) <= 2 and min(bshape + (1,)) >= 1
                  and case.get("bc", "same") in BCS and (case.get("bc", "same") == "same" or bshape)
                  and len(case.get("items", [])) in (0, _prod(bshape) - 1)
                  and not (case.get("init_shared") and (case["init"] == "none" or not bshape)))
            for p in [case] + list(case.get("items", [])):
                ok = ok and (np.linalg.norm(p["q"]) > 1e-3 and 0 <= p["prot"] <= 1 and 0 <= p["ptr"] <= 1
                             and all(0.99 <= np.linalg.norm(p[k]) <= 1.01 for k in ("tdir", "paxis", "ptdir")))
            return bool(ok)
        except Exception:
            return False

    def _problem(self, case, b):
        """-> X (N,3), Y (N+extra,3) (rounded to dtype), perm, (R_true, t_true), initial (q0, t0) or None, grid size.
        The target is the image of the source plus `extra` further points of the same jittered grid (+ optional noise).
        Batch item b > 0 takes its pose and perturbation from case["items"][b-1] (older cases: shared with item 0).
        bc = "same": own cloud per item; "src_shared": one source cloud, per item target = T_b(cloud);
        "tgt_shared": one target (the cloud itself), per item source = T_b^-1 (cloud[:N])."""
        dtype, N, M = case["dtype"], case["N"], case["N"] + case["extra"]
        bc = case.get("bc", "same")
        p = case if (b == 0 or not case.get("items")) else dict(case, **case["items"][b - 1])
        P, g = grid_cloud(M, case["seed"] + (1013 * b if bc == "same" else 0), case["planar"], case["extent"])
        P = _cast(P, dtype)
        ext = case["extent"]
        lev = case["level"]
        RD = A.rot_from_axis_angle(p["paxis"], math.radians(5.0) * lev * p["prot"])
        # the perturbation rotates about the centroid of the (initially placed) cloud and shifts it
        shift = np.asarray(p["ptdir"]) * 0.05 * ext * lev * p["ptr"]
        pose_src = case if case.get("init_shared") else p       # a shared init is item 0's pose
        if bc == "tgt_shared":
            # T_b = D_b o I_b, D_b about the centroid of the place where the source belongs; x = T_b^-1 p
            if case["init"] == "none":
                R0, t0, init = np.eye(3), np.zeros(3), None
            else:
                q0 = _cast(_q_of_R(_qR(pose_src["q"])), dtype)
                t0 = _cast(np.asarray(pose_src["tdir"]) * pose_src["tmul"] * ext, dtype)
                R0, init = _qR(q0), (q0, t0)
            c = P[:N].mean(0)
            R_true, t_true = _compose(RD, c - RD @ c + shift, R0, t0)
            Ri, ti = _rigid_inv(R_true, t_true)
            X = _cast(P[:N] @ Ri.T + ti, dtype)
            Y = P
        else:
            X = P[:N]
            if case["init"] == "none":
                c = X.mean(0)
                R_true, t_true = RD, c - RD @ c + shift
                init = None
            elif case.get("init_shared"):
                # the init comes first (the same for every item): T_b = D_b o I, D_b about the centroid of I X
                q0 = _cast(_q_of_R(_qR(pose_src["q"])), dtype)
                t0 = _cast(np.asarray(pose_src["tdir"]) * pose_src["tmul"] * ext, dtype)
                R0, init = _qR(q0), (q0, t0)
                c = R0 @ X.mean(0) + t0
                R_true, t_true = _compose(RD, c - RD @ c + shift, R0, t0)
            else:
                R_true = _qR(p["q"])
                t_true = np.asarray(p["tdir"]) * p["tmul"] * ext
                # T_true = D o T0  =>  T0 = D^-1 o T_true, D about the centroid of T_true X
                c = R_true @ X.mean(0) + t_true
                tD = c - RD @ c + shift
                R0, t0 = _compose(RD.T, -RD.T @ tD, R_true, t_true)
                q0 = _cast(_q_of_R(R0), dtype)
                t0 = _cast(t0, dtype)
                init = (q0, t0)
            Y = P @ R_true.T + t_true
        if case["perm"]:
            perm = np.random.RandomState((case["seed"] + 31 * (b if bc != "tgt_shared" else 0) + 5) % (2 ** 31)).permutation(M)
        else:
            perm = np.arange(M)
        noise = case.get("noise", 0.0)
        if noise > 0:
            nb_ = b if bc != "tgt_shared" else 0
            Y = Y + noise * (ext / g) * np.random.RandomState((case["seed"] + 977 * nb_ + 3) % (2 ** 31)).randn(M, 3)
        Y = _cast(Y[perm], dtype)        # Y[j] = T p_{perm[j]} (+ noise), p_i = x_i for i < N
        return X, Y, perm, (R_true, t_true), init, g

    def oracle(self, case, rec):
        dtype, N = case["dtype"], case["N"]
        bshape, bc, keep1 = _bshape(case), case.get("bc", "same"), bool(case.get("keep1"))
        nitems, M = _prod(bshape), case["N"] + case["extra"]
        noise = case.get("noise", 0.0)
        eps = tu.EPS[dtype]
        probs = [self._problem(case, b) for b in range(nitems)]
        Xs = np.stack([p[0] for p in probs], 0).reshape(bshape + (N, 3))
        Ys = np.stack([p[1] for p in probs], 0).reshape(bshape + (M, 3))
        if bc == "src_shared":
            Xs = probs[0][0].reshape(_shared_shape(bshape, keep1) + (N, 3))
        elif bc == "tgt_shared":
            Ys = probs[0][1].reshape(_shared_shape(bshape, keep1) + (M, 3))
        src, tgt = tu.tens(Xs, dtype), tu.tens(Ys, dtype)
        init = None
        if case["init"] != "none":
            I = np.stack([np.concatenate([p[4][1], p[4][0]]) for p in probs], 0)
            init = pp.SE3(tu.tens(I[0] if case.get("init_shared") else I.reshape(bshape + (7,)), dtype))
        src0, tgt0 = src.clone(), tgt.clone()
        with rec.sut("ICP"):
            if case["stepper"] == "default":
                stepper = None
            elif case["stepper"] == "tight":
                stepper = pp.utils.ReduceToBason(steps=100, patience=3, decreasing=1e-4, tol=1e-13)
            else:
                stepper = pp.utils.ReduceToBason(steps=3, tol=1e-9)
            icp = pp.module.ICP(init=init, stepper=stepper) if case["init"] == "ctor" else pp.module.ICP(stepper=stepper)
            if case.get("reuse"):
                # an earlier call on the same object, started from a transform far away (2.5 rad about (1,1,0)): a per-call
                # init must not leak into later calls
                far = tu.tens([3.0, -2.0, 1.0, 0.67103, 0.67103, 0.0, 0.31532], dtype)
                icp(src, tgt, init=pp.SE3(far.expand(bshape + (7,)).clone()))
                rec.label("reused_module")
            if case["init"] == "fwd":
                T = icp(src, tgt, init=init)
            else:
                T = icp(src, tgt)
        rec.check(torch.equal(src, src0) and torch.equal(tgt, tgt0), "icp:mutates_input", "ICP changed its inputs")
        if not rec.check(isinstance(T, pp.LieTensor) and T.ltype == pp.SE3_type, "icp:type",
                         "ICP returned %s / %s" % (type(T).__name__, getattr(T, "ltype", None))):
            return
        shape = bshape + (7,)
        if not rec.check(tuple(T.shape) == shape, "icp:shape", "ICP result shape %s, expected %s (source %s, target %s, init %s)"
                         % (tuple(T.shape), shape, tuple(src.shape), tuple(tgt.shape), None if init is None else tuple(init.shape))):
            return
        Tn = tu.npy(T).reshape(nitems, 7)
        if not rec.check(bool(np.all(np.isfinite(Tn))), "icp:nonfinite:" + dtype, "ICP returned %s" % Tn.tolist()):
            return
        lev = case["level"]
        nlev = 0 if noise == 0 else (1 if noise < 0.01 else (2 if noise < 0.1 else 3))
        sbatch = "batch" + str(bshape).replace(" ", "")
        rec.label(dtype, sbatch, "rank%d" % len(bshape), "init:" + case["init"], "level%d" % lev, "stepper:" + case["stepper"],
                  "planar" if case["planar"] else "volume", "perm" if case["perm"] else "ordered",
                  "extra_target_points" if case["extra"] else "same_count",
                  ("noise:none", "noise<1%cell", "noise<10%cell", "noise>=10%cell")[nlev],
                  "N<20" if N < 20 else "N>=20")
        if bshape:
            rec.label("bc:" + bc + (":keep1" if keep1 else ""))
        if case.get("init_shared"):
            rec.label("init_without_batch_dims")
        if nitems > 1 and case.get("items"):
            rec.label("per_item_pose")
        for b, (X, Y, perm, (R_true, t_true), ini, g) in enumerate(probs):
            p = case if (b == 0 or not case.get("items")) else case["items"][b - 1]
            zeroD = (p["prot"] == 0.0 and p["ptr"] == 0.0)
            t_ret, q_ret = Tn[b, :3], Tn[b, 3:]
            qn = float(np.linalg.norm(q_ret))
            if not rec.check(abs(qn - 1) <= 16 * eps, "icp:unit_quat:" + dtype, "ICP item %d: |q| - 1 = %.3g" % (b, qn - 1)):
                continue
            R_ret = _qR(q_ret)
            if ini is None:
                X0 = X
            else:
                X0 = X @ _qR(ini[0]).T + ini[1]
            X1 = X @ R_ret.T + t_ret
            d0, idx0, D2 = A.closest_sq(X0, Y)
            d1, _, _ = A.closest_sq(X1, Y)
            before, after = float(d0.mean()), float(d1.mean())
            L = float(max(np.abs(Y).max(), np.abs(X0).max(), np.abs(X).max()) * math.sqrt(3))
            tol = 64 * eps * L * L
            exc = after - before * (1 + 1e-9)
            rec.notes["r_mono"] = max(rec.notes.get("r_mono", 0), exc / tol)
            if noise > 0 and after > 100 * tol:
                rec.label("monotone_at_nonzero_optimum")
            rec.check(exc <= tol, "icp:monotone:%s:%s" % (dtype, "planar" if case["planar"] else "volume"),
                      lambda: "ICP item %d (N=%d, init=%s, level %d, %s, noise %.3g cell, batch %s %s): mean squared closest-point "
                              "distance %.6g after > %.6g before (+tol %.3g)"
                              % (b, N, case["init"], lev, case["stepper"], noise, bshape, bc, after, before, tol))
            # first matching = true correspondence?  x_{perm[j]} <-> Y[j]
            inv = np.empty(len(perm), dtype=int); inv[perm] = np.arange(len(perm))
            inv = inv[:N]
            dtrue = D2[np.arange(N), inv]
            D2o = D2.copy(); D2o[np.arange(N), inv] = np.inf
            unique = bool(np.all(dtrue <= 0.64 * D2o.min(-1)))
            eR = float(np.abs(R_ret - R_true).max())
            et = float(np.abs(t_ret - t_true).max()) / (1 + L)
            if unique and noise == 0:
                rec.label("matched_at_start", "matched:level%d" % lev)
                lim, cond = self._recover_limit(X, L, N, dtype, case["stepper"])
                rec.notes["r_recover:" + dtype] = max(rec.notes.get("r_recover:" + dtype, 0), max(eR, et) / lim)
                rec.notes["recover_err/(eps cond)"] = max(rec.notes.get("recover_err/(eps cond)", 0), max(eR, et) / (eps * cond))
                rec.notes["recover_cond"] = max(rec.notes.get("recover_cond", 0), cond)
                rec.notes["recover_limit:" + dtype] = max(rec.notes.get("recover_limit:" + dtype, 0), lim)
                rec.check(max(eR, et) <= lim, "icp:recover:%s:%s" % (dtype, "planar" if case["planar"] else "volume"),
                          lambda: "ICP item %d (N=%d, init=%s, level %d, %s, %s, batch %s %s): initial nearest neighbours are the true "
                                  "correspondences but the exact transform is not recovered: |dR|=%.3g |dt|/(1+L)=%.3g (limit %.3g); "
                                  "returned %s" % (b, N, case["init"], lev, case["stepper"],
                                                   "planar" if case["planar"] else "volume", bshape, bc, eR, et, lim, Tn[b].tolist()))
            elif noise == 0:
                rec.label("not_matched_at_start")
                rec.label("unmatched_recovered" if eR < 1e-3 else "unmatched_not_recovered")
            else:
                rec.label("noisy_matched_at_start" if unique else "noisy_not_matched_at_start")
            if not zeroD and (case["planar"] or case["perm"] or case["init"] != "none" or lev > 1 or noise > 0):
                rec.nt(("icp", dtype, case["planar"], case["perm"], case["init"], lev, case["stepper"], _nbucket(N),
                        unique, bshape, bc, bool(case.get("init_shared")), nlev, _abucket(R.rot_angle(R_true)), case["extra"] > 0))

    @staticmethod
    def _recover_limit(X, L, N, dtype, stepper):
        """limit for max(|R - R_true|, |t - t_true|/(1+L)) when the first matching is the true correspondence.
        The first SVD step is then already exact and every later step re-fits the same pairs, so the result does not
        depend on the stepper's stopping tolerance; what is left is rounding: the target is stored rounded, each of the
        k <= k_max loop steps moves the cloud by a quaternion action (<= ~4 eps L per point and step) and the final
        svdtf(source, moved cloud) adds a few more: per-point noise <= (4 k_max + 16) eps L.  The rotation of an SVD fit moves
        by at most 2 |dM|_F / (sig2 + sig3), |dM|_F <= noise * sum|x_c,i|  ->  |dR| <= 2 (4 k_max + 16) eps cond, cond =
        L sum|x_c,i| / (sig2 + sig3) >= 1 (sig = scatter eigenvalues of the source), and |dt| <= |dR| L + noise.
        Limit = 3 (4 k_max + 16) eps cond; observed worst case 9 eps cond (thorough tier, 12000 cases).  For N >= 20 never
        above the former constants 1e-6 / 2e-4."""
        kmax = {"default": 200, "tight": 100, "short": 3}[stepper]
        stt = A.scatter_stats(X)
        Xc = X - X.mean(0)
        w2 = float(stt["sig"][1] + stt["sig"][2])
        cond = L * float(np.sqrt((Xc * Xc).sum(-1)).sum()) / w2 if w2 > 0 else float("inf")
        lim = 3.0 * (4 * kmax + 16) * tu.EPS[dtype] * cond
        if N >= 20:
            lim = min(lim, 1e-6 if dtype == "float64" else 2e-4)
        return lim, cond

    def simplify(self, case):
        bshape = _bshape(case)
        if bshape:
            base = {k: v for k, v in case.items() if k not in ("nb", "bshape", "bc", "keep1", "items", "init_shared")}
            yield dict(base, bshape=[], bc="same", keep1=False, items=[], init_shared=False)
            if case.get("bc", "same") == "same":
                for i, it in enumerate(case.get("items", [])):       # batch item i+1 alone (its cloud seed is seed + 1013 (i+1))
                    yield dict(base, bshape=[], bc="same", keep1=False, items=[], init_shared=False,
                               seed=case["seed"] + 1013 * (i + 1), **{k: it[k] for k in ICP_ITEM_KEYS})
            if case.get("keep1"):
                yield dict(case, keep1=False)
            if case.get("init_shared"):
                yield dict(case, init_shared=False)
        if case["N"] > 3:
            for n in sorted({3, 20, case["N"] // 2, case["N"] - 1}):
                if 3 <= n < case["N"]:
                    yield dict(case, N=n)
        if case["dtype"] == "float32":
            yield dict(case, dtype="float64")
        if case.get("noise", 0.0) > 0:
            yield dict(case, noise=0.0)
        if case.get("reuse"):
            yield dict(case, reuse=False)
        if case["perm"]:
            yield dict(case, perm=False)
        if case["extra"]:
            yield dict(case, extra=0)
        if case["level"] > 1:
            yield dict(case, level=1)
        if case["stepper"] != "default":
            yield dict(case, stepper="default")
        if case["q"] != QI:
            yield dict(case, q=list(QI))
        if case["tmul"] != 0:
            yield dict(case, tmul=0.0)
        if case["extent"] != 1.0:
            yield dict(case, extent=1.0)
        for sd in (0, 1, 2, 3):
            if case["seed"] > sd:
                yield dict(case, seed=sd)

    def size(self, case):
        return case["N"] * 50 * _prod(_bshape(case)) + len(repr(case))


# =====================================================================================
# epnp
EPNP_ITEM_KEYS = ("q", "rho", "lat", "fmul")
EPNP_SHAPES = {
    "quick": ([],) * 5 + ([2],) * 3 + ([3],) + ([2, 2],) + ([1, 2],),
    "thorough": ([],) * 4 + ([1],) + ([2],) * 3 + ([3],) + ([2, 2],) + ([2, 3],) + ([1, 2],) + ([3, 1],),
}
# float32: the same error model as float64 (measured over 2e4 cases per dtype: pose error <= 15 eps kappa^2, reprojection
# <= 9 eps kappa^2 f in BOTH precisions), asserted with a ~10 x margin and only while that tolerance still means something
# (kappa <= EPNP_F32_KAPPA: pose tolerance <= 0.07)
EPNP_F32_KAPPA = 60.0


class EPnPSub(Sub):
    name = "epnp"
    n = {"quick": 640, "thorough": 12000}

    def strategy(self, tier):
        @st.composite
        def pose(draw):
            q, _ = draw(gen.unit_quat("float64"))
            return {"q": q, "rho": draw(st.one_of(st.floats(1.1, 4.0), st.floats(1.1, 16.0))),
                    "lat": [draw(st.floats(-0.4, 0.4)) for _ in range(2)],
                    # per-item focal length factor (used when the intrinsics are batched)
                    "fmul": draw(st.sampled_from((1.0, 0.5, 2.0)))}

        @st.composite
        def s(draw):
            bshape = list(draw(st.sampled_from(EPNP_SHAPES[tier])))
            N = draw(st.one_of(st.integers(6, 8), st.integers(6, 30), st.integers(6, 100)))
            if tier == "quick" and _prod(bshape) > 2:
                N = min(N, 40)
            case = {"N": N, "bshape": bshape, "seed": draw(st.integers(0, 2 ** 31 - 1)),
                    "dtype": draw(st.sampled_from(("float64", "float64", "float64", "float32"))),
                    "size": 10.0 ** draw(st.floats(-1.0, 1.0)), "an": [draw(st.floats(0.25, 1.0)) for _ in range(3)],
                    "cmul": draw(st.sampled_from((0.0, 1.0, 5.0))),
                    "fx": 10.0 ** draw(st.floats(0.0, 3.3)), "fyr": draw(st.one_of(st.just(1.0), st.floats(0.8, 1.25))),
                    "pp": [draw(st.floats(-500.0, 1000.0)) for _ in range(2)],
                    "refine": draw(st.booleans()), "via": draw(st.sampled_from(("ctor", "fwd"))), "reuse": draw(st.sampled_from((False, False, True))),
                    "kbatch": draw(st.booleans()),
                    # False: the scene may come closer to the camera than one length unit (all depths stay > 0)
                    "dclamp": draw(st.sampled_from((False, False, True))),
                    # "pts_shared": ONE point set (no batch dimensions) seen by a batch of cameras
                    "bc": draw(st.sampled_from(("same",) * 7 + ("pts_shared",))) if bshape else "same"}
            case.update(draw(pose()))
            case["items"] = [draw(pose()) for _ in range(_prod(bshape) - 1)]
            return case
        return s()

    def valid(self, case):
        try:
            bshape = _bshape(case)
            ok = (case["N"] >= 6 and 0.25 <= min(case["an"]) and max(case["an"]) <= 1
                  and 1 <= case["fx"] <= 2000
                  and 0.8 <= case["fyr"] <= 1.25 and 0.1 <= case["size"] <= 10 and 0 <= case["cmul"] <= 5
                  and all(-500 <= v <= 1000 for v in case["pp"]) and case.get("dtype", "float64") in tu.EPS
                  and len(bshape) <= 2 and min(bshape + (1,)) >= 1 and len(case.get("items", [])) in (0, _prod(bshape) - 1)
                  and case.get("bc", "same") in ("same", "pts_shared") and (case.get("bc", "same") == "same" or bshape))
            for p in [case] + list(case.get("items", [])):
                ok = ok and (np.linalg.norm(p["q"]) > 1e-3 and 1.1 <= p["rho"] <= 16 and max(abs(v) for v in p["lat"]) <= 0.4
                             and p.get("fmul", 1.0) in (1.0, 0.5, 2.0))
            return bool(ok)
        except Exception:
            return False

    def _problem(self, case, b):
        """-> world points P (rounded to the dtype), R_true, t_true, depth/size ratio, focal factor.  Batch item b > 0
        takes pose, distance and lateral offset from case["items"][b-1] (older cases: shared with item 0)."""
        N = case["N"]
        p = case if (b == 0 or not case.get("items")) else dict(case, **case["items"][b - 1])
        shared = case.get("bc", "same") == "pts_shared"
        rs = np.random.RandomState((case["seed"] + (0 if shared else 7 * b)) % (2 ** 31))
        P = rs.randn(N, 3) * np.asarray(case["an"])
        P = P @ _rand_rot(rs).T
        # guarantee spread in all three directions whatever the draw: add the 6 corners of an octahedron to the first points
        oct6 = np.array([[1, 0, 0], [-1, 0, 0], [0, 1, 0], [0, -1, 0], [0, 0, 1], [0, 0, -1]], dtype=np.float64) * min(case["an"])
        P[:6] = 0.5 * P[:6] + oct6
        P = _cast((P + _unit(rs.randn(3)) * case["cmul"]) * case["size"], case.get("dtype", "float64"))
        Rt = _qR(p["q"])
        Pc0 = (P - P.mean(0)) @ Rt.T
        rmax = float(np.linalg.norm(Pc0, axis=1).max())
        cz = p["rho"] * rmax                                   # every depth >= (rho - 1) rmax > 0
        if case.get("dclamp", True):
            cz = max(cz, 1.0 - float(Pc0[:, 2].min()) + 1e-3)  # ... and >= 1 length unit
        c = np.array([p["lat"][0] * cz, p["lat"][1] * cz, cz])
        t = c - Rt @ P.mean(0)
        return P, Rt, t, cz / rmax, (p.get("fmul", 1.0) if case.get("kbatch") else 1.0)

    def oracle(self, case, rec):
        N, dtype = case["N"], case.get("dtype", "float64")
        bshape, bc = _bshape(case), case.get("bc", "same")
        nitems = _prod(bshape)
        eps = tu.EPS[dtype]
        probs = [self._problem(case, b) for b in range(nitems)]
        # intrinsics (rounded to the dtype; per item when batched), pixels from the harness's own projection
        Ks, pix, fs = [], [], []
        for P, Rt, t, rho, fmul in probs:
            K = _cast(np.array([[case["fx"] * fmul, 0, case["pp"][0]], [0, case["fx"] * fmul * case["fyr"], case["pp"][1]],
                                [0, 0, 1.0]]), dtype)
            uv, z = A.project(P, Rt, t, K[0, 0], K[1, 1], K[0, 2], K[1, 2])
            if not z.min() > 0:
                raise AssertionError("harness: depth %r <= 0" % z.min())
            Ks.append(K); pix.append(uv); fs.append(max(K[0, 0], K[1, 1]))
        Ps = np.stack([p[0] for p in probs], 0).reshape(bshape + (N, 3))
        if bc == "pts_shared":
            Ps = probs[0][0]
        UV = np.stack(pix, 0).reshape(bshape + (N, 2))
        pts = tu.tens(Ps, dtype)
        pxl = tu.tens(UV, dtype)
        UVr = tu.npy(pxl).reshape(nitems, N, 2)                 # the pixels EPnP sees (rounded to the dtype)
        Kt = tu.tens(np.stack(Ks, 0).reshape(bshape + (3, 3)) if (bshape and case["kbatch"]) else Ks[0], dtype)
        pts0, pxl0 = pts.clone(), pxl.clone()
        # consistency of the harness projection with pypose's camera model (property C18 covers point2pixel itself); float64
        pose_true = np.stack([np.concatenate([p[2], _q_of_R(p[1])]) for p in probs], 0).reshape(bshape + (7,))
        with rec.sut("point2pixel"):
            uv_pp = tu.npy(pp.point2pixel(pts.double(), Kt.double(), pp.SE3(tu.tens(pose_true, "float64"))))
        dev = float((np.abs(uv_pp.reshape(nitems, N, 2) - np.stack(pix, 0)).max(-1).max(-1) / np.asarray(fs)).max())
        rec.notes["r_p2p"] = max(rec.notes.get("r_p2p", 0), dev / 1e-9)
        if not rec.check(dev <= 1e-9, "epnp:point2pixel_consistency",
                         "pp.point2pixel differs from u = fx X/Z + cx by %.3g f" % dev):
            return
        sbatch = "batch" + str(bshape).replace(" ", "")
        try:
            with rec.sut("EPnP", allow=(RuntimeError,) if bc == "pts_shared" else ()):
                solver = pp.module.EPnP(Kt, refine=case["refine"]) if case["via"] == "ctor" else pp.module.EPnP(refine=case["refine"])
                if case["via"] == "fwd" and case.get("seed", 0) % 3 == 0 and hasattr(Kt, "clone"):
                    # documented: intrinsics given to forward() OVERRIDE the default kept in the module - so construct the module with
                    # some OTHER default and pass the true matrix per call (seed C17e: the constructor's matrix silently won)
                    Kd = Kt.clone()
                    Kd[..., 0, 0] = Kd[..., 0, 0] * 0.55
                    Kd[..., 1, 1] = Kd[..., 1, 1] * 1.6
                    Kd[..., 1, 2] = Kd[..., 1, 2] - 7.0
                    solver = pp.module.EPnP(Kd, refine=case["refine"])
                    rec.label("ctor_default_overridden_per_call")
                if case.get("reuse"):
                    # an earlier call of the same module with OTHER per-call intrinsics (result discarded): nothing may leak
                    K2 = Kt.clone()
                    K2[..., 0, 0] = K2[..., 0, 0] * 1.7
                    K2[..., 1, 1] = K2[..., 1, 1] * 0.6
                    K2[..., 0, 2] = K2[..., 0, 2] + 11.0
                    solver(pts, pp.point2pixel(pts, K2, pp.SE3(tu.tens(pose_true, dtype))), K2)
                    rec.label("reused_module")
                T = solver(pts, pxl) if case["via"] == "ctor" else solver(pts, pxl, Kt)
        except RuntimeError as e:
            if "stack expects each tensor to be equal size" in str(e) and not (tuple(pts.shape[:-2]) == tuple(pxl.shape[:-2]) == tuple(Kt.shape[:-2])):
                rec.label("epnp:broadcast_refused(loud)", sbatch)     # see ASSUMPTIONS: undocumented broadcast, loud refusal
                return
            rec.fail("epnp:raises:RuntimeError:pts_shared", "EPnP raised RuntimeError for points %s, pixels %s, intrinsics %s: %s"
                     % (tuple(pts.shape), tuple(pxl.shape), tuple(Kt.shape), str(e)[:300]))
            return
        rec.check(torch.equal(pts, pts0) and torch.equal(pxl, pxl0), "epnp:mutates_input", "EPnP changed its inputs")
        if not rec.check(isinstance(T, pp.LieTensor) and T.ltype == pp.SE3_type, "epnp:type",
                         "EPnP returned %s / %s" % (type(T).__name__, getattr(T, "ltype", None))):
            return
        shape = bshape + (7,)
        if not rec.check(tuple(T.shape) == shape, "epnp:shape", "EPnP result shape %s, expected %s" % (tuple(T.shape), shape)):
            return
        rec.check(T.dtype == tu.TD[dtype], "epnp:dtype", "EPnP: result dtype %s for %s inputs" % (T.dtype, dtype))
        Tn = tu.npy(T).reshape(nitems, 7)
        if not rec.check(bool(np.all(np.isfinite(Tn))), "epnp:nonfinite", "EPnP returned %s" % Tn.tolist()):
            return
        aniso = min(case["an"]) / max(case["an"])
        rec.label("refine" if case["refine"] else "norefine", "via:" + case["via"], sbatch, "rank%d" % len(bshape), dtype,
                  "N<=8" if N <= 8 else ("N<=30" if N <= 30 else "N>30"))
        if nitems > 1 and case.get("items"):
            rec.label("per_item_pose")
        if bshape and case["kbatch"]:
            rec.label("per_item_intrinsics")
        if bc != "same":
            rec.label("bc:" + bc)
        tagr = ("refine" if case["refine"] else "norefine") + ("" if dtype == "float64" else ":" + dtype)
        for b, (P, Rt, t, rho, fmul) in enumerate(probs):
            pb = case if (b == 0 or not case.get("items")) else case["items"][b - 1]
            ang = _angle(pb["q"])
            K = Ks[b] if (bshape and case["kbatch"]) else Ks[0]
            fx, fy, cx, cy = K[0, 0], K[1, 1], K[0, 2], K[1, 2]
            f = max(fx, fy)
            t_ret, q_ret = Tn[b, :3], Tn[b, 3:]
            qn = float(np.linalg.norm(q_ret))
            if not rec.check(abs(qn - 1) <= 16 * eps, "epnp:unit_quat", "EPnP item %d: |q| - 1 = %.3g" % (b, qn - 1)):
                continue
            R_ret = _qR(q_ret)
            uv2, z2 = A.project(P, R_ret, t_ret, fx, fy, cx, cy)
            rep = float(np.abs(uv2 - UVr[b]).max()) / f if np.all(np.isfinite(uv2)) else float("inf")
            eR = float(np.abs(R_ret - Rt).max())
            et = float(np.abs(t_ret - t).max()) / (1 + float(np.abs(t).max()))
            zmin = float((P @ Rt.T + t)[:, 2].min())
            # EPnP takes the null vector from eig(M^T M): its error grows with the SQUARE of the conditioning of the
            # resection problem (measured over 4e4 six-point cases: pose error <= 30 eps kappa^2, reprojection error
            # <= 3 eps kappa^2 f).  The design tolerances are kept up to kappa = 1000 (~95 % of the generated cases);
            # beyond that they grow with (kappa/1000)^2.
            uvn = (UVr[b] - np.array([cx, cy])) / np.array([fx, fy])
            kap = A.dlt_condition(P, uvn)
            rec.label("rho<=4" if rho <= 4 else ("rho<=8" if rho <= 8 else "rho>8"),
                      "kappa<=1000" if kap <= 1000 else ("kappa<=3000" if kap <= 3000 else "kappa>3000"),
                      "min_depth<1" if zmin < 1 else "min_depth>=1")
            if dtype == "float64":
                F = max(1.0, (kap / 1000.0) ** 2)
                tol_rep, tol_pose = 1e-8 * F, 1e-6 * F
            else:
                if kap > EPNP_F32_KAPPA:
                    rec.label("float32:kappa>%d_not_asserted" % EPNP_F32_KAPPA)
                    continue
                rec.label("float32:asserted")
                # pixels rounded to float32 are a perturbation eps |u| / f of the normalised image point: first-order effect kappa x that
                pr = eps * (1.0 + float(np.abs(UVr[b]).max()) / f)
                tol_rep, tol_pose = 80 * eps * kap ** 2 + 16 * pr, 160 * eps * kap ** 2 + 16 * kap * pr
            rec.notes["r_reproj:" + dtype] = max(rec.notes.get("r_reproj:" + dtype, 0), rep / tol_rep)
            rec.notes["r_pose:" + dtype] = max(rec.notes.get("r_pose:" + dtype, 0), max(eR, et) / tol_pose)
            rec.notes["kappa"] = max(rec.notes.get("kappa", 0), kap)
            msg = lambda: ("EPnP item %d (N=%d, %s, batch %s, rho=%.2f, min depth %.3g, kappa=%.3g, angle=%.3f, f=%.4g): reprojection error "
                           "%.3g f (tol %.3g), |dR|=%.3g, |dt|/(1+|t|)=%.3g (tol %.3g); returned %s, true t=%s R=%s"
                           % (b, N, tagr, bshape, rho, zmin, kap, ang, f, rep, tol_rep, eR, et, tol_pose, Tn[b].tolist(), t.tolist(),
                              Rt.tolist()))
            rec.check(rep <= tol_rep, "epnp:reprojection:" + tagr, msg)
            rec.check(max(eR, et) <= tol_pose, "epnp:pose:" + tagr, msg)
            if kap <= 3000 and (ang > 2.0 or N <= 8 or rho > 8 or aniso < 0.4):
                rec.nt(("epnp", case["refine"], case["via"], bshape, dtype, _nbucket(N), int(rho), _abucket(ang), int(aniso * 5),
                        int(math.log10(case["fx"]) * 2), zmin < 1))

    def simplify(self, case):
        bshape = _bshape(case)
        if bshape:
            base = {k: v for k, v in case.items() if k not in ("nb", "bshape", "items", "bc")}
            yield dict(base, bshape=[], items=[], bc="same")
            if case.get("bc", "same") == "same":
                for i, it in enumerate(case.get("items", [])):       # batch item i+1 alone (its cloud seed is seed + 7 (i+1))
                    yield dict(base, bshape=[], items=[], bc="same", seed=case["seed"] + 7 * (i + 1),
                               **{k: it[k] for k in EPNP_ITEM_KEYS if k in it and k != "fmul"})
        if case["N"] > 6:
            for n in sorted({6, case["N"] // 2, case["N"] - 1}):
                if 6 <= n < case["N"]:
                    yield dict(case, N=n)
        if case.get("dtype", "float64") == "float32":
            yield dict(case, dtype="float64")
        if case["refine"]:
            yield dict(case, refine=False)
        if case.get("reuse"):
            yield dict(case, reuse=False)
        if case["q"] != QI:
            yield dict(case, q=list(QI))
        if case["an"] != [1.0, 1.0, 1.0]:
            yield dict(case, an=[1.0, 1.0, 1.0])
        if case["cmul"] != 0:
            yield dict(case, cmul=0.0)
        if case["lat"] != [0.0, 0.0]:
            yield dict(case, lat=[0.0, 0.0])
        if case["pp"] != [0.0, 0.0]:
            yield dict(case, pp=[0.0, 0.0])
        if case["fyr"] != 1.0:
            yield dict(case, fyr=1.0)
        for sd in (0, 1, 2, 3):
            if case["seed"] > sd:
                yield dict(case, seed=sd)

    def size(self, case):
        return case["N"] * 50 * _prod(_bshape(case)) + len(repr(case))


SUBS = [Align(), ICPSub(), EPnPSub()]


# =====================================================================================
def selftest():
    rs = np.random.RandomState(11)
    for trial in range(60):
        N = int(rs.randint(3, 30))
        cls = CLS[trial % len(CLS)]
        X = make_cloud(cls, N, int(rs.randint(1 << 30)), 10.0 ** rs.uniform(-1, 1), rs.uniform(0.2, 1, 3), True,
                       float(rs.choice([0, 1, 10])), float(rs.uniform()))
        Rt = _rand_rot(rs)
        s = float(np.exp(rs.uniform(-2, 2)))
        sig = float(rs.choice([0, 0, 1e-3, 0.5]))
        Y = s * X @ Rt.T + rs.randn(3) + sig * rs.randn(N, 3)
        for mode in ("rigid", "sim"):
            a, k = A.optimum(X, Y, mode), A.kabsch_umeyama(X, Y, mode)
            scale = N * (np.abs(X).max() * max(a["s"], 1) + np.abs(Y).max()) ** 2
            assert abs(a["sse"] - k["sse"]) <= 1e-11 * scale + 1e-9 * k["sse"], (mode, cls, a["sse"], k["sse"])
            assert abs(np.linalg.det(a["R"]) - 1) < 1e-12 and a["s"] >= 0
            if sig == 0 and mode == "sim":
                assert a["sse"] <= 1e-18 * scale * 1e6, (cls, a["sse"], scale)
                if cls == "generic" and N >= 4:
                    assert np.allclose(a["R"], Rt, atol=1e-8) and abs(a["s"] - s) < 1e-9 * s
            # no random transform of the class does better
            for _ in range(20):
                Rr = _rand_rot(rs) if rs.rand() < 0.5 else a["R"] @ A.rot_from_axis_angle(rs.randn(3), 1e-3 * rs.randn())
                sr = a["s"] * (1 + (1e-3 * rs.randn() if mode == "sim" else 0.0))
                tr = Y.mean(0) - sr * Rr @ X.mean(0)
                assert A.sse(X, Y, sr, Rr, tr) >= a["sse"] - 1e-11 * scale
    # centred SSE = plain SSE; l1 - l2 = 2 (sigma_2 + d sigma_3); the tolerance terms are finite and positive
    for trial in range(30):
        N = int(rs.randint(3, 40))
        X = rs.randn(N, 3) + rs.randn(3)
        Rt = _rand_rot(rs)
        Y = 1.7 * X @ Rt.T + rs.randn(3) + (0.3 if trial % 2 else 3.0) * rs.randn(N, 3)
        sr, Rr, tr = float(np.exp(rs.randn())), _rand_rot(rs), rs.randn(3)
        a1, a2 = A.sse(X, Y, sr, Rr, tr), A.sse_centred(X, Y, sr, Rr, tr)
        assert abs(a1 - a2) <= 1e-12 * a1, (a1, a2)
        for mode in ("rigid", "sim"):
            a, k = A.optimum(X, Y, mode), A.kabsch_umeyama(X, Y, mode)
            assert abs(a["sse_c"] - a["sse"]) <= 1e-12 * a["sse"]
            d3 = -1.0 if k["refl"] else 1.0
            assert abs((a["l1"] - a["l2"]) - 2 * (k["sv"][1] + d3 * k["sv"][2])) <= 1e-10 * k["sv"][0], (a["l1"], a["l2"], k["sv"])
            tol, terms = opt_tolerance(X, Y, a, mode, tu.EPS["float32"])
            assert 0 < tol < 1e-3 * a["sse_c"], (tol, a["sse_c"])
            # a rotation error of 0.02 rad about the centroid costs more than the float32 tolerance, also 1000 units from the origin
            off = np.array([1000.0, 0.0, 0.0])
            a_far = A.optimum(X + off, Y + off, mode)
            tol_far, _ = opt_tolerance(X + off, Y + off, a_far, mode, tu.EPS["float32"])
            Rw = a_far["R"] @ A.rot_from_axis_angle(rs.randn(3), 0.02)
            tw = (Y + off).mean(0) - a_far["s"] * Rw @ (X + off).mean(0)
            if (a_far["l1"] - a_far["l2"]) > 0.2 * a_far["l1"]:
                assert A.sse_centred(X + off, Y + off, a_far["s"], Rw, tw) - a_far["sse_c"] > tol_far, (mode, tol_far)
    # quaternion extraction / composition helpers
    for _ in range(20):
        Rm = _rand_rot(rs)
        assert np.allclose(_qR(_q_of_R(Rm)), Rm, atol=1e-13)
    # grid clouds are well separated
    for planar in (False, True):
        for N in (3, 7, 20, 57, 200):
            P, g = grid_cloud(N, 3, planar, 2.0)
            d2 = ((P[:, None] - P[None]) ** 2).sum(-1) + np.eye(N) * 1e9
            assert math.sqrt(d2.min()) >= 2.0 * 0.5 / g - 1e-12
    # brute-force closest distance
    a = np.array([[0.0, 0, 0], [1, 0, 0]]); bb = np.array([[0.0, 0, 0.5], [1, 1, 0], [5, 5, 5]])
    assert abs(A.closest_mse(a, bb) - (0.25 + 1.0) / 2) < 1e-15
