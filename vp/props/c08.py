"""C08 - LM never accepts a worse loss, restores rejected trials, reports the true loss; damping follows the strategy."""
import itertools, math
import numpy as np
import torch
import pypose as pp
from torch import nn
from hypothesis import strategies as st

from ..core import Sub, HarnessError as core_HarnessError
from ..ref import lie as R
from .. import tu, gen
from .c07 import rho0, KERNELS

PROPERTY = "C08"
RULE = ("histories: one case = one model (Euclidean parameter through atan residuals, optionally an SO3/SE3 parameter through point "
        "alignment residuals; well- or ill-conditioned) + one optimizer + up to 8 (quick) / 30 (thorough) consecutive step() calls on the "
        "same data.  Trial outcomes are ENGINEERED through a scripted user-supplied solver: at the j-th solve of the run it returns "
        "s_j x (true damped solution) with s_j in {1, 0.1 (small descent), 0 (no change), -1 (ascent), 30 (overshoot)} or raises "
        "(RuntimeError, AssertionError, LinAlgError), so 'first k trials increase the loss', 'equal loss' and 'solver fails at solve j' "
        "are reached by construction.  Strategies Constant / Adaptive / TrustRegion with drawn legal hyper-parameters (recording wrapper "
        "that delegates to the real update); reject in 0..16; kernels None/Huber/Cauchy.  patterns: EXHAUSTIVE enumeration of every "
        "outcome pattern of length reject+2 over {descent, no-change, ascent, raise} for reject 0..3 x 3 strategies x 2 calls.  gn: "
        "GaussNewton histories.  Invariants after EVERY step (and inside every solver call): (1) returned value == optimizer.loss == "
        "robust loss recomputed by the harness (own numpy residuals + own kernel closed form) at the parameters left behind; (2) "
        "loss_after <= loss_before unless reject_count == reject; (3) parameters at the entry of trial k+1 equal those at the entry of "
        "trial k; (4) a raising solver leaves parameters and loss as before that trial and step returns normally; (5) #trials <= "
        "reject+1 and reject_count == #trials-1; (6) every damping / radius / down-factor transition equals the documented rule for "
        "the quality recomputed by the harness, within [min,max]; (7) GN returns the loss at the new parameters and records the "
        "previous one.  Non-trivial: history with >= 1 rejected trial; distinct = (strategy, reject, outcome pattern, parameter kinds).")
ASSUMPTIONS = ["weights None (the statement's robust loss does not involve them); losses stay finite (step scale bounded)",
               "damping transitions are only classified when the recomputed quality is finite and not within 1e-6 relative of a threshold"]

SYMS = ("ok", "small", "zero", "asc", "big", "raise:RuntimeError", "raise:AssertionError", "raise:LinAlgError")
EXCS = {"RuntimeError": RuntimeError, "AssertionError": AssertionError, "LinAlgError": torch.linalg.LinAlgError}
SCALE = {"ok": 1.0, "small": 0.1, "zero": 0.0, "asc": -1.0, "big": 30.0}


class Problem:
    """data of one least-squares problem (pure function of the seed)"""
    def __init__(self, seed, n, gkind, ill, prior=False):
        rs = np.random.RandomState(seed)
        self.n, self.gkind = n, gkind
        # prior=True: the first residual block is the parameter itself (a prior / Tikhonov term r = theta, shape (n, 1) as the LM
        # docs ask): the model OUTPUT then shares storage with the parameter the optimizer updates in place
        self.prior = prior
        M = n + 2
        self.a = rs.randn(M, n)
        if ill:
            self.a[:, -1] = self.a[:, 0] * (1 + 1e-4 * rs.randn(M)) if n > 1 else self.a[:, -1] * 1e-3
        self.c = rs.uniform(0.5, 2.0, size=M)
        self.theta0 = rs.randn(n)
        self.y = np.arctan(self.c * (self.a @ rs.randn(n))) + 0.05 * rs.randn(M)
        K = 4
        self.p = rs.randn(K, 3)
        q = rs.randn(4); q /= np.linalg.norm(q)
        Xt = np.concatenate([rs.randn(3), q]) if gkind == "SE3" else q
        self.q = np.stack([self.act(Xt, p) for p in self.p]) + 0.05 * rs.randn(K, 3) if gkind else None
        if gkind:
            q0 = rs.randn(4); q0 /= np.linalg.norm(q0)
            self.X0 = np.concatenate([rs.randn(3), q0]) if gkind == "SE3" else q0
        else:
            self.X0 = None

    def act(self, X, p):
        if self.gkind == "SE3" or len(X) == 7:
            return R.qrot(X[3:7]) @ p + X[:3]
        return R.qrot(X) @ p

    def res1(self, theta):
        return np.asarray(theta, dtype=np.float64).copy() if self.prior else np.arctan(self.c * (self.a @ theta)) - self.y

    def resvec(self, state):
        """all residuals at a state, concatenated in the order the model returns them"""
        r = [self.res1(state[0])]
        if self.gkind:
            r.append((np.stack([self.act(state[1], p) for p in self.p]) - self.q).reshape(-1))
        return np.concatenate(r)

    def loss(self, theta, X, kernel, kd):
        r1 = self.res1(theta)
        tot = float(np.sum(rho0(kernel, kd, r1 ** 2)))
        if self.gkind:
            r2 = np.stack([self.act(X, p) for p in self.p]) - self.q
            tot += float(np.sum(rho0(kernel, kd, (r2 ** 2).sum(-1))))
        return tot


def _strided(t):
    """the same values as a non-contiguous view (every other element of a buffer twice as long)"""
    buf = torch.zeros((2 * t.shape[0],) + tuple(t.shape[1:]), dtype=t.dtype)
    buf[::2] = t
    return buf[::2]


class Net(nn.Module):
    def __init__(self, prob, strided=False):
        super().__init__()
        self.prob = prob
        # strided=True: the parameters live in non-contiguous storage (a parameter that is a slice / transpose of a bigger tensor).
        # Updating and RESTORING such a parameter through reshape(-1) / view(-1) of its data writes into a temporary (seed C08e).
        lay = _strided if strided else (lambda t: t)
        self.strided = strided
        if strided:
            # a genuinely 2-D non-contiguous parameter: the transpose of a (2, n) buffer; column 0 is theta, column 1 is a spectator
            # with zero Jacobian (a 1-D strided view would not do: reshape(-1) / view(-1) of a 1-D tensor is the tensor itself)
            base = torch.stack([torch.tensor(prob.theta0), torch.full((len(prob.theta0),), 0.5, dtype=torch.float64)], 0)
            self.W = nn.Parameter(base.T)
        else:
            self.theta = nn.Parameter(torch.tensor(prob.theta0))
        if prob.gkind:
            self.X = pp.Parameter(pp.LieTensor(lay(torch.tensor(prob.X0)), ltype=tu.LT[prob.gkind]))
        self.a, self.c, self.y = torch.tensor(prob.a), torch.tensor(prob.c), torch.tensor(prob.y)
        if prob.gkind:
            self.p, self.q = torch.tensor(prob.p), torch.tensor(prob.q)

    def _theta(self):
        return self.W[:, 0] if self.strided else self.theta

    def forward(self, dummy):
        if self.prob.prior:
            r1 = self._theta().unsqueeze(-1)          # a view of the parameter, not a copy
        else:
            r1 = (torch.atan(self.c * (self.a @ self._theta())) - self.y).unsqueeze(-1)
        if self.prob.gkind:
            return r1, self.X.Act(self.p) - self.q
        return r1

    def state(self):
        return (self._theta().detach().clone().numpy(), self.X.tensor().detach().clone().numpy() if self.prob.gkind else None)


class ScriptSolver(nn.Module):
    def __init__(self, script, net):
        super().__init__()
        self.script, self.net, self.j, self.raise_at = list(script), net, 0, -1
        self.entries = []       # per call: (symbol, params at entry)
        self.xmax = []          # per call: max |returned step| (0 when the solver raised)

    def begin_call(self, k_asc):
        """put k ascents in front of what this call will consume"""
        if k_asc > 0:
            self.script = self.script[:self.j] + ["asc"] * k_asc + self.script[self.j:]

    def forward(self, A, b):
        sym = self.script[self.j] if self.j < len(self.script) else "ok"
        if self.j == self.raise_at:
            sym = "raise:RuntimeError"
        self.j += 1
        self.entries.append((sym, self.net.state()))
        self.xmax.append(0.0)
        if sym.startswith("raise:"):
            raise EXCS[sym.split(":")[1]]("scripted solver failure")
        x = torch.linalg.pinv(A) @ b
        self.xmax[-1] = float((SCALE[sym] * x).abs().max()) if x.numel() else 0.0
        return SCALE[sym] * x


class RecStrategy:
    def __init__(self, inner):
        self.inner, self.defaults, self.log = inner, inner.defaults, []

    def update(self, pg, last, loss, J, D, R, *a, **kw):
        before = {k: (float(v) if not isinstance(v, (list, torch.Tensor)) else None) for k, v in pg.items() if k != "params"}
        self.inner.update(pg, last=last, loss=loss, J=J, D=D, R=R, *a, **kw)
        after = {k: (float(v) if not isinstance(v, (list, torch.Tensor)) else None) for k, v in pg.items() if k != "params"}
        JD = (J @ D)
        den = float(-(JD.mT @ (2 * R + JD)).squeeze())
        self.log.append({"before": before, "after": after, "last": float(last), "loss": float(loss), "den": den,
                         "R": R.detach().reshape(-1).clone().numpy(), "JD": JD.detach().reshape(-1).clone().numpy()})


def make_strategy(spec):
    k = spec["kind"]
    if k == "Constant":
        return pp.optim.strategy.Constant(damping=spec["damping"])
    if k == "Adaptive":
        return pp.optim.strategy.Adaptive(damping=spec["damping"], high=spec["high"], low=spec["low"], up=spec["up"], down=spec["down"],
                                          min=spec["min"], max=spec["max"])
    return pp.optim.strategy.TrustRegion(radius=1.0 / spec["damping"], high=spec["high"], low=spec["low"], up=spec["up"], down=spec["down"],
                                         factor=spec["factor"], min=spec["min"], max=spec["max"])


def clampf(v, lo, hi):
    return max(lo, min(v, hi))


def check_transition(rec, spec, e, harness_last, harness_loss):
    """documented damping transition for one trial"""
    b, a = e["before"], e["after"]
    k = spec["kind"]
    rel = lambda x, y: abs(x - y) <= 1e-9 * max(abs(x), abs(y), 1e-300)
    # losses handed to the strategy are the true ones
    rec.check(rel(e["last"], harness_last) or abs(e["last"] - harness_last) < 1e-12, "strategy_last", "strategy received last=%.17g, true previous loss %.17g" % (e["last"], harness_last))
    if harness_loss is not None:
        rec.check(rel(e["loss"], harness_loss) or abs(e["loss"] - harness_loss) < 1e-12, "strategy_loss", "strategy received loss=%.17g, true trial loss %.17g" % (e["loss"], harness_loss))
    if k == "Constant":
        rec.check(a["damping"] == b["damping"], "damping:Constant", "Constant strategy changed the damping %r -> %r" % (b["damping"], a["damping"]))
        return
    num, den = harness_last - (harness_loss if harness_loss is not None else e["loss"]), e["den"]
    quality = num / den if den != 0 else float("nan")
    cls = None
    # near convergence actual and predicted decrease are both at rounding level of the loss: the ratio is numerical noise
    # (the harness' and pypose's losses legitimately differ in the last bits), so the documented branch is not determined
    noise = 256 * 2.220446049250313e-16 * max(abs(harness_last), abs(e["loss"]), 1e-300)
    q_rec = (e["last"] - e["loss"]) / den if den != 0 else float("nan")
    if abs(num) <= noise or abs(den) <= noise:
        cls = "ambiguous"
    elif math.isfinite(quality) and math.isfinite(q_rec) and any((quality > th) != (q_rec > th) for th in (spec["high"], spec["low"])):
        cls = "ambiguous"          # classification flips between the harness' and the recorded loss values
    if cls is None and math.isfinite(quality):
        for th in (spec["high"], spec["low"]):
            if abs(quality - th) <= 1e-6 * max(1.0, abs(th)):
                cls = "ambiguous"
        if cls is None:
            cls = "high" if quality > spec["high"] else ("mid" if quality > spec["low"] else "low")
    lo, hi = spec["min"], spec["max"]
    if k == "Adaptive":
        opts = {"high": clampf(b["damping"] * spec["down"], lo, hi), "mid": clampf(b["damping"], lo, hi), "low": clampf(b["damping"] * spec["up"], lo, hi)}
        rec.check(lo <= a["damping"] <= hi, "damping:range", "Adaptive damping %r outside [%r, %r]" % (a["damping"], lo, hi))
        if cls in opts:
            rec.check(rel(a["damping"], opts[cls]), "damping:Adaptive:" + cls, "quality %.6g (%s): damping %r -> %r, documented %r" % (quality, cls, b["damping"], a["damping"], opts[cls]))
        else:
            rec.check(any(rel(a["damping"], v) for v in opts.values()), "damping:Adaptive:any", "damping %r -> %r is none of the documented moves" % (b["damping"], a["damping"]))
        return
    # TrustRegion
    r0 = 1.0 / b["damping"]
    d0 = b["down"]
    opts = {"high": (clampf(r0 * spec["up"], lo, hi), clampf(spec["down"], lo, hi)), "mid": (clampf(r0, lo, hi), clampf(spec["down"], lo, hi)),
            "low": (clampf(r0 * d0, lo, hi), clampf(d0 * spec["factor"], lo, hi))}
    ra = a["radius"]
    rec.check(lo <= ra <= hi and lo <= a["down"] <= hi, "damping:range", "TrustRegion radius %r / down %r outside [%r, %r]" % (ra, a["down"], lo, hi))
    rec.check(rel(a["damping"], 1.0 / ra), "damping:TR:inverse", "damping %r is not 1/radius %r" % (a["damping"], ra))
    if cls in opts:
        rec.check(rel(ra, opts[cls][0]) and rel(a["down"], opts[cls][1]), "damping:TrustRegion:" + cls,
                  "quality %.6g (%s): radius %r -> %r down %r -> %r, documented radius %r down %r" % (quality, cls, r0, ra, d0, a["down"], opts[cls][0], opts[cls][1]))
    else:
        rec.check(any(rel(ra, v[0]) and rel(a["down"], v[1]) for v in opts.values()), "damping:TrustRegion:any", "radius %r -> %r (down %r -> %r) is none of the documented moves" % (r0, ra, d0, a["down"]))


def _big(state, lim=1e4):
    return bool(np.abs(state[0]).max() > lim or (state[1] is not None and np.abs(state[1]).max() > lim))


def state_dist(prob, s1, s2):
    d = float(np.abs(s1[0] - s2[0]).max())
    if prob.gkind:
        M1 = R.mat4("SE3" if prob.gkind == "SE3" else "SO3", s1[1]); M2 = R.mat4("SE3" if prob.gkind == "SE3" else "SO3", s2[1])
        d = max(d, float(np.abs(M1 - M2).max()) / max(1.0, float(np.abs(M1).max())))
    return d


def restore_tol(prob, steps):
    """how far Exp(-D) Exp(D) X (one pair per rejected trial) may be from X: round-off for Euclidean and SO3 parameters; for SE3
    the translation of Exp is accurate to sqrt(eps) only (C01: pypose evaluates (1 - cos t)/t^2 in closed form down to t = eps), so
    a rejected step with a ~1e-8 rad rotation part and translation tau comes back up to sqrt(eps) |tau| away"""
    tol = 1e-9 * max(1.0, max(steps, default=0.0))
    if prob.gkind == "SE3":
        tol += 4 * math.sqrt(np.finfo(np.float64).eps) * sum(steps)
    return tol


def retract_state(prob, s, D):
    th = s[0] + D[:prob.n]
    X = None
    if prob.gkind:
        d = D[prob.n:]
        if prob.gkind == "SE3":
            X = R.mul("SE3", R.exp_np("se3", d[:6]), s[1])
        else:
            X = R.mul("SO3", R.exp_np("so3", d[:3]), s[1])
    return (th, X)


def run_history(case, rec):
    prior = tu.crc(case, "prior") % 4 == 1
    prob = Problem(case["seed"], case["n"], case["gkind"], case["ill"], prior=prior)
    kern, kd = case["kernel"], case["kdelta"]
    strided = (case["seed"] + len(case["script"])) % 3 == 0
    net = Net(prob, strided=strided)
    rec.label("params:strided" if strided else "params:contiguous", "model:prior_residual_is_a_view_of_the_parameter" if prior else "model:atan")
    if strided and net.W.is_contiguous() and net.W.shape[0] > 1:
        raise core_HarnessError("strided parameter came out contiguous")
    solver = ScriptSolver(case["script"], net)
    solver.raise_at = int(case.get("raise_at", -1))
    lead = min(int(case.get("lead", 0)), case["reject"] + 1)
    strat = RecStrategy(make_strategy(case["strategy"]))
    kobj = KERNELS[kern](kd) if kern else None
    with rec.sut("LM()"):
        opt = pp.optim.LM(net, solver=solver, strategy=strat, kernel=kobj, reject=case["reject"], min=1e-6, max=1e32, vectorize=case["vectorize"])
    hl = lambda s: prob.loss(s[0], s[1], kern, kd)
    prev_state = net.state()
    prev_loss = hl(prev_state)
    any_reject = False
    pattern = []
    for stepi in range(case["nsteps"]):
        e0, l0 = len(solver.entries), len(strat.log)
        if lead and stepi == int(case.get("lead_at", 0)):
            solver.begin_call(lead)
        with rec.sut("LM.step"):
            ret = opt.step(torch.zeros(1))
        entries = solver.entries[e0:]
        logs = strat.log[l0:]
        cur = net.state()
        true_loss = hl(cur)
        xm = solver.xmax[e0:]
        finite_state = bool(np.all(np.isfinite(cur[0])) and (cur[1] is None or np.all(np.isfinite(cur[1]))))
        if not finite_state and not (_big(prev_state) or any(_big(st_) for _, st_ in entries) or any(not math.isfinite(v) or v > 1e4 for v in xm)):
            # bounded parameters, bounded finite steps, yet NaN/Inf parameters after the call: nothing in the stated domain excuses that
            rec.fail("nonfinite_parameters", "step %d left non-finite parameters although every trial started from bounded parameters and every solver answer was finite (trials %s, max |step| %s)" % (stepi, [s_ for s_, _ in entries], xm))
            break
        if not (math.isfinite(true_loss) and true_loss < 1e12) or _big(cur) or any(_big(st_) for _, st_ in entries):
            # diverged parameters make the forward evaluation itself ill-conditioned (atan of 1e13-sized cancelling sums):
            # outside the stated domain (bounded step scale) - stop this history here
            rec.label("diverged_stop")
            break
        ntr = len(entries)
        pattern.append(tuple(s for s, _ in entries))
        tol_l = 1e-9 * (1 + ntr) * max(1.0, abs(true_loss))
        # (1) reported loss is the true loss at the parameters left behind
        rec.check(abs(float(ret) - float(opt.loss)) == 0 or float(ret) == float(opt.loss), "ret_vs_attr", "step returned %r but optimizer.loss is %r" % (float(ret), float(opt.loss)))
        rec.check(abs(float(ret) - true_loss) <= tol_l, "reported_loss", lambda: "step %d returned loss %.17g but the robust loss at the parameters left behind is %.17g (trials %s)" % (stepi, float(ret), true_loss, [s for s, _ in entries]))
        # (5) trial budget
        rec.check(1 <= ntr <= case["reject"] + 1, "trial_budget", "step made %d trials with reject=%d" % (ntr, case["reject"]))
        rec.check(opt.reject_count == ntr - 1, "reject_count", "reject_count=%d after %d trials" % (opt.reject_count, ntr))
        # (3) every trial starts from the parameters the call started with (rejected trials are restored)
        for t_i, (sym, st_) in enumerate(entries):
            d = state_dist(prob, st_, prev_state)
            tol_r = restore_tol(prob, xm[:t_i])
            rec.notes["restore"] = max(rec.notes.get("restore", 0), d / tol_r)
            rec.check(d <= tol_r, "restore", lambda: "step %d trial %d (%s) started from parameters %.3g away from those before the previous (rejected) trial (tol %.3g)" % (stepi, t_i, sym, d, tol_r))
        if ntr >= 2:
            any_reject = True
        if ntr == case["reject"] + 1 and ntr >= 2:
            rec.label("exhausted:reject%s" % ("0-3" if case["reject"] <= 3 else "4-9" if case["reject"] <= 9 else "10-16"))
        last_sym = entries[-1][0] if entries else "none"
        if last_sym.startswith("raise:"):
            # (4) a raising solver: parameters and loss as before that trial
            d = state_dist(prob, cur, prev_state)
            rec.check(d <= restore_tol(prob, xm), "raise_restores", lambda: "solver raised at trial %d but parameters moved by %.3g" % (ntr - 1, d))
            rec.check(abs(float(ret) - prev_loss) <= 1e-9 * max(1.0, abs(prev_loss)), "raise_loss", "solver raised: returned loss %.17g, loss before %.17g" % (float(ret), prev_loss))
        # (2) never worse unless the rejections were exhausted
        if true_loss > prev_loss + 1e-9 * max(1.0, abs(prev_loss)):
            rec.check(opt.reject_count == case["reject"] and not last_sym.startswith("raise:"), "accepted_worse",
                      lambda: "step %d left a worse loss (%.17g > %.17g) with reject_count=%d < reject=%d (trials %s)" % (stepi, true_loss, prev_loss, opt.reject_count, case["reject"], [s for s, _ in entries]))
        # (6) damping transitions, one per successful solve
        solved = [e for e in entries if not e[0].startswith("raise:")]
        rec.check(len(logs) == len(solved), "strategy_calls", "%d strategy updates for %d solved trials" % (len(logs), len(solved)))
        for t_i, e in enumerate(logs):
            # the trial loss: for the last (kept) trial it is the loss at the current parameters, for rejected ones it is what the
            # strategy saw (cross-checked against the harness when the trial was the accepted one)
            hloss = true_loss if (t_i == len(logs) - 1 and not last_sym.startswith("raise:") and
                                  (true_loss <= prev_loss or opt.reject_count == case["reject"])) and state_dist(prob, cur, prev_state) > 0 else None
            # the residual handed to the strategy is the residual at the parameters the trial started from (the linearisation point of
            # the documented quality = actual / predicted decrease, predicted = -(J D)^T (2 R + J D)); without kernel it is the plain
            # concatenation of the model outputs.  The harness recomputes it from its own copy of those parameters and uses ITS value
            # for the predicted decrease (an R that aliases the model output is overwritten by the in-place update - seed C08h)
            if kern is None and t_i < len(solved):
                Rh = prob.resvec(solved[t_i][1])
                if rec.check(e["R"].shape == Rh.shape and float(np.abs(e["R"] - Rh).max()) <= 1e-9 * max(1.0, float(np.abs(Rh).max())), "strategy_R",
                             lambda: "step %d trial %d: the residual handed to the strategy differs from the residual at the parameters the trial started from by %.3g" % (stepi, t_i, float(np.abs(e["R"] - Rh).max()) if e["R"].shape == Rh.shape else float("nan"))):
                    rec.label("strategy_R_recomputed")
                e = dict(e, den=float(-(e["JD"] @ (2 * Rh + e["JD"]))))
            check_transition(rec, case["strategy"], e, prev_loss, hloss)
            if t_i + 1 < len(logs):
                nb, pa = logs[t_i + 1]["before"], e["after"]
                rec.check(nb["damping"] == pa["damping"], "damping:carry", "damping changed between trials outside the strategy: %r -> %r" % (pa["damping"], nb["damping"]))
        prev_state, prev_loss = cur, true_loss
    rec.label(case["strategy"]["kind"], "reject%d" % case["reject"], "g:%s" % case["gkind"], "kernel:%s" % kern)
    if any_reject:
        rec.nt((case["strategy"]["kind"], case["reject"], tuple(pattern), case["gkind"], case["n"]))


strat_spec = st.one_of(
    st.fixed_dictionaries({"kind": st.just("Constant"), "damping": st.sampled_from((1e-6, 1e-3, 1.0, 100.0))}),
    st.fixed_dictionaries({"kind": st.just("Adaptive"), "damping": st.sampled_from((1e-6, 1e-3, 1.0, 100.0)), "high": st.sampled_from((0.5, 0.75, 0.9)),
                           "low": st.sampled_from((1e-3, 0.1, 0.25)), "up": st.sampled_from((2.0, 3.0, 10.0)), "down": st.sampled_from((0.5, 0.1, 0.9)),
                           "min": st.sampled_from((1e-6, 1e-3, 0.5)), "max": st.sampled_from((1e16, 1e3, 4.0))}),
    st.fixed_dictionaries({"kind": st.just("TrustRegion"), "damping": st.sampled_from((1e-6, 1e-3, 1.0, 100.0)), "high": st.sampled_from((0.5, 0.75, 0.9)),
                           "low": st.sampled_from((1e-3, 0.1, 0.25)), "up": st.sampled_from((2.0, 3.0, 10.0)), "down": st.sampled_from((0.5, 0.1, 0.9)),
                           "factor": st.sampled_from((0.5, 0.1, 0.9)), "min": st.sampled_from((1e-6, 1e-3, 0.1)), "max": st.sampled_from((1e16, 1e3, 50.0))}))


class Histories(Sub):
    fuzz_runs = 3000
    name = "histories"
    n = {"quick": 700, "thorough": 20000}

    def strategy(self, tier):
        ns = 8 if tier == "quick" else 30
        return st.fixed_dictionaries({
            "seed": st.integers(0, 10 ** 6), "n": st.integers(1, 3), "gkind": st.sampled_from((None, "SO3", "SE3")), "ill": st.booleans(),
            "kernel": st.sampled_from((None, None, "Huber", "Cauchy")), "kdelta": st.sampled_from((0.3, 1.0)),
            "strategy": strat_spec, "reject": st.one_of(st.sampled_from((0, 1, 2, 2, 3, 3, 5, 16)), st.integers(0, 16)), "vectorize": st.booleans(),
            "nsteps": st.integers(1, ns), "script": st.lists(st.sampled_from(SYMS + ("ok", "asc", "asc", "asc", "big", "big")), min_size=2, max_size=40),
            # "the first k trials increase the loss, k = 0..reject+1": i.i.d. symbols never produce 17 ascents in a row, so a run of
            # `lead` ascents is put in front of the script at call number `lead_at` (lead is cut to reject+1 in the oracle)
            "lead": st.one_of(st.just(0), st.integers(0, 17)), "lead_at": st.integers(0, 2),
            # the solver raises at the j-th solve of the run, for j beyond the script too
            "raise_at": st.one_of(st.just(-1), st.just(-1), st.integers(0, 120))})

    def oracle(self, case, rec):
        run_history(case, rec)

    def valid(self, case):
        s = case["strategy"]
        return s["damping"] > 0 and (s["kind"] == "Constant" or (0 < s["min"] <= s["max"] and 0 < s["down"] < 1 < s["up"] and s["high"] > 0 and s["low"] > 0)) and case["kdelta"] > 0

    def simplify(self, case):
        sc = case["script"]
        if case["nsteps"] > 1:
            yield dict(case, nsteps=case["nsteps"] - 1)
        for i in range(len(sc)):
            yield dict(case, script=sc[:i] + sc[i + 1:])
        for i in range(len(sc)):
            if sc[i] != "ok":
                yield dict(case, script=sc[:i] + ["ok"] + sc[i + 1:])
        if case["gkind"]:
            yield dict(case, gkind=None)
        if case["kernel"]:
            yield dict(case, kernel=None)


class Patterns(Sub):
    name = "patterns"
    kind = "enum"
    exhaustive = True

    def cases(self, tier):
        alpha = ("ok", "zero", "asc", "raise:RuntimeError")
        for reject in range(0, 3 if tier == "quick" else 4):
            for pat in itertools.product(alpha, repeat=reject + 2):
                for kind in ("Constant", "Adaptive", "TrustRegion"):
                    spec = {"kind": kind, "damping": 1e-3, "high": 0.5, "low": 1e-3, "up": 2.0, "down": 0.5, "factor": 0.5, "min": 1e-6, "max": 1e16}
                    yield {"seed": 11 + reject, "n": 2, "gkind": "SE3" if reject % 2 else None, "ill": False, "kernel": None, "kdelta": 1.0, "strategy": spec,
                           "reject": reject, "vectorize": False, "nsteps": 2, "script": list(pat)}

    def oracle(self, case, rec):
        run_history(case, rec)


class GNHist(Sub):
    name = "gn"
    n = {"quick": 300, "thorough": 6000}

    def strategy(self, tier):
        return st.fixed_dictionaries({"seed": st.integers(0, 10 ** 6), "n": st.integers(1, 3), "gkind": st.sampled_from((None, "SO3", "SE3")),
                                      "kernel": st.sampled_from((None, "Huber", "Cauchy")), "kdelta": st.sampled_from((0.3, 1.0)),
                                      "nsteps": st.integers(1, 6), "solver": st.sampled_from(("PINV", "LSTSQ"))})

    def oracle(self, case, rec):
        prob = Problem(case["seed"], case["n"], case["gkind"], False)
        kern, kd = case["kernel"], case["kdelta"]
        net = Net(prob)
        kobj = KERNELS[kern](kd) if kern else None
        sol = pp.optim.solver.PINV() if case["solver"] == "PINV" else pp.optim.solver.LSTSQ()
        opt = pp.optim.GN(net, solver=sol, kernel=kobj, vectorize=False)
        hl = lambda s: prob.loss(s[0], s[1], kern, kd)
        prev = hl(net.state())
        for i in range(case["nsteps"]):
            with rec.sut("GN.step"):
                ret = opt.step(torch.zeros(1))
            cur = hl(net.state())
            if not (math.isfinite(cur) and cur < 1e12) or _big(net.state()):
                rec.label("diverged_stop")
                break
            rec.check(abs(float(ret) - cur) <= 1e-9 * max(1.0, abs(cur)), "gn_reported_loss", "GN step %d returned %.17g, true loss at the new parameters %.17g" % (i, float(ret), cur))
            rec.check(float(ret) == float(opt.loss), "gn_ret_vs_attr", "GN returned %r but optimizer.loss is %r" % (float(ret), float(opt.loss)))
            rec.check(abs(float(opt.last) - prev) <= 1e-9 * max(1.0, abs(prev)), "gn_last", "GN optimizer.last %.17g is not the previous loss %.17g" % (float(opt.last), prev))
            prev = cur
        rec.label("g:%s" % case["gkind"], "kernel:%s" % kern)
        if case["nsteps"] >= 2:
            rec.nt(("gn", case["gkind"], kern, case["nsteps"], case["solver"]))


SUBS = [Histories(), Patterns(), GNHist()]


def selftest():
    # the harness' loss equals a direct numpy evaluation on a hand example
    prob = Problem(3, 2, "SE3", False)
    l0 = prob.loss(prob.theta0, prob.X0, None, 1.0)
    r1 = np.arctan(prob.c * (prob.a @ prob.theta0)) - prob.y
    r2 = (R.mat4("SE3", prob.X0) @ np.concatenate([prob.p, np.ones((4, 1))], 1).T).T[:, :3] - prob.q
    assert abs(l0 - (np.sum(r1 ** 2) + np.sum(r2 ** 2))) < 1e-12
