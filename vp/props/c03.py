"""C03 - group product, inverse, identity and point action obey the group laws."""
import math
import numpy as np
import torch
import pypose as pp
from hypothesis import strategies as st

from ..core import Sub
from ..ref import lie as R
from .. import tu, gen

PROPERTY = "C03"
RULE = ("laws: Hypothesis draws triples X,Y,Z of one group type (generators of C02: both quaternion hemispheres, "
        "angles at 0/pi, |w|~0, |v|~0, translations 0..1e3 from the regime table, scales 1, 1+-2^k eps, e^[-4,4] and extreme 10^[-18,18] (10^[-10,10] in float32)) and "
        "points p in R^3, R^4 (w in {0,1,random}); the reference matrix M(X) is built from the raw components by the "
        "textbook quaternion formula in float64 (3x3 R, 4x4 [sR t;0 1]).  Checked: matrix()==M(X) and its blocks equal "
        "rotation()/translation()/scale(); M(X@Y)=M(X)M(Y); associativity; X@Inv(X)=Inv(X)@X=I; identity constructors "
        "neutral on both sides; Act on 3- and 4-vectors == M p; (X@Y).Act(p)=X.Act(Y.Act(p)); X@p and X*p == Act. "
        "Tolerance 32*eps*prod(|M|_inf of the factors)*(1+|p|).  history: run-length encoded histories (<=1500 steps "
        "quick, 10^4 thorough) of left/right products, Inv, add_, +, Retr (increment magnitude per block from {0.3, 1e-2, 7e-4, 1e-6}) on ONE element against a float64 matrix "
        "model; after EVERY step | |q|-1 | <= 4 eps (1+n), scale>0 and |matrix - model| <= 256 eps (1+n) * running "
        "scale.  Non-trivial: triple with pairwise non-commuting rotations and non-zero translations; history with "
        ">=1 Inv, >=1 retraction and >=100 steps.  distinct = (ltype, dtype, regimes) / (ltype, dtype, rule multiset, length class).")
ASSUMPTIONS = ["valid group inputs (unit quaternion up to rounding, positive scale in [e^-4,e^4] for laws, |t|<=1e3)",
               "history increments bounded (|log-scale step| <= 0.1, steered to keep the scale within [e^-8, e^8])"]


def _inf(M):
    return float(np.abs(M).sum(axis=1).max())


def _mat_of(lt, Xn):
    return R.mat4(lt, Xn)


def _out_mat(lt, M):
    """pypose matrix() -> 4x4 numpy"""
    M = np.asarray(M)
    if M.shape[-1] == 3:
        E = np.eye(4); E[:3, :3] = M
        return E
    return M


class Laws(Sub):
    name = "laws"
    n = {"quick": 12000, "thorough": 300000}

    def strategy(self, tier):
        @st.composite
        def s(draw):
            lt = draw(st.sampled_from(R.GROUPS))
            dtype = draw(st.sampled_from(gen.DTYPES))
            els, regs = [], []
            generic = draw(st.booleans())     # half of the triples get generic (non-commuting) rotations
            for _ in range(3):
                X, reg = draw(gen.group(lt, dtype, slo=-4.0, shi=4.0))
                if generic:
                    q = [draw(st.floats(-1, 1)) for _ in range(4)]
                    nq = math.sqrt(sum(c * c for c in q))
                    if nq > 1e-2:
                        q = gen.rnd_list([c / nq for c in q], dtype)
                        o = 3 if lt in ("SE3", "Sim3") else 0
                        X = X[:o] + q + X[o + 4:]
                        reg = dict(reg, q="rand")
                if lt in ("RxSO3", "Sim3") and draw(st.integers(0, 4)) == 0:
                    # extreme but valid positive scales (far below eps / far above 1/eps of the dtype)
                    E = 18 if dtype == "float64" else 10
                    X = X[:-1] + [gen.rnd(10.0 ** draw(st.integers(-E, E)) * draw(st.floats(1.0, 9.0)), dtype)]
                    reg = dict(reg, s="s:extreme")
                els.append(X); regs.append(reg)
            p3, _ = draw(gen.vec3(dtype, cap=1e3))
            w = draw(st.sampled_from((0.0, 1.0, 1.0, -2.5, 0.37)))
            return {"ltype": lt, "dtype": dtype, "X": els[0], "Y": els[1], "Z": els[2], "regs": regs,
                    "p": gen.rnd_list(p3, dtype), "w": gen.rnd(w, dtype)}
        return s()

    def oracle(self, case, rec):
        lt, dtype = case["ltype"], case["dtype"]
        eps = tu.EPS[dtype]
        Xn, Yn, Zn = (np.array(case[k]) for k in "XYZ")
        X, Y, Z = (tu.lie(lt, case[k], dtype) for k in "XYZ")
        MX, MY, MZ = (_mat_of(lt, v) for v in (Xn, Yn, Zn))
        nX, nY, nZ = _inf(MX), _inf(MY), _inf(MZ)
        rec.label(lt, dtype)
        # non-triviality: pairwise non-commuting rotations and non-zero translations
        def comm(A, B):
            return R.rot_angle((A[:3, :3] @ B[:3, :3] @ A[:3, :3].T @ B[:3, :3].T) / 1.0) if True else 0
        RX, RY, RZ = (R.qrot(R.split_group(lt, v)[1]) for v in (Xn, Yn, Zn))
        nc = min(R.rot_angle(RX @ RY @ RX.T @ RY.T), R.rot_angle(RY @ RZ @ RY.T @ RZ.T), R.rot_angle(RX @ RZ @ RX.T @ RZ.T))
        tnz = lt in ("SO3", "RxSO3") or all(np.linalg.norm(R.split_group(lt, v)[0]) > 0 for v in (Xn, Yn, Zn))
        if nc > 1e-3 and tnz:
            rec.nt((lt, dtype, tuple(gen.regime_key(r) for r in case["regs"])))

        def close(bucket, got, want, scale, what):
            got = np.asarray(got, dtype=np.float64)
            if not np.all(np.isfinite(got)):
                rec.fail("nonfinite:" + bucket, "%s is not finite: %s" % (what, got.tolist()))
                return
            tol = 32 * eps * scale
            err = float(np.abs(got - want).max())
            key = "r_" + bucket.split(":")[0]
            rec.notes[key] = max(rec.notes.get(key, 0), err / tol)
            rec.check(err <= tol, "%s:%s:%s" % (bucket, lt, dtype), lambda: "%s: max error %.3g > tol %.3g (X=%s Y=%s Z=%s)"
                      % (what, err, tol, case["X"], case["Y"], case["Z"]))

        with rec.sut("group ops"):
            mX = tu.npy(X.matrix())
            XY = X @ Y
            XY2 = X * Y
            XY_Z = (X @ Y) @ Z
            X_YZ = X @ (Y @ Z)
            Xi = X.Inv()
            XXi, XiX = X @ Xi, Xi @ X
            rot, tr, sc = X.rotation(), X.translation() if lt in ("SE3", "Sim3") else None, X.scale() if lt in ("RxSO3", "Sim3") else None
            I1 = getattr(pp, "identity_" + lt)(dtype=tu.TD[dtype])
            I2 = pp.identity_like(X, dtype=tu.TD[dtype])     # documented: dtype defaults to the global default
            try:
                I3 = X.clone().identity_()
            except NotImplementedError:                       # only some types provide the in-place form
                I3 = None
                rec.label("identity_:not_implemented:" + lt)
        # (a) representation
        close("matrix", _out_mat(lt, mX), MX, nX, "X.matrix() vs textbook matrix")
        t, q, s = R.split_group(lt, Xn)
        rec.check(isinstance(rot, pp.LieTensor) and rot.ltype == pp.SO3_type, "rotation_type", "rotation() is not SO3")
        close("rotblock", tu.npy(rot.matrix()) * s, MX[:3, :3], nX, "scale()*rotation().matrix() vs matrix block")
        close("rotcomp", tu.npy(rot), q, 1.0, "rotation() components")
        if tr is not None:
            close("transblock", tu.npy(tr), MX[:3, 3], max(1.0, float(np.abs(t).max())), "translation() vs matrix column")
        if sc is not None:
            close("scaleblock", tu.npy(sc).reshape(-1), [s], s, "scale()")
        # (b) homomorphism, associativity, inverse, identity
        for name, P in (("X@Y", XY), ("X*Y", XY2)):
            rec.check(isinstance(P, pp.LieTensor) and P.ltype == tu.LT[lt], "prod_type", "%s is not a %s LieTensor" % (name, lt))
            close("homomorphism", _mat_of(lt, tu.npy(P)), MX @ MY, nX * nY, "M(%s) vs M(X)M(Y)" % name)
            close("homomorphism_m", _out_mat(lt, tu.npy(P.matrix())), MX @ MY, nX * nY, "(%s).matrix() vs M(X)M(Y)" % name)
        ref3 = MX @ MY @ MZ
        close("assoc_l", _mat_of(lt, tu.npy(XY_Z)), ref3, nX * nY * nZ, "(X@Y)@Z vs M(X)M(Y)M(Z)")
        close("assoc_r", _mat_of(lt, tu.npy(X_YZ)), ref3, nX * nY * nZ, "X@(Y@Z) vs M(X)M(Y)M(Z)")
        MXi = np.linalg.inv(MX)
        close("inverse", _mat_of(lt, tu.npy(Xi)), MXi, _inf(MXi) * max(1.0, nX / max(abs(s), 1e-300) * abs(s)), "Inv(X) vs M(X)^-1")
        close("inv_right", _mat_of(lt, tu.npy(XXi)), np.eye(4), nX * _inf(MXi), "X@Inv(X) vs I")
        close("inv_left", _mat_of(lt, tu.npy(XiX)), np.eye(4), nX * _inf(MXi), "Inv(X)@X vs I")
        for nm, I in (("identity_%s()" % lt, I1), ("identity_like", I2), ("identity_()", I3)):
            if I is None:
                continue
            if not rec.check(isinstance(I, pp.LieTensor) and I.ltype == tu.LT[lt] and I.dtype == tu.TD[dtype],
                             "identity_type", "%s has wrong type/ltype/dtype" % nm):
                continue
            close("identity_value", _mat_of(lt, tu.npy(I).reshape(-1)), np.eye(4), 1.0, nm + " is not the identity")
            with rec.sut("identity product"):
                L, Rr = I.reshape(X.shape) @ X, X @ I.reshape(X.shape)
            close("identity_left", tu.npy(L), Xn, max(1.0, float(np.abs(Xn).max())), nm + " @ X vs X")
            close("identity_right", tu.npy(Rr), Xn, max(1.0, float(np.abs(Xn).max())), "X @ " + nm + " vs X")
        # (a') the same laws on BATCHES whose second operand broadcasts along a non-leading batch dimension: Act with points (2,1,k)
        # and @ with a right factor of lshape (2,1) against a left operand of lshape (2,2) built from X, Y, Z, X - per item the
        # reference matrices (a tiled instead of a broadcast second operand keeps shape and dtype but pairs the wrong items)
        with rec.sut("batched Act / @ with a broadcasting second operand"):
            Xb = pp.LieTensor(torch.stack([X.tensor(), Y.tensor(), Z.tensor(), X.tensor()], 0).reshape(2, 2, -1), ltype=tu.LT[lt])
            Yb = pp.LieTensor(torch.stack([Z.tensor(), Y.tensor()], 0).reshape(2, 1, -1), ltype=tu.LT[lt])
            pb3 = torch.stack([tu.tens(case["p"], dtype), -2.0 * tu.tens(case["p"], dtype) + 0.5], 0).reshape(2, 1, 3)
            pb4 = torch.cat([pb3, torch.tensor([[[case["w"]]], [[1.0]]], dtype=tu.TD[dtype])], -1)
            ab3, ab4, mb = Xb.Act(pb3), Xb.Act(pb4), Xb @ Yb
        Ms = [[MX, MY], [MZ, MX]]
        Mr = [MZ, MY]
        pbn3, pbn4 = tu.npy(pb3), tu.npy(pb4)
        if rec.check(tuple(ab3.shape) == (2, 2, 3) and tuple(ab4.shape) == (2, 2, 4) and tuple(mb.shape) == (2, 2, X.shape[-1]), "batched_shape",
                     "batched Act / @ result shapes %s %s %s" % (tuple(ab3.shape), tuple(ab4.shape), tuple(mb.shape))):
            for i_ in range(2):
                for j_ in range(2):
                    Mij = Ms[i_][j_]
                    sp_ = 1 + float(np.abs(pbn4[i_, 0]).sum())
                    close("batched_act3", tu.npy(ab3)[i_, j_], (Mij @ np.append(pbn3[i_, 0], 1.0))[:3], _inf(Mij) * sp_, "Xb.Act(p) item (%d,%d), p broadcast along dim 1" % (i_, j_))
                    close("batched_act4", tu.npy(ab4)[i_, j_], Mij @ pbn4[i_, 0], _inf(Mij) * sp_, "Xb.Act(p4) item (%d,%d), p4 broadcast along dim 1" % (i_, j_))
                    close("batched_mul", _mat_of(lt, tu.npy(mb)[i_, j_]), Mij @ Mr[i_], _inf(Mij) * _inf(Mr[i_]), "(Xb @ Yb) item (%d,%d), Yb broadcast along dim 1" % (i_, j_))
        # (a'') the in-place identity_() on a VIEW of a larger batch whose strides cannot be merged (a slice of the second batch
        # dimension, every other row, a transposed batch, one column): "set the LieTensor to identity" is about the receiver's
        # storage - the receiver and the part of the base it addresses become the identity, the rest of the base is untouched
        # (an implementation that reshapes first writes into a temporary copy - seed C03h)
        with rec.sut("identity_() on a view"):
            base = torch.stack([X.tensor(), Y.tensor(), Z.tensor()] * 4, 0).reshape(3, 4, -1).clone()
            base0 = base.clone()
            Lb = pp.LieTensor(base, ltype=tu.LT[lt])
            vk = tu.crc(case) % 4
            V = (Lb[:, :2], Lb[::2], Lb.transpose(0, 1), Lb[:, 1])[vk]
            mask = torch.zeros(3, 4, dtype=torch.bool)
            (mask[:, :2], mask[::2], mask, mask[:, 1])[vk][...] = True
            try:
                Vr = V.identity_()
            except NotImplementedError:
                Vr = None
        if Vr is not None:
            rec.label("identity_view:%d" % vk)
            for nm, I in (("returned", Vr), ("receiver", V)):
                for row in tu.npy(I.tensor() if isinstance(I, pp.LieTensor) else I).reshape(-1, R.GDIM[lt]):
                    close("identity_view_value", _mat_of(lt, row), np.eye(4), 1.0, "view.identity_() [%s, view kind %d] is not the identity" % (nm, vk))
            for row in tu.npy(base[mask]).reshape(-1, R.GDIM[lt]):
                close("identity_view_storage", _mat_of(lt, row), np.eye(4), 1.0, "the storage addressed by view.identity_() (view kind %d) was not set to the identity" % vk)
            rec.check(torch.equal(base[~mask], base0[~mask]), "identity_view_outside", "view.identity_() changed items of the base outside the view (view kind %d)" % vk)
        # (b') identities have no memory: an identity element that was updated in place (add_, the documented in-place update - what
        # an optimiser does to a parameter initialised with identity_X()) must not change what the constructors return next
        # (a shared template / cache handed out by reference - seed C03e).  All spellings and sizes of the request.
        alt = R.ALG_OF[lt]
        with rec.sut("identity after an in-place update of an earlier identity"):
            a_upd = pp.LieTensor(torch.tensor(np.resize(np.array(case["p"] + [0.3, -0.2, 0.1, 0.05]), R.ADIM[alt]), dtype=tu.TD[dtype]), ltype=tu.LT[alt])
            for mk in (lambda: getattr(pp, "identity_" + lt)(dtype=tu.TD[dtype]), lambda: getattr(pp, "identity_" + lt)(1, dtype=tu.TD[dtype]),
                       lambda: pp.identity_like(X, dtype=tu.TD[dtype])):
                J = mk()
                J.add_(a_upd.reshape(J.shape[:-1] + (R.ADIM[alt],)) if J.dim() > 1 else a_upd)
            again = [("identity_%s()" % lt, getattr(pp, "identity_" + lt)(dtype=tu.TD[dtype])),
                     ("identity_%s(1)" % lt, getattr(pp, "identity_" + lt)(1, dtype=tu.TD[dtype])),
                     ("identity_%s(2)" % lt, getattr(pp, "identity_" + lt)(2, dtype=tu.TD[dtype])),
                     ("identity_like", pp.identity_like(X, dtype=tu.TD[dtype])),
                     ("identity_%s() [algebra]" % alt, getattr(pp, "identity_" + alt)(dtype=tu.TD[dtype]).Exp())]
        for nm, I in again:
            for row in tu.npy(I).reshape(-1, R.GDIM[lt]):
                close("identity_after_update", _mat_of(lt, row), np.eye(4), 1.0, nm + " requested after an earlier identity was updated in place is not the identity")
        # (c) action
        p3 = np.array(case["p"]); p4 = np.array(case["p"] + [case["w"]])
        P3, P4 = tu.tens(case["p"], dtype), tu.tens(case["p"] + [case["w"]], dtype)
        with rec.sut("Act"):
            a3, a4 = X.Act(P3), X.Act(P4)
            m3, s3 = X @ P3, X * P3
            m4 = X @ P4
            c3, c3b = (X @ Y).Act(P3), X.Act(Y.Act(P3))
            c4, c4b = (X @ Y).Act(P4), X.Act(Y.Act(P4))
        sp = 1 + float(np.abs(p4).sum())
        close("act3", tu.npy(a3), (MX @ np.append(p3, 1.0))[:3], nX * sp, "X.Act(p3) vs M p")
        close("act4", tu.npy(a4), MX @ p4, nX * sp, "X.Act(p4) vs M p4")
        close("matmul_pt", tu.npy(m3), (MX @ np.append(p3, 1.0))[:3], nX * sp, "X @ p vs M p")
        close("mul_pt", tu.npy(s3), (MX @ np.append(p3, 1.0))[:3], nX * sp, "X * p vs M p")
        close("matmul_pt4", tu.npy(m4), MX @ p4, nX * sp, "X @ p4 vs M p4")
        w3 = (MX @ MY @ np.append(p3, 1.0))[:3]
        close("act_comp3", tu.npy(c3), w3, nX * nY * sp, "(X@Y).Act(p)")
        close("act_comp3b", tu.npy(c3b), w3, nX * nY * sp, "X.Act(Y.Act(p))")
        close("act_comp4", tu.npy(c4), MX @ MY @ p4, nX * nY * sp, "(X@Y).Act(p4)")
        close("act_comp4b", tu.npy(c4b), MX @ MY @ p4, nX * nY * sp, "X.Act(Y.Act(p4))")
        for o, k in ((a3, 3), (a4, 4)):
            rec.check(type(o) is torch.Tensor and o.shape == (k,), "act_type", "Act returned %s shape %s" % (type(o).__name__, tuple(o.shape)))


RULES = ("lmul", "rmul", "inv", "add_", "plus", "retr")


class History(Sub):
    name = "history"
    n = {"quick": 160, "thorough": 1200}
    budget_s = {"quick": 150.0, "thorough": 3000.0}

    def strategy(self, tier):
        maxrep = 300 if tier == "quick" else 2000
        maxlen = 1500 if tier == "quick" else 10000

        @st.composite
        def s(draw):
            lt = draw(st.sampled_from(R.GROUPS))
            dtype = draw(st.sampled_from(gen.DTYPES))
            x0, _ = draw(gen.group(lt, dtype, tcap=2.0, slo=-1.0, shi=1.0))
            nb = draw(st.integers(1, 24))
            blocks, total = [], 0
            for _ in range(nb):
                rule = draw(st.sampled_from(RULES))
                rep = draw(st.one_of(st.integers(1, 8), st.integers(1, maxrep)))
                rep = min(rep, maxlen - total)
                if rep <= 0:
                    break
                total += rep
                # increment magnitude class of this block (retraction rules): generic, small, below 1e-3, tiny
                blocks.append([rule, draw(st.integers(0, 2 ** 31 - 1)), rep, draw(st.sampled_from((0.3, 0.3, 1e-2, 7e-4, 1e-6)))])
            return {"ltype": lt, "dtype": dtype, "x0": x0, "blocks": blocks}
        return s()

    def oracle(self, case, rec):
        lt, dtype = case["ltype"], case["dtype"]
        alt = R.ALG_OF[lt]
        eps = tu.EPS[dtype]
        X = tu.lie(lt, case["x0"], dtype)
        M = R.mat4(lt, np.array(case["x0"]))
        n = 0
        smax = max(1.0, float(np.abs(M).max()))
        invmax, drift = 1.0, 0.0
        used = set()
        td = tu.TD[dtype]
        for blk in case["blocks"]:
            rule, seed, rep = blk[0], blk[1], blk[2]
            ascale = blk[3] if len(blk) > 3 else 0.3
            rs = np.random.RandomState(seed)
            for _ in range(rep):
                n += 1
                used.add(rule)
                with rec.sut("history:" + rule):
                    if rule in ("lmul", "rmul"):
                        q = rs.randn(4); q /= np.linalg.norm(q)
                        g = R.join_group(lt, rs.randn(3), q, math.exp(0.1 * rs.uniform(-1, 1)))
                        # steer the scale back towards 1
                        if lt in ("RxSO3", "Sim3"):
                            cur = abs(np.linalg.det(M[:3, :3])) ** (1 / 3)
                            if (cur > 50 and g[-1] > 1) or (cur < 0.02 and g[-1] < 1):
                                g[-1] = 1.0 / g[-1]
                        G = pp.LieTensor(torch.tensor(g, dtype=td), ltype=tu.LT[lt])
                        Mg = R.mat4(lt, tu.npy(G))
                        if rule == "lmul":
                            X = G @ X; M = Mg @ M
                        else:
                            X = X @ G; M = M @ Mg
                        smax = max(smax, float(np.abs(Mg).max()))
                    elif rule == "inv":
                        X = X.Inv(); M = np.linalg.inv(M)
                    else:
                        a = ascale * rs.randn(R.ADIM[alt])
                        if alt in ("rxso3", "sim3"):
                            a[-1] = min(0.1, ascale) * rs.uniform(-1, 1)
                            cur = abs(np.linalg.det(M[:3, :3])) ** (1 / 3)
                            if (cur > 50 and a[-1] > 0) or (cur < 0.02 and a[-1] < 0):
                                a[-1] = -a[-1]
                        A = pp.LieTensor(torch.tensor(a, dtype=td), ltype=tu.LT[alt])
                        Ma = R.mat4(lt, R.exp_np(alt, tu.npy(A)))
                        if rule == "add_":
                            X.add_(A)
                        elif rule == "plus":
                            X = X + A
                        else:
                            X = X.Retr(A)
                        M = Ma @ M
                        smax = max(smax, float(np.abs(Ma).max()))
                smax = max(smax, float(np.abs(M).max()))
                Xn = tu.npy(X)
                t, q, s = R.split_group(lt, Xn)
                if not np.all(np.isfinite(Xn)):
                    rec.fail("history:nonfinite", "step %d (%s): element became %s" % (n, rule, Xn.tolist()))
                    return
                qd = abs(float(np.linalg.norm(q)) - 1)
                rec.notes["qdrift/n"] = max(rec.notes.get("qdrift/n", 0), qd / (4 * eps * (1 + n)))
                if not rec.check(qd <= 4 * eps * (1 + n), "history:quatnorm:%s:%s" % (lt, dtype),
                                 "step %d (%s): | |q|-1 | = %.3g > 4 eps (1+n)" % (n, rule, qd)):
                    return
                if not rec.check(s > 0, "history:scale", "step %d (%s): scale %r not positive" % (n, rule, s)):
                    return
                err = float(np.abs(R.mat4(lt, Xn) - M).max())
                if rule == "inv":
                    # Inv of SE3 / Sim3 does not renormalise the quaternion: with |q|^2 - 1 = d every Inv adds d (R - I) t to the
                    # translation - a systematic drift (valid within "up to accumulated round-off", but not linear in n), and the
                    # amplification by |M^-1| of an inv step stays with the element afterwards (found by the false-alarm audit:
                    # ratio 0.43 on a constructed in-domain history, predicted to grow like n^1.5)
                    invmax = max(invmax, float(np.abs(np.linalg.inv(M)).max()))
                    drift += 4 * abs(float(np.dot(q, q)) - 1.0) * (float(np.abs(t).max()) if len(t) else 0.0) * invmax
                tol = 256 * eps * (1 + n) * smax * max(1.0, invmax) + drift
                rec.notes["mdrift/n"] = max(rec.notes.get("mdrift/n", 0), err / tol)
                if not rec.check(err <= tol, "history:matrix:%s:%s" % (lt, dtype),
                                 "step %d (%s): element's matrix deviates from the float64 model by %.3g > %.3g" % (n, rule, err, tol)):
                    return
        rec.label(lt, dtype, "len>=100" if n >= 100 else "len<100")
        if "inv" in used and (used & {"add_", "plus", "retr"}) and n >= 100:
            rec.nt((lt, dtype, tuple(sorted(used)), int(math.log2(n))))

    def simplify(self, case):
        b = case["blocks"]
        for i in range(len(b)):
            yield dict(case, blocks=b[:i] + b[i + 1:])
        for i in range(len(b)):
            if b[i][2] > 1:
                for r in sorted({1, b[i][2] // 2, b[i][2] - 1}):
                    if 1 <= r < b[i][2]:
                        yield dict(case, blocks=b[:i] + [[b[i][0], b[i][1], r] + b[i][3:]] + b[i + 1:])
        if case["dtype"] == "float32":
            yield dict(case, dtype="float64")

    def size(self, case):
        return sum(b[2] for b in case["blocks"]) * 100 + len(case["blocks"])


SUBS = [Laws(), History()]


def selftest():
    rs = np.random.RandomState(3)
    for lt in R.GROUPS:
        q = rs.randn(4); q /= np.linalg.norm(q)
        X = R.join_group(lt, rs.randn(3), q, 1.7)
        M = R.mat4(lt, X)
        assert np.allclose(R.mat4(lt, R.inv(lt, X)), np.linalg.inv(M), atol=1e-13)
        Rm = M[:3, :3] / (1.7 if lt in ("RxSO3", "Sim3") else 1.0)
        assert np.allclose(Rm @ Rm.T, np.eye(3), atol=1e-14) and np.linalg.det(Rm) > 0
