"""C06 - batching / broadcasting / views are transparent; pure ops never mutate inputs."""
import copy, importlib, itertools, math, warnings
import numpy as np
import torch
import pypose as pp
from hypothesis import strategies as st

from ..core import Sub, dhash
from ..ref import lie as R
from .. import tu, gen

PROPERTY = "C06"
RULE = ("broadcast_binary / broadcast_unary: EXHAUSTIVE enumeration of lshapes with extents {0,1,2,3} (quick: rank<=2, 21 shapes, all "
        "broadcastable ordered pairs; thorough: rank<=3, 85 shapes) x 4 group types (8 ltypes for unary ops) x binary ops {@, *, Act3, "
        "Act4, Adj, AdjT, Jinvp, Retr, +} / unary ops {Exp, Log, Inv, matrix, rotation, translation, scale, euler, Jr, tensor, "
        "identity_like, randn_like}: the batched result must equal the op applied item by item to unbatched elements under torch "
        "broadcasting (8 eps), with the documented Python type, ltype, lshape = broadcast shape, dtype.  handled: Hypothesis programs of "
        "1..4 calls drawn from a template for EVERY name in HANDLED_FUNCTIONS (arguments keep the last dimension intact) applied in "
        "parallel to a LieTensor and to its plain tensor: every output must be a LieTensor of the same ltype with bit-identical data; "
        "pp.Parameter round trips (deepcopy, clone, detach, to).  nomutate: a table of public callables (LieTensor ops, pp.* functions, "
        "metrics, kernels, correctors, solvers, module forwards) called on generated arguments; every tensor argument is snapshotted and "
        "compared bitwise afterwards.  restore: a function that performs k LieTensor ops then raises (4 exception types) under "
        "pp.retain_ltype(), pp.func.jacrev, nested and repeated: the three patched torch attributes must be the ORIGINAL objects "
        "afterwards and plain torch.func.jacrev still works.  Non-trivial: shapes differ with an expanded extent-1 dim or an empty dim; "
        "programs that change rank or reorder batch dims; calls with >= 1 tensor argument of >= 2 elements; k >= 1.")
ASSUMPTIONS = ["cpu only (no other device in the sandbox)",
               "functions that cannot keep the last dimension (masked_select, take) are outside the statement: only data equality is checked",
               "module buffers / internal state are not 'arguments' (only tensor arguments must stay unchanged)"]

EXT = (0, 1, 2, 3)


def shapes(max_rank):
    out = [()]
    for r in range(1, max_rank + 1):
        out += list(itertools.product(EXT, repeat=r))
    return out


def _rand_group(lt, shape, rs, dtype):
    n = int(np.prod(shape)) if len(shape) else 1
    q = rs.randn(n, 4); q /= np.linalg.norm(q, axis=1, keepdims=True)
    t = rs.randn(n, 3); s = np.exp(0.3 * rs.randn(n, 1))
    d = {"SO3": q, "SE3": np.concatenate([t, q], 1), "RxSO3": np.concatenate([q, s], 1), "Sim3": np.concatenate([t, q, s], 1)}[lt]
    return pp.LieTensor(torch.tensor(d, dtype=tu.TD[dtype]).reshape(tuple(shape) + (d.shape[1],)), ltype=tu.LT[lt])


def _rand_alg(lt, shape, rs, dtype, scale=0.7):
    n = int(np.prod(shape)) if len(shape) else 1
    d = scale * rs.randn(n, R.ADIM[lt])
    if lt in ("rxso3", "sim3"):
        d[:, -1] *= 0.3
    return pp.LieTensor(torch.tensor(d, dtype=tu.TD[dtype]).reshape(tuple(shape) + (R.ADIM[lt],)), ltype=tu.LT[lt])


def _itemwise(f, out_shape, operands):
    """apply f to unbatched items of the broadcast operands; returns list of results in C order"""
    exp = []
    for o in operands:
        t = o.tensor() if isinstance(o, pp.LieTensor) else o
        e = t.expand(tuple(out_shape) + (t.shape[-1],))
        exp.append((e, o.ltype if isinstance(o, pp.LieTensor) else None))
    res = []
    for idx in np.ndindex(*out_shape):
        items = []
        for e, lt in exp:
            it = e[idx].clone()
            items.append(pp.LieTensor(it, ltype=lt) if lt is not None else it)
        res.append(f(*items))
    return res


def _compare(rec, what, got, items, out_shape, dtype, want_ltype, key):
    eps = tu.EPS[dtype]
    if want_ltype is not None:
        if not rec.check(isinstance(got, pp.LieTensor) and got.ltype == tu.LT[want_ltype], "type:" + key, "%s returned %s/%s, expected LieTensor %s" % (what, type(got).__name__, getattr(got, "ltype", None), want_ltype)):
            return
    else:
        if not rec.check(isinstance(got, torch.Tensor) and not isinstance(got, pp.LieTensor), "type:" + key, "%s returned %s, expected a plain Tensor" % (what, type(got).__name__)):
            return
    rec.check(got.dtype == tu.TD[dtype], "dtype:" + key, "%s returned dtype %s" % (what, got.dtype))
    g = got.tensor() if isinstance(got, pp.LieTensor) else got
    if items:
        first = items[0].tensor() if isinstance(items[0], pp.LieTensor) else items[0]
        tail = tuple(first.shape)
    else:
        tail = None
    if tail is not None:
        if not rec.check(tuple(g.shape) == tuple(out_shape) + tail, "shape:" + key, "%s: shape %s, expected %s" % (what, tuple(g.shape), tuple(out_shape) + tail)):
            return
        ref = torch.stack([(i.tensor() if isinstance(i, pp.LieTensor) else i) for i in items], 0).reshape(tuple(out_shape) + tail)
        tol = 8 * eps * max(1.0, float(ref.abs().max()))
        err = float((g - ref).abs().max())
        rec.notes["bc"] = max(rec.notes.get("bc", 0), err / tol)
        rec.check(err <= tol, "value:" + key, lambda: "%s: batched result differs from item-by-item application by %.3g (tol %.3g)" % (what, err, tol))
    else:
        # empty batch: only the batch part of the shape is determined
        rec.check(tuple(g.shape[:len(out_shape)]) == tuple(out_shape) and g.numel() == 0, "shape_empty:" + key, "%s: shape %s for empty batch %s" % (what, tuple(g.shape), tuple(out_shape)))


BIN = ("matmul", "mul", "Act3", "Act4", "Adj", "AdjT", "Jinvp", "Retr", "plus")


class BroadcastBinary(Sub):
    name = "broadcast_binary"
    kind = "enum"
    exhaustive = True
    budget_s = {"quick": 150.0, "thorough": 3000.0}

    def cases(self, tier):
        shs = shapes(2 if tier == "quick" else 3)
        for sx in shs:
            for sy in shs:
                try:
                    out = torch.broadcast_shapes(sx, sy)
                except RuntimeError:
                    continue
                for lt in R.GROUPS:
                    yield {"sx": list(sx), "sy": list(sy), "ltype": lt}

    def oracle(self, case, rec):
        sx, sy, lt = case["sx"], case["sy"], case["ltype"]
        alt = R.ALG_OF[lt]
        out = list(torch.broadcast_shapes(tuple(sx), tuple(sy)))
        h = dhash(repr((sx, sy, lt)))
        dtype = "float64" if h % 2 == 0 else "float32"
        rs = np.random.RandomState(h % (2 ** 31))
        X = _rand_group(lt, sx, rs, dtype)
        Y = _rand_group(lt, sy, rs, dtype)
        a = _rand_alg(alt, sy, rs, dtype)
        p3 = torch.tensor(rs.randn(*(tuple(sy) + (3,))), dtype=tu.TD[dtype])
        p4 = torch.tensor(rs.randn(*(tuple(sy) + (4,))), dtype=tu.TD[dtype])
        expanded = (sx != sy) and (any(e == 1 for e in sx + sy) or len(sx) != len(sy))
        if expanded or 0 in out:
            rec.nt((tuple(sx), tuple(sy), lt))
        rec.label(lt, "rank%d" % len(out), "empty" if 0 in out else "nonempty")
        X0, Y0, a0 = X.tensor().clone(), Y.tensor().clone(), a.tensor().clone()
        table = {
            "matmul": (lambda x, y: x @ y, (X, Y), lt), "mul": (lambda x, y: x * y, (X, Y), lt),
            "Act3": (lambda x, p: x.Act(p), (X, p3), None), "Act4": (lambda x, p: x.Act(p), (X, p4), None),
            "Adj": (lambda x, v: x.Adj(v), (X, a), alt), "AdjT": (lambda x, v: x.AdjT(v), (X, a), alt),
            "Jinvp": (lambda x, v: x.Jinvp(v), (X, a), alt), "Retr": (lambda x, v: x.Retr(v), (X, a), lt),
            "plus": (lambda x, v: x + v.tensor(), (X, a), lt),
        }
        for op in BIN:
            f, operands, wl = table[op]
            with rec.sut(op):
                got = f(*operands)
                items = _itemwise(f, out, operands)
            _compare(rec, "%s on lshapes %s,%s (%s)" % (op, sx, sy, lt), got, items, out, dtype, wl, op)
        rec.check(torch.equal(X.tensor(), X0) and torch.equal(Y.tensor(), Y0) and torch.equal(a.tensor(), a0), "mutates_input", "a binary op changed an operand")


UNARY_G = ("Log", "Inv", "matrix", "rotation", "translation", "scale", "euler", "tensor", "identity_like", "randn_like", "Jr")
UNARY_A = ("Exp", "Inv", "matrix", "rotation", "translation", "scale", "euler", "tensor", "identity_like", "randn_like", "Jr")


class BroadcastUnary(Sub):
    name = "broadcast_unary"
    kind = "enum"
    exhaustive = True

    def cases(self, tier):
        for sh in shapes(2 if tier == "quick" else 3):
            for lt in R.GROUPS + R.ALGEBRAS:
                yield {"shape": list(sh), "ltype": lt}

    def oracle(self, case, rec):
        sh, lt = case["shape"], case["ltype"]
        h = dhash(repr((sh, lt)))
        dtype = "float64" if h % 2 == 0 else "float32"
        rs = np.random.RandomState(h % (2 ** 31))
        isg = lt in R.GROUPS
        X = _rand_group(lt, sh, rs, dtype) if isg else _rand_alg(lt, sh, rs, dtype)
        X0 = X.tensor().clone()
        if len(sh) >= 1:
            rec.nt((tuple(sh), lt))
        rec.label(lt, "rank%d" % len(sh), "empty" if 0 in sh else "nonempty")
        glt = lt if isg else R.GRP_OF[lt]
        alt = R.ALG_OF[lt] if isg else lt
        for op in (UNARY_G if isg else UNARY_A):
            if op == "Jr" and lt not in ("SO3", "so3"):
                continue
            if op == "translation" and glt in ("SO3", "RxSO3"):
                continue      # documented: warns and returns zeros
            if op == "scale" and glt in ("SO3", "SE3"):
                continue      # documented: warns and returns ones
            f = {"Log": lambda x: x.Log(), "Exp": lambda x: x.Exp(), "Inv": lambda x: x.Inv(), "matrix": lambda x: x.matrix(),
                 "rotation": lambda x: x.rotation(), "translation": lambda x: x.translation(), "scale": lambda x: x.scale(),
                 "euler": lambda x: x.euler(), "tensor": lambda x: x.tensor(), "Jr": lambda x: x.Jr(),
                 "identity_like": lambda x: pp.identity_like(x, dtype=x.dtype), "randn_like": lambda x: pp.randn_like(x, dtype=x.dtype)}[op]
            wl = {"Log": alt, "Exp": glt, "Inv": lt, "rotation": "SO3", "identity_like": lt, "randn_like": lt}.get(op)
            with warnings.catch_warnings():
                warnings.simplefilter("ignore")
                with rec.sut(op):
                    got = f(X)
                    items = _itemwise(f, sh, (X,)) if op != "randn_like" else None
            if op == "randn_like":
                rec.check(isinstance(got, pp.LieTensor) and got.ltype == tu.LT[lt] and tuple(got.shape) == tuple(X.shape) and got.dtype == X.dtype,
                          "randn_like", "randn_like(%s %s): %s %s" % (lt, sh, getattr(got, "ltype", None), tuple(got.shape)))
                continue
            _compare(rec, "%s on lshape %s (%s)" % (op, sh, lt), got, items, sh, dtype, wl, op)
        rec.check(torch.equal(X.tensor(), X0), "mutates_input", "a unary op changed its operand")


# ------------------------------------------------------------------------------------
# handled torch functions
def _bd(x):
    return x.dim() - 1       # number of batch dims


def T_getitem(x, k):
    n = _bd(x)
    kind = k[0] % 5
    if n == 0 or kind == 0:
        return x[...]
    d0 = x.shape[0]
    if kind == 1:
        return x[k[1] % d0]
    if kind == 2:
        return x[(k[1] % d0):]
    if kind == 3:
        m = torch.tensor([(k[1] >> i) & 1 == 1 for i in range(d0)])
        return x[m]
    return x[torch.tensor([k[1] % d0, k[2] % d0])]


def _perm(n, k):
    p = list(range(n))
    rs = np.random.RandomState(k)
    rs.shuffle(p)
    return p


TEMPLATES = {
    "__getitem__": (0, T_getitem),
    "cpu": (0, lambda x, k: x.cpu()),
    "float": (0, lambda x, k: x.float().to(x.dtype)),
    "double": (0, lambda x, k: x.double().to(x.dtype)),
    "to": (0, lambda x, k: x.to(torch.float64 if k[0] % 2 else x.dtype).to(x.dtype)),
    "detach": (0, lambda x, k: x.detach()),
    "clone": (0, lambda x, k: x.clone()),
    "view": (1, lambda x, k: x.view(-1, x.shape[-1])),
    "view_as": (1, lambda x, k: x.view_as((x.tensor() if isinstance(x, pp.LieTensor) else x).reshape(-1, x.shape[-1]))),
    "reshape": (1, lambda x, k: x.reshape((1, -1, x.shape[-1]) if k[0] % 2 else (-1, 1, x.shape[-1]))),
    "squeeze": (1, lambda x, k: x.unsqueeze(0).squeeze(0)),
    "unsqueeze": (0, lambda x, k: x.unsqueeze(k[0] % (_bd(x) + 1))),
    "cat": (1, lambda x, k: torch.cat([x, x], dim=k[0] % _bd(x))),
    "concat": (1, lambda x, k: torch.concat([x, x], dim=k[0] % _bd(x))),
    "stack": (0, lambda x, k: torch.stack([x, x], dim=k[0] % (_bd(x) + 1))),
    "vstack": (1, lambda x, k: torch.vstack([x, x])),
    "row_stack": (1, lambda x, k: torch.row_stack([x, x])),
    "hstack": (2, lambda x, k: torch.hstack([x, x])),
    "column_stack": (2, lambda x, k: torch.column_stack([x, x])),
    "dstack": (3, lambda x, k: torch.dstack([x, x])),
    "split": (1, lambda x, k: torch.split(x, 1, dim=k[0] % _bd(x))[k[1] % x.shape[k[0] % _bd(x)]]),
    "chunk": (1, lambda x, k: torch.chunk(x, 2, dim=k[0] % _bd(x))[0]),
    "tensor_split": (1, lambda x, k: torch.tensor_split(x, 2, dim=k[0] % _bd(x))[-1]),
    "vsplit": (2, lambda x, k: torch.vsplit(x, x.shape[0])[k[0] % x.shape[0]]),
    "hsplit": (2, lambda x, k: torch.hsplit(x, x.shape[1])[k[0] % x.shape[1]]),
    "dsplit": (3, lambda x, k: torch.dsplit(x, x.shape[2])[k[0] % x.shape[2]]),
    "unbind": (1, lambda x, k: torch.unbind(x, dim=k[0] % _bd(x))[k[1] % x.shape[k[0] % _bd(x)]]),
    "index_select": (1, lambda x, k: torch.index_select(x, k[0] % _bd(x), torch.tensor([k[1] % x.shape[k[0] % _bd(x)], 0]))),
    "narrow": (1, lambda x, k: torch.narrow(x, k[0] % _bd(x), 0, 1)),
    "select": (1, lambda x, k: torch.select(x, k[0] % _bd(x), k[1] % x.shape[k[0] % _bd(x)])),
    "movedim": (2, lambda x, k: torch.movedim(x, 0, _bd(x) - 1)),
    "moveaxis": (2, lambda x, k: torch.moveaxis(x, 0, _bd(x) - 1)),
    "permute": (1, lambda x, k: x.permute(*(_perm(_bd(x), k[0]) + [_bd(x)]))),
    "swapaxes": (2, lambda x, k: torch.swapaxes(x, 0, 1)),
    "swapdims": (2, lambda x, k: torch.swapdims(x, 0, _bd(x) - 1)),
    "transpose": (2, lambda x, k: torch.transpose(x, 0, 1)),
    "tile": (1, lambda x, k: x.tile((2,) + (1,) * _bd(x))),
    "repeat": (0, lambda x, k: x.repeat((2,) * _bd(x) + (1,))),
    "expand": (0, lambda x, k: x.unsqueeze(0).expand((3,) + tuple(x.shape))),
    "expand_as": (0, lambda x, k: x.unsqueeze(0).expand_as(torch.empty((2,) + tuple(x.shape)))),
    "gather": (1, lambda x, k: torch.gather(x, 0, torch.zeros((1,) + tuple(x.shape[1:]), dtype=torch.int64) + (k[0] % x.shape[0]))),
    "take_along_dim": (1, lambda x, k: torch.take_along_dim(x, torch.zeros((1,) + tuple(x.shape[1:]), dtype=torch.int64) + (k[0] % x.shape[0]), dim=0)),
    "scatter": (1, lambda x, k: torch.scatter(x, 0, torch.zeros((1,) + tuple(x.shape[1:]), dtype=torch.int64) + (k[0] % x.shape[0]), x[:1] if not isinstance(x, pp.LieTensor) else x.tensor()[:1])),
    "scatter_add": (1, lambda x, k: torch.scatter_add(x, 0, torch.zeros((1,) + tuple(x.shape[1:]), dtype=torch.int64), torch.zeros_like(x[:1] if not isinstance(x, pp.LieTensor) else x.tensor()[:1]))),
    "select_scatter": (1, lambda x, k: torch.select_scatter(x, (x if not isinstance(x, pp.LieTensor) else x.tensor())[k[0] % x.shape[0]], 0, (k[1]) % x.shape[0])),
    "index_copy": (1, lambda x, k: torch.index_copy(x, 0, torch.tensor([k[0] % x.shape[0]]), (x if not isinstance(x, pp.LieTensor) else x.tensor())[:1])),
    "index_copy_": (1, lambda x, k: x.clone().index_copy_(0, torch.tensor([k[0] % x.shape[0]]), (x if not isinstance(x, pp.LieTensor) else x.tensor())[:1])),
    "index_put": (1, lambda x, k: torch.index_put(x, (torch.tensor([k[0] % x.shape[0]]),), (x if not isinstance(x, pp.LieTensor) else x.tensor())[:1])),
    "index_put_": (1, lambda x, k: x.clone().index_put_((torch.tensor([k[0] % x.shape[0]]),), (x if not isinstance(x, pp.LieTensor) else x.tensor())[:1])),
    "copy_": (0, lambda x, k: x.clone().copy_(x)),
    "__setitem__": (1, lambda x, k: _setitem(x, k)),
}
# cannot keep the last dimension: outside the statement (only data equality is checked)
LOOSE = {
    "masked_select": (0, lambda x, k: torch.masked_select(x, (x if not isinstance(x, pp.LieTensor) else x.tensor()) > 0)),
    "take": (0, lambda x, k: torch.take(x, torch.tensor([0, 1]))),
}
SKIPPED = {"cuda": "no CUDA device in the sandbox",
           "copy": "there is no torch function of that name (copy.copy is a Python-level protocol, outside the statement)"}


def _setitem(x, k):
    y = x.clone()
    y[k[0] % y.shape[0]] = (x if not isinstance(x, pp.LieTensor) else x.tensor())[0]
    return y


class Handled(Sub):
    fuzz_runs = 30000
    name = "handled"
    n = {"quick": 4000, "thorough": 100000}

    def strategy(self, tier):
        names = sorted(TEMPLATES)

        @st.composite
        def s(draw):
            lt = draw(st.sampled_from(R.GROUPS + R.ALGEBRAS))
            rank = draw(st.integers(0, 3))
            shape = [draw(st.integers(1, 3)) for _ in range(rank)]
            steps = [{"f": draw(st.sampled_from(names)), "k": [draw(st.integers(0, 1000)) for _ in range(3)]}
                     for _ in range(draw(st.integers(1, 4)))]
            return {"ltype": lt, "dtype": draw(st.sampled_from(gen.DTYPES)), "shape": shape, "steps": steps,
                    "seed": draw(st.integers(0, 10 ** 6)), "param": draw(st.booleans())}
        return s()

    def oracle(self, case, rec):
        lt, dtype = case["ltype"], case["dtype"]
        rs = np.random.RandomState(case["seed"])
        x = _rand_group(lt, case["shape"], rs, dtype) if lt in R.GROUPS else _rand_alg(lt, case["shape"], rs, dtype)
        if case["param"]:
            x = pp.Parameter(x)
        t = x.tensor().detach().clone()
        x0 = t.clone()
        changed = False
        for stp in case["steps"]:
            need, f = TEMPLATES[stp["f"]]
            if _bd(x) < need or any(s == 0 for s in x.shape):
                rec.label("skipped_rank:" + stp["f"])
                continue
            with warnings.catch_warnings():
                warnings.simplefilter("ignore")
                try:
                    tt = f(t, stp["k"])      # the same program on the plain tensor (harness side)
                except RuntimeError:         # e.g. view of a non-contiguous tensor: template not applicable here
                    rec.label("template_na:" + stp["f"])
                    continue
                with rec.sut(stp["f"]):
                    y = f(x, stp["k"])
            rec.label("fn:" + stp["f"])
            if tt.shape[-1:] != t.shape[-1:]:
                rec.label("lastdim_changed:" + stp["f"])   # outside the statement
                return
            if tt.dim() != t.dim() or stp["f"] in ("permute", "transpose", "swapaxes", "swapdims", "movedim", "moveaxis"):
                changed = True
            if not rec.check(isinstance(y, pp.LieTensor) and getattr(y, "ltype", None) == tu.LT[lt], "ltype_lost:" + stp["f"],
                             "%s on a %s %s returned %s with ltype %s" % (stp["f"], lt, "Parameter" if case["param"] else "LieTensor", type(y).__name__, getattr(y, "ltype", None))):
                return
            if not rec.check(y.shape == tt.shape and torch.equal(y.tensor().detach(), tt.detach()), "data:" + stp["f"],
                             "%s: data differs from the same call on the plain tensor" % stp["f"]):
                return
            x, t = y, tt
        if changed:
            rec.nt((lt, tuple(s["f"] for s in case["steps"]), len(case["shape"]), case["param"]))

    def simplify(self, case):
        st_ = case["steps"]
        for i in range(len(st_)):
            if len(st_) > 1:
                yield dict(case, steps=st_[:i] + st_[i + 1:])
        if case["param"]:
            yield dict(case, param=False)


class HandledTable(Sub):
    """every HANDLED_FUNCTIONS name has a template (or a stated reason); loose functions keep the data; Parameter round trips"""
    name = "handled_table"
    kind = "enum"
    exhaustive = True

    def cases(self, tier):
        from pypose.lietensor.lietensor import HANDLED_FUNCTIONS
        for nme in sorted(set(HANDLED_FUNCTIONS)):
            for lt in R.GROUPS + R.ALGEBRAS:
                yield {"f": nme, "ltype": lt}
        for lt in R.GROUPS + R.ALGEBRAS:
            yield {"f": "<parameter_roundtrips>", "ltype": lt}

    def oracle(self, case, rec):
        nme, lt = case["f"], case["ltype"]
        rs = np.random.RandomState(dhash(nme + lt) % (2 ** 31))
        x = _rand_group(lt, [2, 3, 2], rs, "float64") if lt in R.GROUPS else _rand_alg(lt, [2, 3, 2], rs, "float64")
        rec.nt((nme, lt))
        if nme == "<parameter_roundtrips>":
            p = pp.Parameter(x)
            with rec.sut("Parameter round trips"):
                outs = {"deepcopy": copy.deepcopy(p), "clone": p.clone(), "detach": p.detach(), "to": p.to(torch.float32), "getitem": p[0]}
            for k, o in outs.items():
                rec.check(isinstance(o, pp.LieTensor) and o.ltype == tu.LT[lt], "param:" + k, "Parameter.%s lost the ltype (%s)" % (k, type(o).__name__))
            rec.check(isinstance(outs["deepcopy"], pp.Parameter) and torch.equal(outs["deepcopy"].tensor(), p.tensor()), "param:deepcopy_type", "deepcopy(Parameter) is not an equal Parameter")
            return
        if nme in SKIPPED:
            rec.label("skipped:" + nme)
            return
        if nme in LOOSE:
            _, f = LOOSE[nme]
            with warnings.catch_warnings():
                warnings.simplefilter("ignore")
                with rec.sut(nme):
                    y = f(x, [1, 2, 3])
            tt = f(x.tensor(), [1, 2, 3])
            rec.check(torch.equal(torch.Tensor.as_subclass(y, torch.Tensor), tt), "loose_data:" + nme, "%s: data differs" % nme)
            return
        if not rec.check(nme in TEMPLATES, "no_template", "handled function %s has no call template in the harness" % nme):
            return
        _, f = TEMPLATES[nme]
        for k in ([1, 2, 3], [4, 1, 0], [7, 5, 2]):
            with warnings.catch_warnings():
                warnings.simplefilter("ignore")
                tt = f(x.tensor(), k)
                with rec.sut(nme):
                    y = f(x, k)
            if tt.shape[-1:] != x.shape[-1:]:
                continue
            if rec.check(isinstance(y, pp.LieTensor) and getattr(y, "ltype", None) == tu.LT[lt], "ltype_lost:" + nme,
                         "%s on a %s LieTensor returned %s with ltype %s" % (nme, lt, type(y).__name__, getattr(y, "ltype", None))):
                rec.check(y.shape == tt.shape and torch.equal(y.tensor(), tt), "data:" + nme, "%s: data differs from the plain-tensor call" % nme)


# ------------------------------------------------------------------------------------
# non-mutation
def _nls():
    class M(pp.module.NLS):
        def state_transition(self, state, input, t=None):
            return 0.9 * state + 0.1 * state.sin() + input
        def observation(self, state, input, t=None):
            return state + 0.2 * state.cos() + input
    return M()


def _calls(rs, dt):
    """name -> (callable, list of tensor args).  Every call gets fresh arguments."""
    T = lambda *s: torch.tensor(rs.randn(*s), dtype=dt)
    G = lambda lt, *s: _rand_group(lt, list(s), rs, "float64" if dt == torch.float64 else "float32")
    A = lambda lt, *s: _rand_alg(lt, list(s), rs, "float64" if dt == torch.float64 else "float32")
    spd = lambda n: (lambda M: M @ M.mT + n * torch.eye(n, dtype=dt))(T(n, n))
    pts = T(12, 3)
    K = torch.tensor([[300.0, 0, 160.0], [0, 300.0, 120.0], [0, 0, 1.0]], dtype=dt)
    cam = T(8, 3) + torch.tensor([0, 0, 6.0], dtype=dt)
    calls = {}
    for lt in R.GROUPS:
        alt = R.ALG_OF[lt]
        calls["%s.matmul" % lt] = (lambda x, y: x @ y, [G(lt, 3), G(lt, 3)])
        calls["%s.Inv" % lt] = (lambda x: x.Inv(), [G(lt, 3)])
        calls["%s.Log" % lt] = (lambda x: pp.Log(x), [G(lt, 3)])
        calls["%s.Exp" % alt] = (lambda x: pp.Exp(x), [A(alt, 3)])
        calls["%s.Act" % lt] = (lambda x, p: pp.Act(x, p), [G(lt, 3), T(3, 3)])
        calls["%s.Act4" % lt] = (lambda x, p: x.Act(p), [G(lt, 3), T(3, 4)])
        calls["%s.Adj" % lt] = (lambda x, a: pp.Adj(x, a), [G(lt, 3), A(alt, 3)])
        calls["%s.AdjT" % lt] = (lambda x, a: pp.AdjT(x, a), [G(lt, 3), A(alt, 3)])
        calls["%s.Jinvp" % lt] = (lambda x, a: pp.Jinvp(x, a), [G(lt, 3), A(alt, 3)])
        calls["%s.Retr" % lt] = (lambda x, a: pp.Retr(x, a), [G(lt, 3), A(alt, 3)])
        calls["%s.add" % lt] = (lambda x, a: pp.add(x, a), [G(lt, 3), T(3, R.ADIM[alt])])
        calls["%s.plus" % lt] = (lambda x, a: x + a, [G(lt), T(3, R.ADIM[alt])])
        # optional arguments matter too: alpha scaling of the increment must not be done on the caller's tensor
        calls["%s.add_alpha" % lt] = (lambda x, a: pp.add(x, a, alpha=0.5), [G(lt, 3), T(3, R.ADIM[alt])])
        calls["%s.method_add_alpha" % lt] = (lambda x, a: x.add(a, alpha=2), [G(lt), T(3, R.ADIM[alt])])
        calls["%s.add_lie_alpha" % lt] = (lambda x, a: x.add(a, alpha=-1.5), [G(lt, 3), A(alt, 3)])
        calls["%s.alg_add_alpha" % lt] = (lambda x, a: pp.add(x, a, alpha=3), [A(alt, 3), T(3, R.ADIM[alt])])
        calls["%s.mul" % lt] = (lambda x, y: pp.mul(x, y), [G(lt, 3), G(lt, 3)])
        calls["%s.matrix" % lt] = (lambda x: pp.matrix(x), [G(lt, 3)])
        calls["%s.rotation" % lt] = (lambda x: pp.rotation(x), [G(lt, 3)])
        calls["%s.euler" % lt] = (lambda x: pp.euler(x), [G(lt, 3)])
        calls["%s.tensor" % lt] = (lambda x: pp.tensor(x), [G(lt, 3)])
        calls["%s.quat2unit" % lt] = (lambda x: pp.quat2unit(x), [pp.LieTensor(G(lt, 3).tensor() * 1.5 if lt == "SO3" else G(lt, 3).tensor(), ltype=tu.LT[lt])])
        calls["%s.cumprod" % lt] = (lambda x: pp.cumprod(x, 0), [G(lt, 5)])
        calls["%s.cummul" % lt] = (lambda x: pp.cummul(x, 0, left=False), [G(lt, 5)])
        calls["%s.cumops" % lt] = (lambda x: pp.cumops(x, 0, lambda a, b: a @ b), [G(lt, 5)])
        calls["%s.identity_like" % lt] = (lambda x: pp.identity_like(x), [G(lt, 3)])
        calls["%s.randn_like" % lt] = (lambda x: pp.randn_like(x), [G(lt, 3)])
        calls["%s.from_matrix" % lt] = (lambda m, _lt=lt: pp.from_matrix(m, tu.LT[_lt]), [G(lt, 3).matrix()])
        calls["%s.geodesic" % lt] = (lambda x, y: pp.geodesic_loss(x, y), [G(lt, 3), G(lt, 3)])
    q = G("SO3", 3)
    calls["quat2unit_unnormalised"] = (lambda x: pp.quat2unit(x), [pp.LieTensor(q.tensor() * 2.0, ltype=pp.SO3_type)])
    calls["so3.Jr"] = (lambda x: pp.Jr(x), [A("so3", 3)])
    calls["euler2SO3"] = (lambda e: pp.euler2SO3(e), [T(3, 3)])
    calls["vec2skew"] = (lambda v: pp.vec2skew(v), [T(3, 3)])
    calls["mat2SO3"] = (lambda m: pp.mat2SO3(m), [G("SO3", 2).matrix()])
    calls["cart2homo"] = (lambda p: pp.cart2homo(p), [T(4, 3)])
    calls["homo2cart"] = (lambda p: pp.homo2cart(p), [T(4, 4) + 3.0])
    calls["point2pixel"] = (lambda p, k: pp.point2pixel(p, k), [cam.clone(), K.clone()])
    calls["point2pixel_ext"] = (lambda p, k, e: pp.point2pixel(p, k, e), [cam.clone(), K.clone(), pp.identity_SE3(dtype=dt)])
    calls["pixel2point"] = (lambda px, d, k: pp.pixel2point(px, d, k), [T(8, 2), T(8).abs() + 1, K.clone()])
    calls["reprojerr"] = (lambda p, px, k: pp.reprojerr(p, px, k), [cam.clone(), T(8, 2), K.clone()])
    calls["knn"] = (lambda a, b: pp.knn(a, b, k=2), [T(6, 3), T(9, 3)])
    calls["knn_opts"] = (lambda a, b: pp.knn(a, b, k=3, ord=1, largest=True, sorted=False), [T(6, 3), T(9, 3)])
    calls["nbr_filter_mask"] = (lambda p: pp.nbr_filter(p, nbr=2, radius=1.5, pdim=2, return_mask=True), [pts.clone()])
    calls["knn_filter_pdim"] = (lambda p: pp.knn_filter(p, k=2, pdim=2, ord=1), [pts.clone()])
    calls["chspline_batch"] = (lambda p: pp.chspline(p, 0.3), [T(2, 5, 3)])
    calls["bspline_extra"] = (lambda p: pp.bspline(p, 0.3, extrapolate=True), [G("SE3", 5)])
    calls["svdstf_noscale"] = (lambda a, b: pp.svdstf(a, b, with_scale=False), [pts.clone(), T(12, 3)])
    calls["reprojerr_ext"] = (lambda p, px, k, e: pp.reprojerr(p, px, k, e, reduction="sum"), [cam.clone(), T(8, 2), K.clone(), G("SE3")])
    calls["svdtf"] = (lambda a, b: pp.svdtf(a, b), [pts.clone(), T(12, 3)])
    calls["svdstf"] = (lambda a, b: pp.svdstf(a, b), [pts.clone(), T(12, 3)])
    calls["nbr_filter"] = (lambda p: pp.nbr_filter(p, nbr=1, radius=2.0), [pts.clone()])
    calls["voxel_filter"] = (lambda p: pp.voxel_filter(p, [1.0, 1.0, 1.0]), [pts.clone()])
    calls["voxel_filter_random"] = (lambda p: pp.voxel_filter(p, [1.0, 1.0, 1.0], random=True), [pts.clone()])
    calls["knn_filter"] = (lambda p: pp.knn_filter(p, k=2), [pts.clone()])
    calls["knn_filter_radius"] = (lambda p: pp.knn_filter(p, k=1, radius=10.0), [pts.clone()])
    calls["random_filter"] = (lambda p: pp.random_filter(p, 4), [pts.clone()])
    calls["chspline"] = (lambda p: pp.chspline(p, 0.25), [T(5, 3)])
    calls["bspline"] = (lambda p: pp.bspline(p, 0.25), [G("SE3", 6)])
    calls["bmv"] = (lambda m, v: pp.bmv(m, v), [T(2, 3, 4), T(2, 4)])
    calls["bvv"] = (lambda a, b: pp.bvv(a, b), [T(2, 3), T(2, 4)])
    calls["bvmv"] = (lambda a, m, b: pp.bvmv(a, m, b), [T(2, 3), T(2, 3, 4), T(2, 4)])
    calls["pm"] = (lambda v: pp.pm(v), [T(5)])
    calls["hasnan"] = (lambda v: pp.hasnan(v), [T(5)])
    # metrics (timestamps are tensor arguments too)
    n = 12
    st1 = torch.arange(n, dtype=torch.float64) * 0.1
    st2 = st1 + 0.003
    calls["ape"] = (lambda s1, p1, s2, p2: pp.metric.ape(s1, p1, s2, p2), [st1.clone(), G("SE3", n), st2.clone(), G("SE3", n)])
    calls["ape_offset"] = (lambda s1, p1, s2, p2: pp.metric.ape(s1, p1, s2, p2, offset=0.004), [st1.clone(), G("SE3", n), st2.clone(), G("SE3", n)])
    calls["rpe"] = (lambda s1, p1, s2, p2: pp.metric.rpe(s1, p1, s2, p2), [st1.clone(), G("SE3", n), st2.clone(), G("SE3", n)])
    calls["rpe_offset"] = (lambda s1, p1, s2, p2: pp.metric.rpe(s1, p1, s2, p2, offset=-0.002), [st1.clone(), G("SE3", n), st2.clone(), G("SE3", n)])
    # kernels / correctors / solvers
    ker = pp.optim.kernel
    for nme, kk in (("Huber", ker.Huber(1.0)), ("PseudoHuber", ker.PseudoHuber(1.0)), ("Cauchy", ker.Cauchy(1.0)), ("SoftLOne", ker.SoftLOne(1.0)),
                    ("Arctan", ker.Arctan(1.0)), ("Tolerant", ker.Tolerant(1.0, -0.5)), ("Scale", ker.Scale(0.5))):
        calls["kernel." + nme] = (lambda x, _k=kk: _k(x), [T(6).abs() * 2])
    Rr, Jj = T(4, 3), T(12, 5)
    calls["FastTriggs"] = (lambda r, j: pp.optim.corrector.FastTriggs(ker.Huber(1.0))(R=r, J=j), [Rr.clone(), Jj.clone()])
    calls["Triggs"] = (lambda r, j: pp.optim.corrector.Triggs(ker.Cauchy(1.0))(R=r, J=j), [Rr.clone(), Jj.clone()])
    S = spd(5)
    sol = pp.optim.solver
    calls["solver.PINV"] = (lambda a, b: sol.PINV()(a, b), [T(6, 4), T(6, 1)])
    calls["solver.LSTSQ"] = (lambda a, b: sol.LSTSQ()(a, b), [T(6, 4), T(6, 1)])
    calls["solver.Cholesky"] = (lambda a, b: sol.Cholesky()(a, b), [S.clone(), T(5, 1)])
    calls["solver.CG"] = (lambda a, b: sol.CG()(a, b), [S.clone(), T(5, 1)])
    calls["solver.CG_x0_M"] = (lambda a, b, x, m: sol.CG()(a, b, x=x, M=m), [S.clone(), T(5, 1), T(5, 1), torch.diag(1.0 / torch.diag(S)).clone()])
    # modules
    N = 2
    Q, Rm, P = 0.01 * torch.eye(N, dtype=dt), 0.02 * torch.eye(N, dtype=dt), spd(N)
    for nme, cls in (("EKF", pp.module.EKF), ("UKF", pp.module.UKF), ("PF", pp.module.PF)):
        calls["module." + nme] = (lambda x, y, u, p, q_, r_, _c=cls: _c(_nls().to(dt))(x, y, u, p, q_, r_), [T(N), T(N), T(N), P.clone(), Q.clone(), Rm.clone()])
    nsx, nu, Th = 3, 2, 4
    lti = lambda: pp.module.LTI(T(nsx, nsx) * 0.3, T(nsx, nu), torch.eye(nsx, dtype=dt), torch.zeros(nsx, nu, dtype=dt))
    Qc = torch.eye(nsx + nu, dtype=dt).repeat(1, Th, 1, 1)
    calls["module.LQR"] = (lambda x0, qq, pv: pp.module.LQR(lti(), qq, pv, Th)(x0), [T(1, nsx), Qc.clone(), T(1, Th, nsx + nu)])
    src = T(30, 3)
    Tt = G("SE3")
    calls["module.ICP"] = (lambda s, t: pp.module.ICP()(s, t), [src.clone(), Tt.Act(src).clone()])
    P3 = T(10, 3) + torch.tensor([0, 0, 8.0], dtype=dt)
    calls["module.EPnP"] = (lambda p, px, k: pp.module.EPnP()(p, px, k), [P3.clone(), pp.point2pixel(P3, K), K.clone()])
    calls["module.IMU"] = (lambda d, g, a: pp.module.IMUPreintegrator().to(dt)(dt=d, gyro=g, acc=a), [torch.full((1, 5, 1), 0.01, dtype=dt), T(1, 5, 3), T(1, 5, 3)])
    calls["geodesic_loss"] = (lambda x, y: pp.geodesic_loss(x, y), [G("SE3", 3), G("SO3", 3)])
    return calls


class NoMutate(Sub):
    name = "nomutate"
    n = {"quick": 1500, "thorough": 30000}

    def strategy(self, tier):
        names = sorted(_calls(np.random.RandomState(0), torch.float64))
        return st.fixed_dictionaries({"name": st.sampled_from(names), "seed": st.integers(0, 10 ** 6), "dtype": st.sampled_from(gen.DTYPES)})

    def oracle(self, case, rec):
        dt = tu.TD[case["dtype"]]
        rs = np.random.RandomState(case["seed"])
        torch.manual_seed(case["seed"])
        f, args = _calls(rs, dt)[case["name"]]
        snaps = [(a.tensor() if isinstance(a, pp.LieTensor) else a).detach().clone() for a in args]
        with warnings.catch_warnings():
            warnings.simplefilter("ignore")
            try:
                f(*args)
            except Exception as e:       # what the call returns / whether it accepts the argument is another property's business
                rec.label("call_raised:%s:%s" % (case["name"], type(e).__name__))
        rec.label("call:" + case["name"])
        if any(s.numel() >= 2 for s in snaps):
            rec.nt((case["name"], case["dtype"]))
        for i, (a, s) in enumerate(zip(args, snaps)):
            cur = (a.tensor() if isinstance(a, pp.LieTensor) else a).detach()
            same = cur.shape == s.shape and torch.equal(cur, s) or (cur.shape == s.shape and bool(((cur == s) | (cur.isnan() & s.isnan())).all()))
            rec.check(same, "mutated:" + case["name"].split(".")[-1], "%s changed its tensor argument #%d" % (case["name"], i))


# ------------------------------------------------------------------------------------
# restoration of patched torch internals
_PATCHED = [("torch.autograd.forward_ad", "make_dual"), ("torch._functorch.eager_transforms", "_wrap_tensor_for_grad"),
            ("torch._functorch.vmap", "_add_batch_dim")]
_ORIG = {(m, n): getattr(importlib.import_module(m), n) for m, n in _PATCHED}
EXC = {"RuntimeError": RuntimeError, "ValueError": ValueError, "KeyError": KeyError, "ZeroDivisionError": ZeroDivisionError, "none": None}


class Restore(Sub):
    name = "restore"
    n = {"quick": 1200, "thorough": 30000}

    def strategy(self, tier):
        return st.fixed_dictionaries({
            "ltype": st.sampled_from(R.GROUPS), "k": st.integers(0, 5), "exc": st.sampled_from(sorted(EXC)),
            "mode": st.sampled_from(("retain", "pp_jacrev", "nested", "repeat", "torch_jacrev_in_retain")), "seed": st.integers(0, 10 ** 6)})

    def oracle(self, case, rec):
        lt, k, exc, mode = case["ltype"], case["k"], EXC[case["exc"]], case["mode"]
        rs = np.random.RandomState(case["seed"])
        X = _rand_group(lt, [1], rs, "float64")
        p = torch.tensor(rs.randn(1, 3))

        def body(x):
            y = x
            for i in range(k):
                y = y @ x if i % 2 == 0 else y.Inv()
            if exc is not None:
                raise exc("injected fault after %d ops" % k)
            return y.Act(p)

        def run():
            if mode == "retain":
                with pp.retain_ltype():
                    body(X)
            elif mode == "pp_jacrev":
                pp.func.jacrev(body)(X)
            elif mode == "torch_jacrev_in_retain":
                with pp.retain_ltype():
                    torch.func.jacrev(body)(X)
            elif mode == "nested":
                with pp.retain_ltype():
                    with pp.retain_ltype():
                        body(X)
            else:
                for _ in range(3):
                    try:
                        with pp.retain_ltype():
                            body(X)
                    except Exception:
                        pass
                with pp.retain_ltype():
                    body(X)
        raised = None
        try:
            run()
        except Exception as e:
            raised = e
        if exc is not None:
            rec.check(raised is not None and isinstance(raised, exc), "fault_swallowed", "the injected %s did not propagate (got %r)" % (case["exc"], raised))
        rec.label(mode, case["exc"])
        if k >= 1:
            rec.nt((mode, case["exc"], k, lt))
        for (m, nme), orig in _ORIG.items():
            cur = getattr(importlib.import_module(m), nme)
            if not rec.check(cur is orig, "not_restored:" + nme, "after %s with %s: %s.%s is %r, not the original function" % (mode, case["exc"], m, nme, cur)):
                setattr(importlib.import_module(m), nme, orig)      # repair so later cases are independent
        t = torch.tensor([0.3, -0.7], dtype=torch.float64)
        J = torch.func.jacrev(lambda v: v.sin())(t)
        rec.check(type(J) is torch.Tensor and torch.allclose(J, torch.diag(t.cos())), "plain_jacrev_broken", "torch.func.jacrev on plain tensors misbehaves afterwards")


SUBS = [BroadcastBinary(), BroadcastUnary(), Handled(), HandledTable(), NoMutate(), Restore()]


def selftest():
    assert len(shapes(2)) == 21 and len(shapes(3)) == 85
    # the item-wise oracle itself broadcasts like torch
    rs = np.random.RandomState(0)
    X = _rand_group("SE3", [2, 1], rs, "float64"); Y = _rand_group("SE3", [3], rs, "float64")
    items = _itemwise(lambda a, b: a @ b, [2, 3], (X, Y))
    assert len(items) == 6 and tuple(items[0].shape) == (7,)
