"""C06 - batching / broadcasting / views are transparent; pure ops never mutate inputs."""
import copy, importlib, itertools, math, os, warnings
import numpy as np
import torch
import pypose as pp
from hypothesis import strategies as st

from ..core import Sub, dhash, NPROC
from ..ref import lie as R
from .. import tu, gen

PROPERTY = "C06"
RULE = ("broadcast_binary: ordered pairs of lshapes with extents {0,1,2,3} that torch can broadcast.  THOROUGH tier: the full stated box "
        "(rank<=3: 85 shapes, 2479 pairs) x 4 group types, exhaustive.  QUICK tier: the full rank<=2 sub-box (21 shapes, 231 pairs) x 4 group "
        "types PLUS a VERIF_SEED-dependent sample of 120 of the 2248 pairs with a rank-3 operand (80 with a non-empty, 40 with an empty "
        "result; one hash-chosen group type each): NOT exhaustive for the stated box, and the evidence says so (exhaustive=false in quick).  "
        "Ops with their own item-by-item reference: group-left {@ (its items also serve *), Act3, Act4, Adj, AdjT, Jinvp, Retr, + (Tensor of "
        "algebra width)}, algebra-left {+ Tensor} and, by the case hash, one of add(alpha=) with a group / an algebra element on the left "
        "and a Tensor of GROUP width (documented: extra trailing entries ignored), alpha in {0.5, -1.5, 2, 3}.  The other documented "
        "spellings of the same op (pp.Mul / pp.mul / x.mul, pp.Act / x*p / x@p / pp.mul(x,p), pp.Adj / Adj(Tensor), pp.AdjT, pp.Jinvp, "
        "pp.Retr, pp.add / x.add) are called on the batched operands and compared with the same item-by-item reference: all of them in "
        "the thorough tier, in quick one spelling for every other op of a case (rotating with the case hash; labels spelled:*).  "
        "broadcast_unary: THOROUGH all 85 lshapes of the box x 8 ltypes (exhaustive); QUICK all 85 lshapes, the 21 of rank<=2 with all 8 "
        "ltypes, the 64 of rank 3 with one group and one algebra type each (balanced, 16 per type; exhaustive=false).  Unary ops {Exp, Log, "
        "Inv, matrix, rotation, translation, scale, euler, Jr (SO3/so3), tensor, identity_like, randn_like, algebra * Number} with the "
        "functional forms pp.Exp, pp.Log, pp.Inv, pp.matrix, pp.rotation, pp.translation, pp.scale, pp.euler, pp.tensor, pp.Jr, pp.mul "
        "compared with the same reference (same rotation rule); translation() / scale() of types without that part must be the documented "
        "zeros / ones of shape lshape+(3,) / lshape+(1,); lshape is the torch.Size of the batch dims; lview(-1) / lview(*reversed lshape) "
        "hold the items in C order.  In both: the batched result must equal the op applied item by item to unbatched elements under torch "
        "broadcasting (8 eps), with the documented Python type, ltype, lshape = broadcast shape, dtype, device (cpu); for an EMPTY batch "
        "the trailing shape must be the one the op gives for a single unbatched item of the same types.  handled: Hypothesis programs of "
        "1..4 calls drawn from a template for EVERY name in HANDLED_FUNCTIONS (arguments keep the last dimension intact) applied in "
        "parallel to a LieTensor (rank 0..3, extents 0..3 with 0 in one dim of ten, so empty LieTensors are included) and to its plain "
        "tensor: every output must be a LieTensor of the same ltype with bit-identical data; pp.Parameter round trips (deepcopy, clone, "
        "detach, to).  handled_table: every name x 8 ltypes on a (2,3,2) batch and on three empty batches.  nomutate: a table of public "
        "callables (LieTensor ops and their pp.* forms, converters, metrics, kernels, correctors, solvers, sparse block product, Jacobian "
        "helpers modjac / modjacrev / pp.func.jacrev, module forwards incl. MPC) called on freshly generated arguments; every tensor "
        "argument is snapshotted and compared bitwise afterwards; a table call that raises is a failure (every entry works on valid "
        "arguments).  restore: a function that performs k LieTensor ops and then fails - by a user raise (4 exception types), INSIDE a "
        "pypose op (assert in Act, broadcast error in Mul, Log of an algebra element) or in the BACKWARD / vjp phase (custom autograd "
        "Function whose backward raises; plain autograd backward inside the context for the non-jacrev modes) - under pp.retain_ltype(), "
        "pp.func.jacrev, torch.func.jacrev inside retain_ltype, nested and repeated: the fault must propagate (and nothing may raise when "
        "no fault is injected), the three patched torch attributes must be the ORIGINAL objects afterwards and plain torch.func.jacrev "
        "still works.  Non-trivial: shapes differ with an expanded extent-1 dim or an empty dim; programs that change rank, reorder batch "
        "dims or run on an empty LieTensor; calls with >= 1 tensor argument of >= 2 elements; k >= 1.")
ASSUMPTIONS = ["cpu only (no other device in the sandbox): 'device' is asserted to be the operands' device, which is always cpu here",
               "functions that cannot keep the last dimension (masked_select, take) are outside the statement: only data equality is checked",
               "module buffers / internal state are not 'arguments' (only tensor arguments must stay unchanged; for modjac the parameters "
               "of the model passed as argument are included)",
               "binary ops whose left operand is a Lie algebra element: only + Tensor / add(alpha=) (documented in pp.add) and * Number "
               "(documented in pp.mul) exist; Act/Adj/AdjT/Jinvp/Retr/@ of an algebra element are not documented operations",
               "dtype of a case is hash-determined (float32 / float64 in equal shares)"]

# defects found by this module (none open any more; while a key is listed below the failure is a label instead of a violation):
#   lview_size_arg: LieTensor.lview documents `shape (torch.Size or int...)` but x.lview(torch.Size([..])) raises TypeError
#                   (lview does `self.view(*shape + self.ltype.dimension)`, i.e. (Size([..]), d) instead of (.., d)).
KNOWN_OPEN = set()      # lview_size_arg: known_findings F25, repaired in /repo (92c5e27) - asserted

EXT = (0, 1, 2, 3)
R3_QUICK = (80, 40)      # quick tier: sampled rank-3 pairs with a non-empty / an empty broadcast result


class _TierMap(dict):
    """tier -> value that remembers which tier the runner asked for: the runner reads `sub.exhaustive` without a tier, and the
    quick tier of broadcast_binary is not exhaustive for the stated box"""
    last = None

    def __getitem__(self, k):
        _TierMap.last = k
        return dict.__getitem__(self, k)


def shapes(max_rank):
    out = [()]
    for r in range(1, max_rank + 1):
        out += list(itertools.product(EXT, repeat=r))
    return out


def pairs(max_rank):
    shs = shapes(max_rank)
    out = []
    for sx in shs:
        for sy in shs:
            try:
                o = torch.broadcast_shapes(sx, sy)
            except RuntimeError:
                continue
            out.append((sx, sy, tuple(o)))
    return out


def _t(x):
    return x.tensor() if isinstance(x, pp.LieTensor) else x


def _rand_group(lt, shape, rs, dtype, layout=False):
    n = int(np.prod(shape)) if len(shape) else 1
    q = rs.randn(n, 4); q /= np.linalg.norm(q, axis=1, keepdims=True)
    t = rs.randn(n, 3); s = np.exp(0.3 * rs.randn(n, 1))
    # regime-mixed batches: pypose selects its small-angle / unit-scale / zero-translation formulas per item with boolean masks,
    # and a mask that couples items (values taken in mask order, a batch-wide any()/all()) is invisible when every item of a batch
    # is generic.  About a third of the items therefore sit EXACTLY on such a regime (seed C06d).
    kind = rs.randint(0, 9, size=n) if n else np.zeros(0, dtype=int)
    for i in range(n):
        if kind[i] == 0:
            s[i] = 1.0                                  # scale exactly 1 (log-scale exactly 0)
        elif kind[i] == 1:
            q[i] = [0.0, 0.0, 0.0, 1.0]                 # identity rotation
        elif kind[i] == 2:
            q[i] = [0.0, 0.0, 0.0, 1.0]; s[i] = 1.0; t[i] = 0.0     # the identity element
    d = {"SO3": q, "SE3": np.concatenate([t, q], 1), "RxSO3": np.concatenate([q, s], 1), "Sim3": np.concatenate([t, q, s], 1)}[lt]
    t_ = torch.tensor(d, dtype=tu.TD[dtype]).reshape(tuple(shape) + (d.shape[1],))
    return pp.LieTensor(_laid_out(t_, rs) if layout else t_, ltype=tu.LT[lt])


def _laid_out(t, rs):
    """the same values in another memory layout: contiguous (1/2), batch dimensions stored in reversed order (a permuted view,
    1/4) or every other row of a twice as long buffer (a strided view, 1/4).  Memory layout is an input dimension of every
    operation: `out=` buffers, view() / reshape() of intermediates and in-place writes behave differently on non-contiguous
    operands (seed C02d: SE3 Log wrote its translation into a reshape copy when the batch dimensions were permuted)."""
    mode = int(rs.randint(0, 4))
    nb = t.dim() - 1
    if mode == 2 and nb >= 2 and t.numel() > 0 and sum(1 for e in t.shape[:-1] if e > 1) >= 2:
        perm = list(range(nb))[::-1] + [nb]
        base = t.permute(*perm).contiguous()              # stored with the batch dimensions reversed
        return base.permute(*perm)                        # ... and viewed in the requested order (perm is an involution)
    if mode == 3 and nb >= 1 and t.shape[0] > 0:
        big = torch.zeros((2 * t.shape[0],) + tuple(t.shape[1:]), dtype=t.dtype)
        big[::2] = t
        return big[::2]
    return t


def _rand_alg(lt, shape, rs, dtype, scale=0.7, layout=False):
    n = int(np.prod(shape)) if len(shape) else 1
    d = scale * rs.randn(n, R.ADIM[lt])
    if lt in ("rxso3", "sim3"):
        d[:, -1] *= 0.3
    kind = rs.randint(0, 9, size=n) if n else np.zeros(0, dtype=int)        # regime-mixed batches, see _rand_group
    r0 = {"so3": 0, "se3": 3, "rxso3": 0, "sim3": 3}[lt]
    for i in range(n):
        if kind[i] == 0 and lt in ("rxso3", "sim3"):
            d[i, -1] = 0.0                              # log-scale exactly 0
        elif kind[i] == 1:
            d[i, r0:r0 + 3] = 0.0                       # rotation part exactly 0
        elif kind[i] == 2:
            d[i, :] = 0.0                               # the zero element
    t_ = torch.tensor(d, dtype=tu.TD[dtype]).reshape(tuple(shape) + (R.ADIM[lt],))
    return pp.LieTensor(_laid_out(t_, rs) if layout else t_, ltype=tu.LT[lt])


def _rand_lie(lt, shape, rs, dtype, layout=False):
    return _rand_group(lt, shape, rs, dtype, layout=layout) if lt in R.GROUPS else _rand_alg(lt, shape, rs, dtype, layout=layout)


_REF0 = {}


def _ref0(key, f, operands, dtype):
    """the op applied to ONE unbatched item per operand (same ltypes / last dimensions): fixes the trailing shape of the result
    when the batch itself is empty.  Depends on (op, ltypes, dtype) only: computed once per process."""
    if key not in _REF0:
        _REF0[key] = f(*_protos(operands, np.random.RandomState(0), dtype))
    return _REF0[key]


def _protos(operands, rs, dtype):
    out = []
    for o in operands:
        if isinstance(o, pp.LieTensor):
            out.append(_rand_lie(tu.LTNAME[o.ltype], [], rs, dtype))
        else:
            out.append(torch.tensor(rs.randn(o.shape[-1]), dtype=tu.TD[dtype]))
    return out


def _itemwise(f, out_shape, operands):
    """apply f to unbatched items of the broadcast operands; returns list of results in C order"""
    exp = []
    for o in operands:
        t = o.tensor() if isinstance(o, pp.LieTensor) else o
        e = t.expand(tuple(out_shape) + (t.shape[-1],))
        exp.append((e, o.ltype if isinstance(o, pp.LieTensor) else None))
    res = []
    for idx in np.ndindex(*out_shape):
        items = []
        for e, lt in exp:
            it = e[idx].clone()
            items.append(pp.LieTensor(it, ltype=lt) if lt is not None else it)
        res.append(f(*items))
    return res


def _compare(rec, what, got, items, ref0, out_shape, dtype, want_ltype, key, device=torch.device("cpu")):
    """`items`: the op applied item by item (C order, may be empty); `ref0`: the op applied to ONE unbatched item (items[0], or a
    reference item of the same types when the batch is empty) - it fixes the trailing shape"""
    eps = tu.EPS[dtype]
    if want_ltype is not None:
        if not rec.check(isinstance(got, pp.LieTensor) and got.ltype == tu.LT[want_ltype], "type:" + key, "%s returned %s/%s, expected LieTensor %s" % (what, type(got).__name__, getattr(got, "ltype", None), want_ltype)):
            return
    else:
        if not rec.check(isinstance(got, torch.Tensor) and not isinstance(got, pp.LieTensor), "type:" + key, "%s returned %s, expected a plain Tensor" % (what, type(got).__name__)):
            return
    rec.check(got.dtype == tu.TD[dtype], "dtype:" + key, "%s returned dtype %s" % (what, got.dtype))
    rec.check(got.device == device, "device:" + key, "%s returned device %s, operands are on %s" % (what, got.device, device))
    g = _t(got)
    tail = tuple(_t(ref0).shape)
    want = tuple(out_shape) + tail
    if not rec.check(tuple(g.shape) == want, ("shape:" if items else "shape_empty:") + key, "%s: shape %s, expected %s%s" % (what, tuple(g.shape), want, "" if items else " (empty batch; one unbatched item gives %s)" % (tail,))):
        return
    if want_ltype is not None:
        rec.check(isinstance(got.lshape, torch.Size) and tuple(got.lshape) == tuple(out_shape), "lshape:" + key, "%s: lshape %s, expected %s" % (what, tuple(got.lshape), tuple(out_shape)))
    if items:
        ref = torch.stack([_t(i) for i in items], 0).reshape(want)
        tol = 8 * eps * max(1.0, float(ref.abs().max()))
        err = float((g - ref).abs().max())
        rec.notes["bc"] = max(rec.notes.get("bc", 0), err / tol)
        rec.notes["bc:" + key.split(":")[0]] = max(rec.notes.get("bc:" + key.split(":")[0], 0), err / tol)      # per op (calibration)
        rec.check(err <= tol, "value:" + key, lambda: "%s: batched result differs from item-by-item application by %.3g (tol %.3g)" % (what, err, tol))


BIN = ("matmul", "mul", "Act3", "Act4", "Adj", "AdjT", "Jinvp", "Retr", "plus", "alg_plus")       # ... and one of:
BIN_ALPHA = ("add_alpha", "alg_add_alpha")          # add(alpha=) with a group / an algebra element on the left (chosen by the case hash)
ALPHAS = (0.5, -1.5, 2, 3)


class BroadcastBinary(Sub):
    name = "broadcast_binary"
    kind = "enum"
    shards = _TierMap(quick=NPROC, thorough=NPROC)
    budget_s = {"quick": 150.0, "thorough": 3000.0}

    @property
    def exhaustive(self):
        # the stated box (rank <= 3) is enumerated completely in the thorough tier only; quick = rank <= 2 box + a rank-3 sample
        return _TierMap.last == "thorough"

    def cases(self, tier):
        # "spell": which of the other documented spellings of an op are called besides the method form - "all" of them (thorough; also the
        # default of a replayed case without the key) or "rotate": for every other op of a case, ONE spelling each, chosen by
        # the case hash, so that over the box every spelling still meets every kind of shape pair (quick: keeps the wall time)
        if tier != "quick":
            for sx, sy, _ in pairs(3):
                for lt in R.GROUPS:
                    yield {"sx": list(sx), "sy": list(sy), "ltype": lt, "spell": "all"}
            return
        for sx, sy, _ in pairs(2):
            for lt in R.GROUPS:
                yield {"sx": list(sx), "sy": list(sy), "ltype": lt, "spell": "rotate"}
        seed = int(os.environ.get("VERIF_SEED", "1") or "1")
        r3 = [p for p in pairs(3) if max(len(p[0]), len(p[1])) == 3]
        rs = np.random.RandomState(dhash("c06-rank3-sample|%d" % seed) % (2 ** 31))
        for pool, n in (([p for p in r3 if 0 not in p[2]], R3_QUICK[0]), ([p for p in r3 if 0 in p[2]], R3_QUICK[1])):
            for i in sorted(rs.choice(len(pool), n, replace=False)):
                sx, sy, _ = pool[i]
                yield {"sx": list(sx), "sy": list(sy), "ltype": R.GROUPS[dhash(repr((sx, sy, seed))) % 4], "spell": "rotate"}

    def oracle(self, case, rec):
        sx, sy, lt = case["sx"], case["sy"], case["ltype"]
        alt = R.ALG_OF[lt]
        out = list(torch.broadcast_shapes(tuple(sx), tuple(sy)))
        h = dhash(repr((sx, sy, lt)))
        dtype = "float64" if h % 2 == 0 else "float32"
        rs = np.random.RandomState(h % (2 ** 31))
        X = _rand_group(lt, sx, rs, dtype, layout=True)
        Y = _rand_group(lt, sy, rs, dtype, layout=True)
        a = _rand_alg(alt, sy, rs, dtype, layout=True)
        p3 = torch.tensor(rs.randn(*(tuple(sy) + (3,))), dtype=tu.TD[dtype])
        p4 = torch.tensor(rs.randn(*(tuple(sy) + (4,))), dtype=tu.TD[dtype])
        V = _rand_alg(alt, sx, rs, dtype, layout=True)                                          # algebra element as LEFT operand
        ta = torch.tensor(0.7 * rs.randn(*(tuple(sy) + (R.ADIM[alt],))), dtype=tu.TD[dtype])     # plain Tensor of algebra width
        tw = torch.tensor(0.5 * rs.randn(*(tuple(sy) + (R.GDIM[lt],))), dtype=tu.TD[dtype])      # ... of group width (documented: the rest is ignored)
        al = ALPHAS[(h >> 8) % len(ALPHAS)]
        expanded = (sx != sy) and (any(e == 1 for e in sx + sy) or len(sx) != len(sy))
        if expanded or 0 in out:
            rec.nt((tuple(sx), tuple(sy), lt))
        rec.label(lt, "rank%d" % len(out), "empty" if 0 in out else "nonempty", "oprank%d" % max(len(sx), len(sy)), "alpha=%s" % al)
        everything = (X, Y, a, p3, p4, V, ta, tw)
        rec.label("layout:" + ("noncontiguous_operand" if any(not _t(o).is_contiguous() for o in (X, Y, a, V)) else "contiguous"))
        snaps = [_t(o).clone() for o in everything]
        # op -> (method form, operands, expected ltype (None: plain Tensor), other documented spellings of the same op)
        table = {
            "matmul": (lambda x, y: x @ y, (X, Y), lt, {"pp.Mul": lambda x, y: pp.Mul(x, y), "pp.mul": lambda x, y: pp.mul(x, y), "x.mul": lambda x, y: x.mul(y)}),
            "mul": (lambda x, y: x * y, (X, Y), lt, {}),            # reference: the items of matmul (same product, `*` spelling)
            "Act3": (lambda x, p: x.Act(p), (X, p3), None, {"pp.Act": lambda x, p: pp.Act(x, p), "x*p": lambda x, p: x * p, "x@p": lambda x, p: x @ p, "pp.mul": lambda x, p: pp.mul(x, p)}),
            "Act4": (lambda x, p: x.Act(p), (X, p4), None, {"pp.Act": lambda x, p: pp.Act(x, p), "x*p": lambda x, p: x * p, "x@p": lambda x, p: x @ p}),
            "Adj": (lambda x, v: x.Adj(v), (X, a), alt, {"pp.Adj": lambda x, v: pp.Adj(x, v), "Adj(Tensor)": lambda x, v: x.Adj(v.tensor())}),
            "AdjT": (lambda x, v: x.AdjT(v), (X, a), alt, {"pp.AdjT": lambda x, v: pp.AdjT(x, v)}),
            "Jinvp": (lambda x, v: x.Jinvp(v), (X, a), alt, {"pp.Jinvp": lambda x, v: pp.Jinvp(x, v)}),
            "Retr": (lambda x, v: x.Retr(v), (X, a), lt, {"pp.Retr": lambda x, v: pp.Retr(x, v)}),
            "plus": (lambda x, v: x + v.tensor(), (X, a), lt, {"pp.add": lambda x, v: pp.add(x, v.tensor()), "x.add": lambda x, v: x.add(v.tensor())}),
            "add_alpha": (lambda x, t: x.add(t, alpha=al), (X, tw), lt, {"pp.add": lambda x, t: pp.add(x, t, alpha=al)}),
            "alg_plus": (lambda v, t: v + t, (V, ta), alt, {"pp.add": lambda v, t: pp.add(v, t), "v.add": lambda v, t: v.add(t)}),
            "alg_add_alpha": (lambda v, t: v.add(t, alpha=al), (V, tw), alt, {"pp.add": lambda v, t: pp.add(v, t, alpha=al)}),
        }
        rotate = case.get("spell", "all") == "rotate"
        for i, op in enumerate(BIN + (BIN_ALPHA[(h >> 12) % 2],)):
            rec.label("op:" + op) if op in BIN_ALPHA else None
            f, operands, wl, aliases = table[op]
            what = "%s on lshapes %s,%s (%s)" % (op, sx, sy, lt)
            with rec.sut(op):
                got = f(*operands)
                if op != "mul":              # x * y and x @ y are the same product: one item-by-item reference serves both
                    items = _itemwise(f, out, operands)
                    ref0 = items[0] if items else _ref0(("bin", op, lt, dtype), f, operands, dtype)
            _compare(rec, what, got, items, ref0, out, dtype, wl, op)
            names = sorted(aliases)
            if rotate and names:             # every other op of a case, one spelling each
                names = [names[(h >> 20) % len(names)]] if ((h >> 16) + i) % 2 == 0 else []
            for an in names:
                fa = aliases[an]
                rec.label("spelled:%s:%s" % (op, an))
                with rec.sut("%s as %s" % (op, an)):
                    ga = fa(*operands)
                _compare(rec, "%s spelled %s" % (what, an), ga, items, ref0, out, dtype, wl, "%s:%s" % (op, an))
        rec.check(all(torch.equal(_t(o), s) for o, s in zip(everything, snaps)), "mutates_input", "a binary op changed an operand")


UNARY_G = ("Log", "Inv", "matrix", "rotation", "translation", "scale", "euler", "tensor", "identity_like", "randn_like", "Jr")
UNARY_A = ("Exp", "Inv", "matrix", "rotation", "translation", "scale", "euler", "tensor", "identity_like", "randn_like", "Jr", "mul_number")
UNARY_F = {"Log": lambda x: x.Log(), "Exp": lambda x: x.Exp(), "Inv": lambda x: x.Inv(), "matrix": lambda x: x.matrix(),
           "rotation": lambda x: x.rotation(), "translation": lambda x: x.translation(), "scale": lambda x: x.scale(),
           "euler": lambda x: x.euler(), "tensor": lambda x: x.tensor(), "Jr": lambda x: x.Jr(),
           "identity_like": lambda x: pp.identity_like(x, dtype=x.dtype), "randn_like": lambda x: pp.randn_like(x, dtype=x.dtype)}
UNARY_ALIAS = {"Log": lambda x: pp.Log(x), "Exp": lambda x: pp.Exp(x), "Inv": lambda x: pp.Inv(x), "matrix": lambda x: pp.matrix(x),
               "rotation": lambda x: pp.rotation(x), "translation": lambda x: pp.translation(x), "scale": lambda x: pp.scale(x),
               "euler": lambda x: pp.euler(x), "tensor": lambda x: pp.tensor(x), "Jr": lambda x: pp.Jr(x)}
NO_TRANSLATION = ("SO3", "RxSO3")      # ... and their algebras: documented to return zero vector(s)
NO_SCALE = ("SO3", "SE3")              # ... and their algebras: documented to return one(s)


class BroadcastUnary(Sub):
    name = "broadcast_unary"
    kind = "enum"
    shards = _TierMap(quick=NPROC, thorough=NPROC)

    @property
    def exhaustive(self):
        # thorough: all 85 lshapes x 8 ltypes; quick: every lshape, but the 64 rank-3 lshapes with 2 of the 8 ltypes only
        return _TierMap.last == "thorough"

    def cases(self, tier):
        for sh in shapes(3):
            lts = R.GROUPS + R.ALGEBRAS
            if tier == "quick" and len(sh) == 3:       # one group and one algebra type per rank-3 lshape: every type gets 16 of the 64, with every extent in every position
                lts = (R.GROUPS[sum(sh) % 4], R.ALGEBRAS[(sh[0] + 2 * sh[1] + 3 * sh[2] + 1) % 4])
            for lt in lts:
                yield {"shape": list(sh), "ltype": lt, "spell": "all" if tier != "quick" else "rotate"}      # see broadcast_binary

    def oracle(self, case, rec):
        sh, lt = case["shape"], case["ltype"]
        h = dhash(repr((sh, lt)))
        dtype = "float64" if h % 2 == 0 else "float32"
        rs = np.random.RandomState(h % (2 ** 31))
        isg = lt in R.GROUPS
        X = _rand_lie(lt, sh, rs, dtype, layout=True)
        X0 = X.tensor().clone()
        rec.label("layout:" + ("contiguous" if X.tensor().is_contiguous() else "noncontiguous_operand"))
        if len(sh) >= 1:
            rec.nt((tuple(sh), lt))
        rec.label(lt, "rank%d" % len(sh), "empty" if 0 in sh else "nonempty")
        glt = lt if isg else R.GRP_OF[lt]
        alt = R.ALG_OF[lt] if isg else lt
        c = (2.5, -0.75, 3)[(h >> 8) % 3]
        rotate = case.get("spell", "all") == "rotate"
        for i, op in enumerate(UNARY_G if isg else UNARY_A):
            if op == "Jr" and lt not in ("SO3", "so3"):
                continue
            aliases = {}
            if op == "mul_number":        # documented in pp.mul: Lie Algebra * Number -> Lie Algebra
                f = lambda x: x * c
                aliases = {"pp.mul": lambda x: pp.mul(x, c), "x.mul": lambda x: x.mul(c)}
            else:
                f = UNARY_F[op]
                if op in UNARY_ALIAS:
                    aliases = {"pp." + op: UNARY_ALIAS[op]}
            wl = {"Log": alt, "Exp": glt, "Inv": lt, "rotation": "SO3", "identity_like": lt, "randn_like": lt, "mul_number": lt}.get(op)
            with warnings.catch_warnings():
                warnings.simplefilter("ignore")
                with rec.sut(op):
                    got = f(X)
                    if op != "randn_like":
                        items = _itemwise(f, sh, (X,))
                        ref0 = items[0] if items else _ref0(("un", op, lt, dtype), f, (X,), dtype)
                    names = sorted(aliases)
                    if rotate and names:         # every other op of a case, one spelling each (see broadcast_binary)
                        names = [names[(h >> 20) % len(names)]] if ((h >> 16) + i) % 2 == 0 else []
                    galias = {an: aliases[an](X) for an in names}
            if op == "randn_like":
                rec.check(isinstance(got, pp.LieTensor) and got.ltype == tu.LT[lt] and tuple(got.shape) == tuple(X.shape) and got.dtype == X.dtype,
                          "randn_like", "randn_like(%s %s): %s %s" % (lt, sh, getattr(got, "ltype", None), tuple(got.shape)))
                continue
            what = "%s on lshape %s (%s)" % (op, sh, lt)
            _compare(rec, what, got, items, ref0, sh, dtype, wl, op)
            for an, ga in galias.items():
                rec.label("spelled:%s:%s" % (op, an))
                _compare(rec, "%s spelled %s" % (what, an), ga, items, ref0, sh, dtype, wl, "%s:%s" % (op, an))
            # a type without translation / scale: the documentation promises zero vector(s) / one(s)
            if op == "translation" and glt in NO_TRANSLATION and isinstance(got, torch.Tensor):
                rec.label("translation_zeros")
                rec.check(tuple(got.shape) == tuple(sh) + (3,) and bool((got == 0).all()), "translation_zeros", "translation() of %s %s: shape %s, not all zeros of shape lshape+(3,)" % (lt, sh, tuple(got.shape)))
            if op == "scale" and glt in NO_SCALE and isinstance(got, torch.Tensor):
                rec.label("scale_ones")
                rec.check(tuple(got.shape) == tuple(sh) + (1,) and bool((got == 1).all()), "scale_ones", "scale() of %s %s: shape %s, not all ones of shape lshape+(1,)" % (lt, sh, tuple(got.shape)))
        # cumulative products along EVERY batch dimension, named by its non-negative index and by its negative index (torch convention,
        # counted on the full tensor: -2 is the last batch dimension): each 1-D line of the batch along that dimension must equal the
        # same call on that line alone (dim 0) - "batched equals item by item" for the scanned operations (seed C06h: a negative
        # dim normalised with the wrong modulus scans another axis; invisible on rank-1 batches and for non-negative dims)
        if isg and len(sh) >= 2 and 0 not in sh:
            r = len(sh)
            cum = (("pp.cumprod", lambda x, d: pp.cumprod(x, d)), ("x.cumprod", lambda x, d: x.cumprod(d)),
                   ("pp.cummul(left=False)", lambda x, d: pp.cummul(x, d, left=False)))[(h >> 12) % 3]
            for d in range(r):
                for dim in (d, d - (r + 1)):
                    with rec.sut("%s(dim=%d)" % (cum[0], dim)):
                        got = cum[1](X, dim)
                        lines = {}
                        for idx in itertools.product(*[range(n_) if a_ != d else (None,) for a_, n_ in enumerate(sh)]):
                            sel = tuple(slice(None) if i_ is None else i_ for i_ in idx)
                            lines[sel] = cum[1](pp.LieTensor(X.tensor()[sel].contiguous().clone(), ltype=tu.LT[lt]), 0)
                    rec.label("cumulative:%s:dim%s" % (cum[0], "neg" if dim < 0 else "pos"))
                    if not rec.check(isinstance(got, pp.LieTensor) and got.ltype == tu.LT[lt] and tuple(got.shape) == tuple(X.shape),
                                     "cumulative:type", "%s(dim=%d) on lshape %s: %s %s" % (cum[0], dim, sh, getattr(got, "ltype", None), tuple(got.shape))):
                        continue
                    for sel, ln in lines.items():
                        g_, w_ = tu.npy(got.tensor()[sel]), tu.npy(ln.tensor())
                        tol_ = 64 * sh[d] * tu.EPS[dtype] * max(1.0, float(np.abs(w_).max()))
                        if not rec.check(bool(np.all(np.isfinite(g_))) and float(np.abs(g_ - w_).max()) <= tol_, "cumulative:line:%s" % lt,
                                         lambda: "%s(dim=%d) on lshape %s (%s): the line %s differs from the same call on that line alone by %.3g"
                                         % (cum[0], dim, sh, lt, sel, float(np.abs(g_ - w_).max()))):
                            break
        # every operation once more on the SAME object after its values were changed in place (an optimiser step, add_, copy_): must
        # equal the operation on a fresh tensor with the new values.  A result / matrix cached on the object and never invalidated
        # is invisible to any single call (seeds C01d, C05e).
        if X.numel() > 0:
            Xalt = _rand_lie(lt, sh, rs, dtype)
            with torch.no_grad():
                X.tensor().copy_(Xalt.tensor())
            rec.label("reuse_after_inplace_change")
            for op in (UNARY_G if isg else UNARY_A):
                if op in ("randn_like", "mul_number") or (op == "Jr" and lt not in ("SO3", "so3")):
                    continue
                f = UNARY_F[op]
                with warnings.catch_warnings():
                    warnings.simplefilter("ignore")
                    with rec.sut(op + " (same object, values changed in place)"):
                        again = f(X)
                        fresh = f(pp.LieTensor(Xalt.tensor().clone(), ltype=tu.LT[lt]))
                ga, fr = _t(again), _t(fresh)
                tolr = 64 * tu.EPS[dtype] * (1.0 + (float(fr.abs().max()) if fr.numel() and bool(torch.isfinite(fr).all()) else 0.0))
                rec.check(ga.shape == fr.shape and bool(torch.allclose(ga, fr, rtol=0, atol=tolr, equal_nan=True)), "reuse:" + op,
                          lambda: "%s of a %s whose values were changed in place differs from %s of a fresh element with the same values by %.3g: "
                          "a result cached on the object?" % (op, lt, op, float((ga - fr).abs().max()) if ga.shape == fr.shape and ga.numel() else float("nan")))
            with torch.no_grad():
                X.tensor().copy_(X0)
        # lshape / lview
        d = X.shape[-1]
        with rec.sut("lshape"):
            ls = X.lshape
        rec.check(isinstance(ls, torch.Size) and tuple(ls) == tuple(sh), "lshape", "lshape of a %s of lshape %s is %r" % (lt, sh, ls))
        flat = X0.reshape(-1, d)
        rev = list(reversed(sh)) if sh else [1, 1]
        Xorig = X
        if not X.tensor().is_contiguous():
            # lview is documented as Tensor.view with the last dimension hidden: like view it refuses strides it cannot express
            # (torch's rule, loud); its claims are checked on a contiguous element with the same items
            rec.label("lview:on_contiguous_copy")
            X = pp.LieTensor(X0.contiguous().clone(), ltype=tu.LT[lt])
        with rec.sut("lview"):
            views = {"lview(-1)": (X.lview(-1), flat), "lview(*%s)" % rev: (X.lview(*rev), X0.reshape(tuple(rev) + (d,)))}
        for nme, (v, want) in views.items():
            if rec.check(isinstance(v, pp.LieTensor) and v.ltype == tu.LT[lt], "lview_type", "%s of a %s returned %s/%s" % (nme, lt, type(v).__name__, getattr(v, "ltype", None))):
                rec.check(v.shape == want.shape and tuple(v.lshape) == tuple(want.shape[:-1]) and torch.equal(v.tensor(), want), "lview_data", "%s of a %s of lshape %s: shape %s, expected %s holding the items in C order" % (nme, lt, sh, tuple(v.shape), tuple(want.shape)))
        if sh:
            # documented: `shape (torch.Size or int...)`
            try:
                v = X.lview(torch.Size(rev))
            except TypeError as e:
                if "lview_size_arg" in KNOWN_OPEN:
                    rec.label("known_open:lview_size_arg")
                else:
                    rec.fail("lview_size_arg", "lview(torch.Size(%s)) raised TypeError: %s" % (rev, str(e)[:200]))
            else:
                rec.check(isinstance(v, pp.LieTensor) and v.ltype == tu.LT[lt] and torch.equal(v.tensor(), X0.reshape(tuple(rev) + (d,))), "lview_size_data", "lview(torch.Size(%s)) of a %s: wrong type / items" % (rev, lt))
        X = Xorig
        rec.check(torch.equal(X.tensor(), X0), "mutates_input", "a unary op changed its operand")


# ------------------------------------------------------------------------------------
# handled torch functions
def _bd(x):
    return x.dim() - 1       # number of batch dims


def T_getitem(x, k):
    n = _bd(x)
    kind = k[0] % 5
    if n == 0 or kind == 0:
        return x[...]
    d0 = x.shape[0]
    if d0 == 0:              # empty leading dim: slices, empty masks and empty index tensors are the only valid selections
        if kind == 1:
            return x[0:0]
        if kind == 2:
            return x[0:]
        if kind == 3:
            return x[torch.zeros(0, dtype=torch.bool)]
        return x[torch.zeros(0, dtype=torch.int64)]
    if kind == 1:
        return x[k[1] % d0]
    if kind == 2:
        return x[(k[1] % d0):]
    if kind == 3:
        m = torch.tensor([(k[1] >> i) & 1 == 1 for i in range(d0)])
        return x[m]
    return x[torch.tensor([k[1] % d0, k[2] % d0])]


def _perm(n, k):
    p = list(range(n))
    rs = np.random.RandomState(k)
    rs.shuffle(p)
    return p


TEMPLATES = {
    "__getitem__": (0, T_getitem),
    "cpu": (0, lambda x, k: x.cpu()),
    "float": (0, lambda x, k: x.float().to(x.dtype)),
    "double": (0, lambda x, k: x.double().to(x.dtype)),
    "to": (0, lambda x, k: x.to(torch.float64 if k[0] % 2 else x.dtype).to(x.dtype)),
    "detach": (0, lambda x, k: x.detach()),
    "clone": (0, lambda x, k: x.clone()),
    "view": (1, lambda x, k: x.view(-1, x.shape[-1])),
    "view_as": (1, lambda x, k: x.view_as((x.tensor() if isinstance(x, pp.LieTensor) else x).reshape(-1, x.shape[-1]))),
    "reshape": (1, lambda x, k: x.reshape((1, -1, x.shape[-1]) if k[0] % 2 else (-1, 1, x.shape[-1]))),
    "squeeze": (1, lambda x, k: x.unsqueeze(0).squeeze(0)),
    "unsqueeze": (0, lambda x, k: x.unsqueeze(k[0] % (_bd(x) + 1))),
    "cat": (1, lambda x, k: torch.cat([x, x], dim=k[0] % _bd(x))),
    "concat": (1, lambda x, k: torch.concat([x, x], dim=k[0] % _bd(x))),
    "stack": (0, lambda x, k: torch.stack([x, x], dim=k[0] % (_bd(x) + 1))),
    "vstack": (1, lambda x, k: torch.vstack([x, x])),
    "row_stack": (1, lambda x, k: torch.row_stack([x, x])),
    "hstack": (2, lambda x, k: torch.hstack([x, x])),
    "column_stack": (2, lambda x, k: torch.column_stack([x, x])),
    "dstack": (3, lambda x, k: torch.dstack([x, x])),
    "split": (1, lambda x, k: torch.split(x, 1, dim=k[0] % _bd(x))[k[1] % x.shape[k[0] % _bd(x)]]),
    "chunk": (1, lambda x, k: torch.chunk(x, 2, dim=k[0] % _bd(x))[0]),
    "tensor_split": (1, lambda x, k: torch.tensor_split(x, 2, dim=k[0] % _bd(x))[-1]),
    "vsplit": (2, lambda x, k: torch.vsplit(x, x.shape[0])[k[0] % x.shape[0]]),
    "hsplit": (2, lambda x, k: torch.hsplit(x, x.shape[1])[k[0] % x.shape[1]]),
    "dsplit": (3, lambda x, k: torch.dsplit(x, x.shape[2])[k[0] % x.shape[2]]),
    "unbind": (1, lambda x, k: torch.unbind(x, dim=k[0] % _bd(x))[k[1] % x.shape[k[0] % _bd(x)]]),
    "index_select": (1, lambda x, k: torch.index_select(x, k[0] % _bd(x), torch.tensor([k[1] % x.shape[k[0] % _bd(x)], 0]))),
    "narrow": (1, lambda x, k: torch.narrow(x, k[0] % _bd(x), 0, 1)),
    "select": (1, lambda x, k: torch.select(x, k[0] % _bd(x), k[1] % x.shape[k[0] % _bd(x)])),
    "movedim": (2, lambda x, k: torch.movedim(x, 0, _bd(x) - 1)),
    "moveaxis": (2, lambda x, k: torch.moveaxis(x, 0, _bd(x) - 1)),
    "permute": (1, lambda x, k: x.permute(*(_perm(_bd(x), k[0]) + [_bd(x)]))),
    "swapaxes": (2, lambda x, k: torch.swapaxes(x, 0, 1)),
    "swapdims": (2, lambda x, k: torch.swapdims(x, 0, _bd(x) - 1)),
    "transpose": (2, lambda x, k: torch.transpose(x, 0, 1)),
    "tile": (1, lambda x, k: x.tile((2,) + (1,) * _bd(x))),
    "repeat": (0, lambda x, k: x.repeat((2,) * _bd(x) + (1,))),
    "expand": (0, lambda x, k: x.unsqueeze(0).expand((3,) + tuple(x.shape))),
    "expand_as": (0, lambda x, k: x.unsqueeze(0).expand_as(torch.empty((2,) + tuple(x.shape)))),
    "gather": (1, lambda x, k: torch.gather(x, 0, torch.zeros((1,) + tuple(x.shape[1:]), dtype=torch.int64) + (k[0] % x.shape[0]))),
    "take_along_dim": (1, lambda x, k: torch.take_along_dim(x, torch.zeros((1,) + tuple(x.shape[1:]), dtype=torch.int64) + (k[0] % x.shape[0]), dim=0)),
    "scatter": (1, lambda x, k: torch.scatter(x, 0, torch.zeros((1,) + tuple(x.shape[1:]), dtype=torch.int64) + (k[0] % x.shape[0]), x[:1] if not isinstance(x, pp.LieTensor) else x.tensor()[:1])),
    "scatter_add": (1, lambda x, k: torch.scatter_add(x, 0, torch.zeros((1,) + tuple(x.shape[1:]), dtype=torch.int64), torch.zeros_like(x[:1] if not isinstance(x, pp.LieTensor) else x.tensor()[:1]))),
    "select_scatter": (1, lambda x, k: torch.select_scatter(x, (x if not isinstance(x, pp.LieTensor) else x.tensor())[k[0] % x.shape[0]], 0, (k[1]) % x.shape[0])),
    "index_copy": (1, lambda x, k: torch.index_copy(x, 0, torch.tensor([k[0] % x.shape[0]]), (x if not isinstance(x, pp.LieTensor) else x.tensor())[:1])),
    "index_copy_": (1, lambda x, k: x.clone().index_copy_(0, torch.tensor([k[0] % x.shape[0]]), (x if not isinstance(x, pp.LieTensor) else x.tensor())[:1])),
    "index_put": (1, lambda x, k: torch.index_put(x, (torch.tensor([k[0] % x.shape[0]]),), (x if not isinstance(x, pp.LieTensor) else x.tensor())[:1])),
    "index_put_": (1, lambda x, k: x.clone().index_put_((torch.tensor([k[0] % x.shape[0]]),), (x if not isinstance(x, pp.LieTensor) else x.tensor())[:1])),
    "copy_": (0, lambda x, k: x.clone().copy_(x)),
    "__setitem__": (1, lambda x, k: _setitem(x, k)),
}
# cannot keep the last dimension: outside the statement (only data equality is checked)
LOOSE = {
    "masked_select": (0, lambda x, k: torch.masked_select(x, (x if not isinstance(x, pp.LieTensor) else x.tensor()) > 0)),
    "take": (0, lambda x, k: torch.take(x, torch.tensor([0, 1]))),
}
SKIPPED = {"cuda": "no CUDA device in the sandbox",
           "copy": "there is no torch function of that name (copy.copy is a Python-level protocol, outside the statement)"}


def _setitem(x, k):
    y = x.clone()
    y[k[0] % y.shape[0]] = (x if not isinstance(x, pp.LieTensor) else x.tensor())[0]
    return y


NA = (RuntimeError, IndexError, ZeroDivisionError)      # raised by a template on the PLAIN tensor: not applicable to this shape
EXTENTS = (0, 1, 1, 1, 2, 2, 2, 3, 3, 3)                # batch extents of the handled programs: 0 (empty LieTensor) in one dim of ten


class Handled(Sub):
    fuzz_runs = 30000
    name = "handled"
    n = {"quick": 4000, "thorough": 100000}

    def strategy(self, tier):
        names = sorted(TEMPLATES)

        @st.composite
        def s(draw):
            lt = draw(st.sampled_from(R.GROUPS + R.ALGEBRAS))
            rank = draw(st.integers(0, 3))
            shape = [draw(st.sampled_from(EXTENTS)) for _ in range(rank)]
            steps = [{"f": draw(st.sampled_from(names)), "k": [draw(st.integers(0, 1000)) for _ in range(3)]}
                     for _ in range(draw(st.integers(1, 4)))]
            return {"ltype": lt, "dtype": draw(st.sampled_from(gen.DTYPES)), "shape": shape, "steps": steps,
                    "seed": draw(st.integers(0, 10 ** 6)), "param": draw(st.booleans())}
        return s()

    def oracle(self, case, rec):
        lt, dtype = case["ltype"], case["dtype"]
        rs = np.random.RandomState(case["seed"])
        x = _rand_lie(lt, case["shape"], rs, dtype)
        if case["param"]:
            x = pp.Parameter(x)
        t = x.tensor().detach().clone()
        changed = on_empty = False
        rec.label("start:empty" if 0 in case["shape"] else "start:nonempty")
        for stp in case["steps"]:
            need, f = TEMPLATES[stp["f"]]
            if _bd(x) < need:
                rec.label("skipped_rank:" + stp["f"])
                continue
            empty = 0 in t.shape
            with warnings.catch_warnings():
                warnings.simplefilter("ignore")
                try:
                    tt = f(t, stp["k"])      # the same program on the plain tensor (harness side, no pypose code involved)
                except NA:                   # e.g. view of a non-contiguous tensor, an index into an empty dim: template not applicable here
                    rec.label("template_na:" + stp["f"])
                    continue
                with rec.sut(stp["f"]):
                    y = f(x, stp["k"])
            rec.label("fn:" + stp["f"])
            if empty:
                rec.label("empty:fn:" + stp["f"])
                on_empty = True
            if tt.shape[-1:] != t.shape[-1:]:
                rec.label("lastdim_changed:" + stp["f"])   # outside the statement
                return
            if tt.dim() != t.dim() or stp["f"] in ("permute", "transpose", "swapaxes", "swapdims", "movedim", "moveaxis"):
                changed = True
            if not rec.check(isinstance(y, pp.LieTensor) and getattr(y, "ltype", None) == tu.LT[lt], "ltype_lost:" + stp["f"],
                             "%s on a %s %s of shape %s returned %s with ltype %s" % (stp["f"], lt, "Parameter" if case["param"] else "LieTensor", tuple(t.shape), type(y).__name__, getattr(y, "ltype", None))):
                return
            if not rec.check(y.shape == tt.shape and torch.equal(y.tensor().detach(), tt.detach()), "data:" + stp["f"],
                             "%s on shape %s: data differs from the same call on the plain tensor" % (stp["f"], tuple(t.shape))):
                return
            x, t = y, tt
        if changed or on_empty:
            rec.nt((lt, tuple(s["f"] for s in case["steps"]), len(case["shape"]), case["param"], on_empty))

    def simplify(self, case):
        st_ = case["steps"]
        for i in range(len(st_)):
            if len(st_) > 1:
                yield dict(case, steps=st_[:i] + st_[i + 1:])
        if case["param"]:
            yield dict(case, param=False)


EMPTY_SHAPES = ([2, 0, 3], [0, 2, 2], [2, 3, 0])


class HandledTable(Sub):
    """every HANDLED_FUNCTIONS name has a template (or a stated reason); loose functions keep the data; Parameter round trips;
    every template also on three empty batches"""
    name = "handled_table"
    kind = "enum"
    exhaustive = True

    def cases(self, tier):
        from pypose.lietensor.lietensor import HANDLED_FUNCTIONS
        for nme in sorted(set(HANDLED_FUNCTIONS)):
            for lt in R.GROUPS + R.ALGEBRAS:
                yield {"f": nme, "ltype": lt}
        for lt in R.GROUPS + R.ALGEBRAS:
            yield {"f": "<parameter_roundtrips>", "ltype": lt}
        for lt in R.GROUPS + R.ALGEBRAS:
            yield {"f": "<template_of_another_ltype>", "ltype": lt}

    def oracle(self, case, rec):
        nme, lt = case["f"], case["ltype"]
        rs = np.random.RandomState(dhash(nme + lt) % (2 ** 31))
        x = _rand_lie(lt, [2, 3, 2], rs, "float64")
        rec.nt((nme, lt))
        if nme == "<template_of_another_ltype>":
            # shape-only functions that take a SECOND tensor only as a shape / dtype template (expand_as, view_as, reshape_as, type_as,
            # to(other)): the result is "a LieTensor of the same ltype holding exactly the selected items" - the ltype of the FIRST
            # argument, whatever the template is (a LieTensor of another type with the same width, or of any type for to / type_as)
            d = x.shape[-1]
            others = [o for o in R.GROUPS + R.ALGEBRAS if o != lt and (R.GDIM[o] if o in R.GROUPS else R.ADIM[o]) == d]
            anyo = [o for o in R.GROUPS + R.ALGEBRAS if o != lt]
            x1 = _rand_lie(lt, [1, 3, 1], rs, "float64")
            for o in others:
                t = _rand_lie(o, [2, 3, 2], rs, "float64")
                with rec.sut("expand_as / view_as / reshape_as with a %s template" % o):
                    outs = {"expand_as": (x1.expand_as(t), x1.tensor().expand_as(t.tensor())), "view_as": (x.view_as(t), x.tensor()),
                            "reshape_as": (x.reshape_as(t), x.tensor())}
                from pypose.lietensor.lietensor import HANDLED_FUNCTIONS as _HF
                for k, (y, want) in outs.items():
                    if k not in _HF:
                        rec.label("template:not_a_handled_function:" + k)      # outside the claim: plain tensors are fine
                        continue
                    rec.label("template:%s:%s<-%s" % (k, lt, o))
                    rec.check(isinstance(y, pp.LieTensor) and y.ltype == tu.LT[lt] and torch.equal(y.tensor(), want), "template_ltype:" + k,
                              "%s of a %s with a %s template: ltype %s (expected %s) / data %s" % (k, lt, o, getattr(y, "ltype", None), lt,
                                                                                                "equal" if isinstance(y, torch.Tensor) and y.shape == want.shape and torch.equal(_t(y), want) else "differs"))
            from pypose.lietensor.lietensor import HANDLED_FUNCTIONS as _HF2
            for o in anyo[:3]:
                t32 = _rand_lie(o, [2], rs, "float32")
                with rec.sut("to / type_as with a %s template" % o):
                    outs = {"to(other)": x.to(t32), "type_as": x.type_as(t32)}
                for k, y in outs.items():
                    if k.split("(")[0] not in _HF2:
                        rec.label("template:not_a_handled_function:" + k)
                        continue
                    rec.label("template:%s:%s<-%s" % (k, lt, o))
                    rec.check(isinstance(y, pp.LieTensor) and y.ltype == tu.LT[lt] and y.dtype == torch.float32 and torch.equal(y.tensor(), x.tensor().to(torch.float32)),
                              "template_ltype:" + k, "%s of a %s with a float32 %s template: ltype %s dtype %s" % (k, lt, o, getattr(y, "ltype", None), getattr(y, "dtype", None)))
            return
        if nme == "<parameter_roundtrips>":
            for xx, tag in ((x, ""), (_rand_lie(lt, [2, 0], rs, "float64"), "_empty")):
                p = pp.Parameter(xx)
                with rec.sut("Parameter round trips"):
                    outs = {"deepcopy": copy.deepcopy(p), "clone": p.clone(), "detach": p.detach(), "to": p.to(torch.float32), "getitem": p[0]}
                for k, o in outs.items():
                    rec.check(isinstance(o, pp.LieTensor) and o.ltype == tu.LT[lt], "param:" + k + tag, "Parameter.%s lost the ltype (%s)" % (k, type(o).__name__))
                rec.check(isinstance(outs["deepcopy"], pp.Parameter) and torch.equal(outs["deepcopy"].tensor(), p.tensor()), "param:deepcopy_type" + tag, "deepcopy(Parameter) is not an equal Parameter")
            return
        if nme in SKIPPED:
            rec.label("skipped:" + nme)
            return
        if nme in LOOSE:
            _, f = LOOSE[nme]
            with warnings.catch_warnings():
                warnings.simplefilter("ignore")
                with rec.sut(nme):
                    y = f(x, [1, 2, 3])
            tt = f(x.tensor(), [1, 2, 3])
            rec.check(torch.equal(torch.Tensor.as_subclass(y, torch.Tensor), tt), "loose_data:" + nme, "%s: data differs" % nme)
            return
        if not rec.check(nme in TEMPLATES, "no_template", "handled function %s has no call template in the harness" % nme):
            return
        _, f = TEMPLATES[nme]
        reached = 0
        for xx in [x] + [_rand_lie(lt, sh, rs, "float64") for sh in EMPTY_SHAPES]:
            empty = 0 in xx.shape
            for k in ([1, 2, 3], [4, 1, 0], [7, 5, 2]):
                with warnings.catch_warnings():
                    warnings.simplefilter("ignore")
                    try:
                        tt = f(xx.tensor(), k)
                    except NA:
                        if not empty:
                            raise             # every template applies to the (2,3,2) batch: anything else is a harness error
                        continue
                    with rec.sut(nme):
                        y = f(xx, k)
                if tt.shape[-1:] != xx.shape[-1:]:
                    continue
                reached += empty
                if rec.check(isinstance(y, pp.LieTensor) and getattr(y, "ltype", None) == tu.LT[lt], "ltype_lost:" + nme,
                             "%s on a %s LieTensor of shape %s returned %s with ltype %s" % (nme, lt, tuple(xx.shape), type(y).__name__, getattr(y, "ltype", None))):
                    rec.check(y.shape == tt.shape and torch.equal(y.tensor(), tt), "data:" + nme, "%s on shape %s: data differs from the plain-tensor call" % (nme, tuple(xx.shape)))
        rec.label("on_empty:%d" % min(reached, 9))


# ------------------------------------------------------------------------------------
# non-mutation
def _nls():
    class M(pp.module.NLS):
        def state_transition(self, state, input, t=None):
            return 0.9 * state + 0.1 * state.sin() + input
        def observation(self, state, input, t=None):
            return state + 0.2 * state.cos() + input
    return M()


class _PoseModel(torch.nn.Module):
    """the model of the modjac docstring: one LieTensor parameter, forward(x) = Exp(p) * x"""
    def __init__(self, p0):
        super().__init__()
        self.p = pp.Parameter(p0)

    def forward(self, x):
        return (self.p.Exp() * x).tensor()


def _calls(rs, dt):
    """name -> (callable, thunk making the list of tensor arguments).  Only the thunk of the selected call is evaluated, so every
    call gets fresh arguments that are a pure function of (seed, dtype, name).
    EVERY entry works on the current tree for valid (generated) arguments - a call that raises is reported as a failure by the
    oracle; an entry that is documented to be unsupported for a type must not be added here."""
    dn = "float64" if dt == torch.float64 else "float32"
    T = lambda *s: torch.tensor(rs.randn(*s), dtype=dt)
    G = lambda lt, *s: _rand_group(lt, list(s), rs, dn)
    A = lambda lt, *s: _rand_alg(lt, list(s), rs, dn)
    spd = lambda n: (lambda M: M @ M.mT + n * torch.eye(n, dtype=dt))(T(n, n))
    pts = T(12, 3)
    K = torch.tensor([[300.0, 0, 160.0], [0, 300.0, 120.0], [0, 0, 1.0]], dtype=dt)
    cam = T(8, 3) + torch.tensor([0, 0, 6.0], dtype=dt)
    calls = {}
    for lt in R.GROUPS:
        alt = R.ALG_OF[lt]
        calls["%s.matmul" % lt] = (lambda x, y: x @ y, lambda lt=lt, alt=alt: [G(lt, 3), G(lt, 3)])
        calls["%s.Inv" % lt] = (lambda x: x.Inv(), lambda lt=lt, alt=alt: [G(lt, 3)])
        calls["%s.Log" % lt] = (lambda x: pp.Log(x), lambda lt=lt, alt=alt: [G(lt, 3)])
        calls["%s.Exp" % alt] = (lambda x: pp.Exp(x), lambda lt=lt, alt=alt: [A(alt, 3)])
        calls["%s.Act" % lt] = (lambda x, p: pp.Act(x, p), lambda lt=lt, alt=alt: [G(lt, 3), T(3, 3)])
        calls["%s.Act4" % lt] = (lambda x, p: x.Act(p), lambda lt=lt, alt=alt: [G(lt, 3), T(3, 4)])
        calls["%s.Adj" % lt] = (lambda x, a: pp.Adj(x, a), lambda lt=lt, alt=alt: [G(lt, 3), A(alt, 3)])
        calls["%s.AdjT" % lt] = (lambda x, a: pp.AdjT(x, a), lambda lt=lt, alt=alt: [G(lt, 3), A(alt, 3)])
        calls["%s.Jinvp" % lt] = (lambda x, a: pp.Jinvp(x, a), lambda lt=lt, alt=alt: [G(lt, 3), A(alt, 3)])
        calls["%s.Retr" % lt] = (lambda x, a: pp.Retr(x, a), lambda lt=lt, alt=alt: [G(lt, 3), A(alt, 3)])
        calls["%s.add" % lt] = (lambda x, a: pp.add(x, a), lambda lt=lt, alt=alt: [G(lt, 3), T(3, R.ADIM[alt])])
        calls["%s.plus" % lt] = (lambda x, a: x + a, lambda lt=lt, alt=alt: [G(lt), T(3, R.ADIM[alt])])
        # optional arguments matter too: alpha scaling of the increment must not be done on the caller's tensor
        calls["%s.add_alpha" % lt] = (lambda x, a: pp.add(x, a, alpha=0.5), lambda lt=lt, alt=alt: [G(lt, 3), T(3, R.ADIM[alt])])
        calls["%s.method_add_alpha" % lt] = (lambda x, a: x.add(a, alpha=2), lambda lt=lt, alt=alt: [G(lt), T(3, R.ADIM[alt])])
        calls["%s.add_lie_alpha" % lt] = (lambda x, a: x.add(a, alpha=-1.5), lambda lt=lt, alt=alt: [G(lt, 3), A(alt, 3)])
        calls["%s.alg_add_alpha" % lt] = (lambda x, a: pp.add(x, a, alpha=3), lambda lt=lt, alt=alt: [A(alt, 3), T(3, R.ADIM[alt])])
        calls["%s.mul" % lt] = (lambda x, y: pp.mul(x, y), lambda lt=lt, alt=alt: [G(lt, 3), G(lt, 3)])
        calls["%s.matrix" % lt] = (lambda x: pp.matrix(x), lambda lt=lt, alt=alt: [G(lt, 3)])
        calls["%s.rotation" % lt] = (lambda x: pp.rotation(x), lambda lt=lt, alt=alt: [G(lt, 3)])
        calls["%s.euler" % lt] = (lambda x: pp.euler(x), lambda lt=lt, alt=alt: [G(lt, 3)])
        calls["%s.tensor" % lt] = (lambda x: pp.tensor(x), lambda lt=lt, alt=alt: [G(lt, 3)])
        calls["%s.quat2unit" % lt] = (lambda x: pp.quat2unit(x), lambda lt=lt, alt=alt: [pp.LieTensor(G(lt, 3).tensor() * 1.5 if lt == "SO3" else G(lt, 3).tensor(), ltype=tu.LT[lt])])
        calls["%s.cumprod" % lt] = (lambda x: pp.cumprod(x, 0), lambda lt=lt, alt=alt: [G(lt, 5)])
        calls["%s.cummul" % lt] = (lambda x: pp.cummul(x, 0, left=False), lambda lt=lt, alt=alt: [G(lt, 5)])
        calls["%s.cumops" % lt] = (lambda x: pp.cumops(x, 0, lambda a, b: a @ b), lambda lt=lt, alt=alt: [G(lt, 5)])
        calls["%s.identity_like" % lt] = (lambda x: pp.identity_like(x), lambda lt=lt, alt=alt: [G(lt, 3)])
        calls["%s.randn_like" % lt] = (lambda x: pp.randn_like(x), lambda lt=lt, alt=alt: [G(lt, 3)])
        calls["%s.from_matrix" % lt] = (lambda m, _lt=lt: pp.from_matrix(m, tu.LT[_lt]), lambda lt=lt, alt=alt: [G(lt, 3).matrix()])
        calls["%s.geodesic" % lt] = (lambda x, y: pp.geodesic_loss(x, y), lambda lt=lt, alt=alt: [G(lt, 3), G(lt, 3)])
    q = G("SO3", 3)
    calls["quat2unit_unnormalised"] = (lambda x: pp.quat2unit(x), lambda: [pp.LieTensor(q.tensor() * 2.0, ltype=pp.SO3_type)])
    calls["so3.Jr"] = (lambda x: pp.Jr(x), lambda: [A("so3", 3)])
    calls["euler2SO3"] = (lambda e: pp.euler2SO3(e), lambda: [T(3, 3)])
    calls["vec2skew"] = (lambda v: pp.vec2skew(v), lambda: [T(3, 3)])
    calls["mat2SO3"] = (lambda m: pp.mat2SO3(m), lambda: [G("SO3", 2).matrix()])
    calls["cart2homo"] = (lambda p: pp.cart2homo(p), lambda: [T(4, 3)])
    calls["homo2cart"] = (lambda p: pp.homo2cart(p), lambda: [T(4, 4) + 3.0])
    calls["point2pixel"] = (lambda p, k: pp.point2pixel(p, k), lambda: [cam.clone(), K.clone()])
    calls["point2pixel_ext"] = (lambda p, k, e: pp.point2pixel(p, k, e), lambda: [cam.clone(), K.clone(), pp.identity_SE3(dtype=dt)])
    calls["pixel2point"] = (lambda px, d, k: pp.pixel2point(px, d, k), lambda: [T(8, 2), T(8).abs() + 1, K.clone()])
    calls["reprojerr"] = (lambda p, px, k: pp.reprojerr(p, px, k), lambda: [cam.clone(), T(8, 2), K.clone()])
    calls["knn"] = (lambda a, b: pp.knn(a, b, k=2), lambda: [T(6, 3), T(9, 3)])
    calls["knn_opts"] = (lambda a, b: pp.knn(a, b, k=3, ord=1, largest=True, sorted=False), lambda: [T(6, 3), T(9, 3)])
    calls["nbr_filter_mask"] = (lambda p: pp.nbr_filter(p, nbr=2, radius=1.5, pdim=2, return_mask=True), lambda: [pts.clone()])
    calls["knn_filter_pdim"] = (lambda p: pp.knn_filter(p, k=2, pdim=2, ord=1), lambda: [pts.clone()])
    calls["chspline_batch"] = (lambda p: pp.chspline(p, 0.3), lambda: [T(2, 5, 3)])
    calls["bspline_extra"] = (lambda p: pp.bspline(p, 0.3, extrapolate=True), lambda: [G("SE3", 5)])
    calls["svdstf_noscale"] = (lambda a, b: pp.svdstf(a, b, with_scale=False), lambda: [pts.clone(), T(12, 3)])
    calls["reprojerr_ext"] = (lambda p, px, k, e: pp.reprojerr(p, px, k, e, reduction="sum"), lambda: [cam.clone(), T(8, 2), K.clone(), G("SE3")])
    calls["svdtf"] = (lambda a, b: pp.svdtf(a, b), lambda: [pts.clone(), T(12, 3)])
    calls["svdstf"] = (lambda a, b: pp.svdstf(a, b), lambda: [pts.clone(), T(12, 3)])
    calls["nbr_filter"] = (lambda p: pp.nbr_filter(p, nbr=1, radius=2.0), lambda: [pts.clone()])
    calls["voxel_filter"] = (lambda p: pp.voxel_filter(p, [1.0, 1.0, 1.0]), lambda: [pts.clone()])
    calls["voxel_filter_random"] = (lambda p: pp.voxel_filter(p, [1.0, 1.0, 1.0], random=True), lambda: [pts.clone()])
    calls["knn_filter"] = (lambda p: pp.knn_filter(p, k=2), lambda: [pts.clone()])
    calls["knn_filter_radius"] = (lambda p: pp.knn_filter(p, k=1, radius=10.0), lambda: [pts.clone()])
    calls["random_filter"] = (lambda p: pp.random_filter(p, 4), lambda: [pts.clone()])
    calls["chspline"] = (lambda p: pp.chspline(p, 0.25), lambda: [T(5, 3)])
    calls["bspline"] = (lambda p: pp.bspline(p, 0.25), lambda: [G("SE3", 6)])
    calls["bmv"] = (lambda m, v: pp.bmv(m, v), lambda: [T(2, 3, 4), T(2, 4)])
    calls["bvv"] = (lambda a, b: pp.bvv(a, b), lambda: [T(2, 3), T(2, 4)])
    calls["bvmv"] = (lambda a, m, b: pp.bvmv(a, m, b), lambda: [T(2, 3), T(2, 3, 4), T(2, 4)])
    calls["pm"] = (lambda v: pp.pm(v), lambda: [T(5)])
    calls["hasnan"] = (lambda v: pp.hasnan(v), lambda: [T(5)])
    # metrics (timestamps are tensor arguments too)
    n = 12
    st1 = torch.arange(n, dtype=torch.float64) * 0.1
    st2 = st1 + 0.003
    calls["ape"] = (lambda s1, p1, s2, p2: pp.metric.ape(s1, p1, s2, p2), lambda: [st1.clone(), G("SE3", n), st2.clone(), G("SE3", n)])
    calls["ape_offset"] = (lambda s1, p1, s2, p2: pp.metric.ape(s1, p1, s2, p2, offset=0.004), lambda: [st1.clone(), G("SE3", n), st2.clone(), G("SE3", n)])
    calls["rpe"] = (lambda s1, p1, s2, p2: pp.metric.rpe(s1, p1, s2, p2), lambda: [st1.clone(), G("SE3", n), st2.clone(), G("SE3", n)])
    calls["rpe_offset"] = (lambda s1, p1, s2, p2: pp.metric.rpe(s1, p1, s2, p2, offset=-0.002), lambda: [st1.clone(), G("SE3", n), st2.clone(), G("SE3", n)])
    # kernels / correctors / solvers
    ker = pp.optim.kernel
    for nme, kk in (("Huber", ker.Huber(1.0)), ("PseudoHuber", ker.PseudoHuber(1.0)), ("Cauchy", ker.Cauchy(1.0)), ("SoftLOne", ker.SoftLOne(1.0)),
                    ("Arctan", ker.Arctan(1.0)), ("Tolerant", ker.Tolerant(1.0, -0.5)), ("Scale", ker.Scale(0.5))):
        calls["kernel." + nme] = (lambda x, _k=kk: _k(x), lambda: [T(6).abs() * 2])
    Rr, Jj = T(4, 3), T(12, 5)
    calls["FastTriggs"] = (lambda r, j: pp.optim.corrector.FastTriggs(ker.Huber(1.0))(R=r, J=j), lambda: [Rr.clone(), Jj.clone()])
    calls["Triggs"] = (lambda r, j: pp.optim.corrector.Triggs(ker.Cauchy(1.0))(R=r, J=j), lambda: [Rr.clone(), Jj.clone()])
    S = spd(5)
    sol = pp.optim.solver
    calls["solver.PINV"] = (lambda a, b: sol.PINV()(a, b), lambda: [T(6, 4), T(6, 1)])
    calls["solver.LSTSQ"] = (lambda a, b: sol.LSTSQ()(a, b), lambda: [T(6, 4), T(6, 1)])
    calls["solver.Cholesky"] = (lambda a, b: sol.Cholesky()(a, b), lambda: [S.clone(), T(5, 1)])
    calls["solver.CG"] = (lambda a, b: sol.CG()(a, b), lambda: [S.clone(), T(5, 1)])
    calls["solver.CG_x0_M"] = (lambda a, b, x, m: sol.CG()(a, b, x=x, M=m), lambda: [S.clone(), T(5, 1), T(5, 1), torch.diag(1.0 / torch.diag(S)).clone()])
    # modules
    N = 2
    Q, Rm, P = 0.01 * torch.eye(N, dtype=dt), 0.02 * torch.eye(N, dtype=dt), spd(N)
    for nme, cls in (("EKF", pp.module.EKF), ("UKF", pp.module.UKF), ("PF", pp.module.PF)):
        calls["module." + nme] = (lambda x, y, u, p, q_, r_, _c=cls: _c(_nls().to(dt))(x, y, u, p, q_, r_), lambda: [T(N), T(N), T(N), P.clone(), Q.clone(), Rm.clone()])
    nsx, nu, Th = 3, 2, 4
    lti = lambda: pp.module.LTI(T(nsx, nsx) * 0.3, T(nsx, nu), torch.eye(nsx, dtype=dt), torch.zeros(nsx, nu, dtype=dt))
    Qc = torch.eye(nsx + nu, dtype=dt).repeat(1, Th, 1, 1)
    calls["module.LQR"] = (lambda x0, qq, pv: pp.module.LQR(lti(), qq, pv, Th)(x0), lambda: [T(1, nsx), Qc.clone(), T(1, Th, nsx + nu)])
    src = T(30, 3)
    Tt = G("SE3")
    calls["module.ICP"] = (lambda s, t: pp.module.ICP()(s, t), lambda: [src.clone(), Tt.Act(src).clone()])
    P3 = T(10, 3) + torch.tensor([0, 0, 8.0], dtype=dt)
    calls["module.EPnP"] = (lambda p, px, k: pp.module.EPnP()(p, px, k), lambda: [P3.clone(), pp.point2pixel(P3, K), K.clone()])
    calls["module.IMU"] = (lambda d, g, a: pp.module.IMUPreintegrator().to(dt)(dt=d, gyro=g, acc=a), lambda: [torch.full((1, 5, 1), 0.01, dtype=dt), T(1, 5, 3), T(1, 5, 3)])
    calls["geodesic_loss"] = (lambda x, y: pp.geodesic_loss(x, y), lambda: [G("SE3", 3), G("SO3", 3)])
    # ---- functional aliases / accessors / shape helpers that the table did not call before
    for lt in R.GROUPS:
        alt = R.ALG_OF[lt]
        calls["%s.pp_Inv" % lt] = (lambda x: pp.Inv(x), lambda lt=lt, alt=alt: [G(lt, 3)])
        calls["%s.pp_Mul" % lt] = (lambda x, y: pp.Mul(x, y), lambda lt=lt, alt=alt: [G(lt, 3), G(lt, 1)])
        calls["%s.translation" % lt] = (lambda x: pp.translation(x), lambda lt=lt, alt=alt: [G(lt, 3)])
        calls["%s.scale" % lt] = (lambda x: pp.scale(x), lambda lt=lt, alt=alt: [G(lt, 3)])
        calls["%s.mul_points" % lt] = (lambda x, p: x * p, lambda lt=lt, alt=alt: [G(lt, 3), T(3, 3)])
        calls["%s.lview" % lt] = (lambda x: x.lview(-1), lambda lt=lt, alt=alt: [G(lt, 2, 2)])
        calls["%s.accessors" % alt] = (lambda a: (a.Inv(), a * 2.0, a.matrix(), a.rotation(), pp.translation(a), pp.scale(a), a.euler()), lambda lt=lt, alt=alt: [A(alt, 3)])
        calls["%s.add_wide" % lt] = (lambda x, a: x + a, lambda lt=lt, alt=alt: [G(lt, 3), T(3, R.GDIM[lt])])
    calls["SO3.Jr"] = (lambda x: pp.Jr(x), lambda: [G("SO3", 3)])
    # converters (documented inputs: (*,3,3), (*,3,4) or (*,4,4))
    calls["mat2SE3"] = (lambda m: pp.mat2SE3(m), lambda: [G("SE3", 3).matrix()])
    calls["mat2SE3_3x4"] = (lambda m: pp.mat2SE3(m), lambda: [G("SE3", 3).matrix()[..., :3, :].clone()])
    calls["mat2Sim3"] = (lambda m: pp.mat2Sim3(m), lambda: [G("Sim3", 3).matrix()])
    calls["mat2Sim3_3x4"] = (lambda m: pp.mat2Sim3(m), lambda: [G("Sim3", 3).matrix()[..., :3, :].clone()])
    calls["mat2RxSO3"] = (lambda m: pp.mat2RxSO3(m), lambda: [G("RxSO3", 3).matrix()])
    calls["mat2RxSO3_3x3"] = (lambda m: pp.mat2RxSO3(m), lambda: [G("RxSO3", 3).matrix()[..., :3, :3].clone()])
    calls["mat2SO3_nocheck"] = (lambda m: pp.mat2SO3(m, check=False), lambda: [G("SO3", 3).matrix() * 1.01])
    # Jacobian helpers (the parameter of the model passed as argument counts as a tensor argument)
    fn = pp.optim.functional

    def _with_model(call):
        def make():
            m = _PoseModel(A("so3", 2))
            x = G("SO3")
            return [x, m.p, m]
        return (lambda x, p, m: call(m, x)), make
    calls["modjac"] = _with_model(lambda m, x: fn.modjac(m, x))
    calls["modjac_flatten"] = _with_model(lambda m, x: fn.modjac(m, x, flatten=True))
    calls["modjac_vectorize"] = _with_model(lambda m, x: fn.modjac(m, x, vectorize=True))

    def _modjacrev(m, x):
        with pp.retain_ltype():
            return fn.modjacrev(m, x)
    calls["modjacrev"] = _with_model(_modjacrev)
    calls["func.jacrev"] = (lambda x, p: pp.func.jacrev(lambda a, b: a @ b)(x, p), lambda: [G("SE3", 1), T(1, 3)])
    calls["func.jacrev_argnums"] = (lambda x, p: pp.func.jacrev(lambda a, b: a.Act(b), argnums=(0, 1))(x, p), lambda: [G("Sim3", 2), T(2, 3)])
    calls["func.jacrev_chain"] = (lambda x, y: pp.func.jacrev(lambda a, b: (a.Inv() @ b).Log().tensor())(x, y), lambda: [G("SE3", 2), G("SE3", 2)])

    # sparse block product (BSR x BSC)
    def _blocks():
        a, b = T(4, 6), T(6, 4)
        a[:2, :3] = 0
        b[3:, 2:] = 0
        return [a.to_sparse_bsr((2, 3)), b.to_sparse_bsc((3, 2))]
    calls["bsr_bsc_matmul"] = (lambda a, b: pp.sparse.bsr_bsc_matmul(a, b), _blocks)
    # MPC on the LTI system of module.LQR
    calls["module.MPC"] = (lambda x0, qq, pv, u0: pp.module.MPC(lti(), qq, pv, Th, stepper=pp.utils.ReduceToBason(steps=3, verbose=False))(0.1, x0, u_init=u0),
                           lambda: [T(1, nsx), Qc.clone(), T(1, Th, nsx + nu), T(1, Th, nu)])
    return calls


def _parts(a):
    """the tensors that make up an argument (values and indices of a sparse compressed tensor)"""
    if isinstance(a, pp.LieTensor):
        a = a.tensor()
    a = a.detach()
    if a.layout in (torch.sparse_bsr, torch.sparse_csr):
        return [a.crow_indices(), a.col_indices(), a.values()]
    if a.layout in (torch.sparse_bsc, torch.sparse_csc):
        return [a.ccol_indices(), a.row_indices(), a.values()]
    return [a]


class NoMutate(Sub):
    name = "nomutate"
    n = {"quick": 1800, "thorough": 36000}

    def strategy(self, tier):
        names = sorted(_calls(np.random.RandomState(0), torch.float64))
        return st.fixed_dictionaries({"name": st.sampled_from(names), "seed": st.integers(0, 10 ** 6), "dtype": st.sampled_from(gen.DTYPES)})

    def oracle(self, case, rec):
        dt = tu.TD[case["dtype"]]
        rs = np.random.RandomState(case["seed"])
        torch.manual_seed(case["seed"])
        f, make = _calls(rs, dt)[case["name"]]
        args = make()
        targs = [a for a in args if isinstance(a, torch.Tensor)]       # (a model passed along for the call is not a tensor argument)
        snaps = [[p.clone() for p in _parts(a)] for a in targs]
        err = None
        with warnings.catch_warnings():
            warnings.simplefilter("ignore")
            try:
                f(*args)
            except Exception as e:       # reported below, after the arguments have been compared (a call may mutate and then raise)
                err = e
        rec.label("call:" + case["name"])
        if any(p.numel() >= 2 for s in snaps for p in s):
            rec.nt((case["name"], case["dtype"]))
        for i, (a, s) in enumerate(zip(targs, snaps)):
            for cur, old in zip(_parts(a), s):
                same = cur.shape == old.shape and (torch.equal(cur, old) or bool(((cur == old) | (cur.isnan() & old.isnan())).all()))
                rec.check(same, "mutated:" + case["name"].split(".")[-1], "%s changed its tensor argument #%d" % (case["name"], i))
        if err is not None:
            # every table entry works on the unchanged tree for the generated (valid) arguments: a raise is a failure, not a skip
            rec.label("call_raised:%s:%s" % (case["name"], type(err).__name__))
            with rec.sut("table call " + case["name"]):
                raise err


# ------------------------------------------------------------------------------------
# restoration of patched torch internals
_PATCHED = [("torch.autograd.forward_ad", "make_dual"), ("torch._functorch.eager_transforms", "_wrap_tensor_for_grad"),
            ("torch._functorch.vmap", "_add_batch_dim")]
_ORIG = {(m, n): getattr(importlib.import_module(m), n) for m, n in _PATCHED}
EXC = {"RuntimeError": RuntimeError, "ValueError": ValueError, "KeyError": KeyError, "ZeroDivisionError": ZeroDivisionError, "none": None}
# where the fault happens: a user `raise` between ops / inside a pypose op / in the backward (vjp) phase
WHERE = ("user", "op_assert", "op_shape", "op_type", "backward")
WHERE_DRAW = ("user", "user", "user", "backward", "backward", "op_assert", "op_shape", "op_type")      # sampling weights
OP_FAULT = {"op_assert": AssertionError,     # X.Act(p) with p.shape[-1] == 5: `assert` inside *Type.Act
            "op_shape": RuntimeError,        # X @ Y with lshapes (2,3) and (4,): torch.broadcast_shapes inside broadcast_inputs
            "op_type": AttributeError}       # Log of a Lie algebra element: LieType.Log


def _bwd_fault(exc):
    class F(torch.autograd.Function):
        generate_vmap_rule = True

        @staticmethod
        def forward(x):
            return x * 2.0

        @staticmethod
        def setup_context(ctx, inputs, output):
            return

        @staticmethod
        def backward(ctx, g):
            if exc is not None:
                raise exc("injected fault in the backward pass")
            return g * 2.0
    return F


_BWD = {k: _bwd_fault(v) for k, v in EXC.items()}


class Restore(Sub):
    name = "restore"
    n = {"quick": 1200, "thorough": 30000}

    def strategy(self, tier):
        return st.fixed_dictionaries({
            "ltype": st.sampled_from(R.GROUPS), "k": st.integers(0, 5), "exc": st.sampled_from(sorted(EXC)), "where": st.sampled_from(WHERE_DRAW),
            "mode": st.sampled_from(("retain", "pp_jacrev", "nested", "repeat", "torch_jacrev_in_retain")), "seed": st.integers(0, 10 ** 6)})

    def oracle(self, case, rec):
        lt, k, exc, mode = case["ltype"], case["k"], EXC[case["exc"]], case["mode"]
        where = case.get("where", "user")
        rs = np.random.RandomState(case["seed"])
        X = _rand_group(lt, [1], rs, "float64")
        p = torch.tensor(rs.randn(1, 3))
        jac = mode in ("pp_jacrev", "torch_jacrev_in_retain")
        expected = OP_FAULT.get(where, exc)

        def body(x):
            y = x
            for i in range(k):
                y = y @ x if i % 2 == 0 else y.Inv()
            if where == "user" and exc is not None:
                raise exc("injected fault after %d ops" % k)
            if where == "op_assert":
                return y.Act(torch.zeros(1, 5, dtype=torch.float64))
            if where == "op_shape":
                return (y @ _rand_group(lt, [2, 3], rs, "float64")) @ _rand_group(lt, [4], rs, "float64")
            if where == "op_type":
                return y.Log().Log()
            out = y.Act(p)
            if where == "backward":
                out = _BWD[case["exc"]].apply(out)
                if not jac:                  # no transform runs a backward pass here: do it with plain autograd inside the context
                    out.sum().backward()
            return out

        def arg():
            return X if (jac or where != "backward") else X.clone().requires_grad_(True)

        def run():
            if mode == "retain":
                with pp.retain_ltype():
                    body(arg())
            elif mode == "pp_jacrev":
                pp.func.jacrev(body)(X)
            elif mode == "torch_jacrev_in_retain":
                with pp.retain_ltype():
                    torch.func.jacrev(body)(X)
            elif mode == "nested":
                with pp.retain_ltype():
                    with pp.retain_ltype():
                        body(arg())
            else:
                for _ in range(3):
                    try:
                        with pp.retain_ltype():
                            body(arg())
                    except Exception:
                        pass
                with pp.retain_ltype():
                    body(arg())
        raised = None
        try:
            run()
        except Exception as e:
            raised = e
        if expected is not None:
            rec.check(raised is not None and isinstance(raised, expected), "fault_swallowed", "the %s fault (%s) did not propagate out of %s (got %r)" % (where, expected.__name__, mode, raised))
        else:
            rec.check(raised is None, "raises_without_fault", "no fault injected, but %s raised %r" % (mode, raised))
        rec.label(mode, case["exc"] if where in ("user", "backward") else expected.__name__, "where:" + where)
        if k >= 1:
            rec.nt((mode, case["exc"], k, lt, where))
        for (m, nme), orig in _ORIG.items():
            cur = getattr(importlib.import_module(m), nme)
            if not rec.check(cur is orig, "not_restored:" + nme, "after %s with a %s fault (%s): %s.%s is %r, not the original function" % (mode, where, getattr(expected, "__name__", "none"), m, nme, cur)):
                setattr(importlib.import_module(m), nme, orig)      # repair so later cases are independent
        t = torch.tensor([0.3, -0.7], dtype=torch.float64)
        J = torch.func.jacrev(lambda v: v.sin())(t)
        rec.check(type(J) is torch.Tensor and torch.allclose(J, torch.diag(t.cos())), "plain_jacrev_broken", "torch.func.jacrev on plain tensors misbehaves afterwards")


SUBS = [BroadcastBinary(), BroadcastUnary(), Handled(), HandledTable(), NoMutate(), Restore()]


def selftest():
    assert len(shapes(2)) == 21 and len(shapes(3)) == 85
    assert len(pairs(2)) == 231 and len(pairs(3)) == 2479
    # quick = rank<=2 box x 4 types + the rank-3 sample; thorough = the whole box x 4 types
    b = BroadcastBinary()
    q = list(b.cases("quick"))
    assert len(q) == 231 * 4 + sum(R3_QUICK) and len(list(b.cases("thorough"))) == 2479 * 4
    assert all(max(len(c["sx"]), len(c["sy"])) == 3 for c in q[231 * 4:])
    u = BroadcastUnary()
    assert len(list(u.cases("quick"))) == 21 * 8 + 64 * 2 and len(list(u.cases("thorough"))) == 85 * 8
    assert {tuple(c["shape"]) for c in u.cases("quick")} == set(shapes(3))
    # the item-wise oracle itself broadcasts like torch
    rs = np.random.RandomState(0)
    X = _rand_group("SE3", [2, 1], rs, "float64"); Y = _rand_group("SE3", [3], rs, "float64")
    items = _itemwise(lambda a, b: a @ b, [2, 3], (X, Y))
    assert len(items) == 6 and tuple(items[0].shape) == (7,)
    # reference items for an empty batch have the operands' types
    pr = _protos((X, torch.zeros(0, 3)), rs, "float64")
    assert pr[0].ltype == pp.SE3_type and tuple(pr[0].shape) == (7,) and tuple(pr[1].shape) == (3,)
    assert tuple(_ref0(("selftest",), lambda x, p: x.Act(p), (X, torch.zeros(0, 3)), "float64").shape) == (3,)
