"""C20 - stopping controllers stop exactly on their documented conditions, within budget."""
import copy
import itertools
import math
import numpy as np
import torch
import pypose as pp
from torch import nn
from hypothesis import strategies as st
from pypose.optim.optimizer import _Optimizer
from pypose.optim.scheduler import StopOnPlateau
from pypose.utils.stepper import ReduceToBason

from ..core import Sub, CaseAbort, _frame_of, eval_case
from ..ref import controllers as RC
from ..ref.controllers import Automaton, relation, step_failed, all_below, failed_under, INF

PROPERTY = "C20"
RULE = ("Reference automaton (vp/ref/controllers.py: steps, patience_count, continual, last loss) written from the "
        "property statement / docstrings: stop at the first step where steps>=budget, or `patience` consecutive steps "
        "failed to decrease by `decreasing`, or (StopOnPlateau) reject_count>0, or (ReduceToBason) all losses<tol. "
        "Losses are positive float32-representable numbers on which the absolute (last-loss), relative-to-last and "
        "relative-to-new readings of 'decrease by the configured amount' agree with a factor 2 to spare and no loss is "
        "within 1e-4 of tol (the statement does not choose a reading).  StopOnPlateau is driven through a stub "
        "_Optimizer exposing only last/loss/reject_count.  enum: EVERY history over {big decrease x0.7, small "
        "decrease x(1-2e-6), equal, increase x1.3} x {rejected, not} (StopOnPlateau, 8 symbols) resp. + below-tol "
        "(ReduceToBason, 5 symbols), threshold 1e-4, start 1.0, of length <= steps+2 for steps 1..4 x patience 1..3 "
        "(quick) / <= min(12, steps+3) for steps 1..6 x patience 1..4 (thorough); one case = one (controller, steps, "
        "patience, prefix) subtree walked depth-first with shared prefixes (state_dict/load_state_dict resp. deepcopy at "
        "branch points).  After EVERY step up to and including the stopping step continual(), .steps, "
        ".patience_count equal the automaton's; after the stop continual() must stay False whatever follows (counters "
        "are not asserted after the stop: undocumented); ReduceToBason: at every node a deep copy is reset() and every "
        "attribute must equal a freshly constructed controller's, and at stop nodes the reset copy is driven again "
        "against a fresh automaton.  sequences: Hypothesis histories of <= 60 events (python float / 0-dim f32,f64 "
        "tensors / batched tensors of 2..4 losses with per-element symbols, reset() at arbitrary points, reuse after "
        "reset, budgets 1..70, patience 1..6, thresholds 1e-6..1e-3, tol 1e-5..10).  drivers: "
        "StopOnPlateau.optimize on a scripted stub (exact stop step) and on real GN/LM optimizers (tiny least-squares "
        "model), MPC and ICP called three times on the same object (stepper reused) with a counting wrapper around "
        "stepper.step: #controller steps <= steps in every call, and the stop step must be a fresh automaton's under at "
        "least one of the three readings (batched costs/errors: all-elements rule).  "
        "Non-trivial: the history contains a step after the stop (this includes >= 2 causes becoming true at different "
        "steps) or a reset / a repeated driver call; distinct = (controller, steps, patience, abstract history).  In "
        "enum one case covers many histories: the labels 'histories_checked(x100)', 'nontrivial_histories(x100)' count "
        "them in units of 100 (floor per case; every history is counted by exactly one case) and only every 4th "
        "(quick) / 2048th (thorough) non-trivial history contributes a descriptor to distinct_nontrivial.")
ASSUMPTIONS = ["losses are positive and finite; steps >= 1, patience >= 1, decreasing > 0 (drivers: >= 0), tol > 0",
               "first step after construction / reset() has no previous loss and cannot count as a failed step",
               "batched losses: a step counts as failed when all elements failed (ReduceToBason.step docstring)",
               "StopOnPlateau documents no reset(); 'restores the initial state' is checked for ReduceToBason only",
               "counters (.steps, .patience_count) after the stopping step are not part of the statement",
               "MPC documents 'n-1 loops, 1 loop with gradient': its effective budget is read from stepper.max_steps"]

THR_E, TOL_E, L0_E, BELOW_E = 1e-4, 1e-5, 1.0, float(np.float32(1e-7))
SYM = {"S": "dseiDSEI", "R": "dseib"}
SUBTREE = {"S": 5, "R": 5}          # levels fully enumerated inside one case
FLOOR, CEIL = 0.05, 100.0


def f32(x):
    return float(np.float32(x))


class _Enough(Exception):
    pass


class _Overrun(Exception):
    """a driver loop ran past every documented stopping condition"""


OWN_FILES = ("stepper.py", "scheduler.py", "mpc.py", "icp.py")


def _driver_exc(rec, what, e):
    """an exception inside a driver loop: a failure of this property only when it comes from the controller / loop code"""
    fr = _frame_of(e)
    if fr.split(":")[0] in OWN_FILES:
        _sut_fail(rec, what, e)
    rec.label("foreign_exception:" + fr)
    raise CaseAbort()


def _sut_fail(rec, what, e):
    rec.fail("raises:%s@%s" % (type(e).__name__, _frame_of(e)), "%s raised %s: %s" % (what, type(e).__name__, str(e)[:300]))
    raise CaseAbort()


class StubOpt(_Optimizer):
    """exposes exactly what StopOnPlateau reads: .last, .loss and (optionally) .reject_count"""

    def __init__(self, with_reject=True):      # deliberately no torch.optim state
        self.last = self.loss = None
        if with_reject:
            self.reject_count = 0


def _conv(x, vtype):
    if vtype == "float":
        return x
    return torch.tensor(x, dtype=torch.float32 if vtype == "t32" else torch.float64)


def _state_diff(a, b):
    """names of attributes that differ between two vars() dicts"""
    bad = [k for k in set(a) ^ set(b)]
    for k in set(a) & set(b):
        x, y = a[k], b[k]
        if torch.is_tensor(x) or torch.is_tensor(y):
            ok = torch.is_tensor(x) and torch.is_tensor(y) and x.dtype == y.dtype and x.shape == y.shape and torch.equal(x, y)
        else:
            ok = bool(x == y)
        if not ok:
            bad.append(k)
    return sorted(bad)


def _ladder(cur, ch):
    c = ch.lower()
    if c == "d":
        return f32(cur * 0.7)
    if c == "s":
        return f32(cur * (1 - 2e-6))
    if c == "i":
        return f32(cur * 1.3)
    return cur


# =====================================================================================
class Enum(Sub):
    name = "enum"
    kind = "enum"
    exhaustive = True
    budget_s = {"quick": 200.0, "thorough": 6000.0}
    nt_rate = {"quick": 4, "thorough": 2048}      # every k-th non-trivial history gets a distinctness descriptor

    @staticmethod
    def box(tier):
        if tier == "quick":
            return [(s, p, s + 2) for s in range(1, 5) for p in range(1, 4)]
        return [(s, p, min(12, s + 3)) for s in range(1, 7) for p in range(1, 5)]

    def cases(self, tier):
        for ctrl in ("S", "R"):
            for steps, patience, maxlen in self.box(tier):
                k = max(0, maxlen - SUBTREE[ctrl])
                for pre in itertools.product(SYM[ctrl], repeat=k):
                    yield {"ctrl": ctrl, "steps": steps, "patience": patience, "prefix": "".join(pre), "maxlen": maxlen,
                           "rate": self.nt_rate[tier]}

    # ---------------------------------------------------------------------------------
    def oracle(self, case, rec):
        ctrl, steps, patience, prefix, maxlen = (case[k] for k in ("ctrl", "steps", "patience", "prefix", "maxlen"))
        assert set(prefix) <= set(SYM[ctrl]) and len(prefix) <= maxlen
        S = {"n": 0, "nt": 0, "multi": 0, "nfail": 0, "fails": {}, "causes": set(), "nts": []}
        rate = int(case.get("rate", 1))
        tag = "%s|%d|%d|" % (ctrl, steps, patience)

        def bad(bucket, hist, msg):
            cur = S["fails"].get(bucket)
            if cur is None or len(hist) < len(cur[0]):
                S["fails"][bucket] = (hist, msg)
            S["nfail"] += 1
            if S["nfail"] > 200:
                raise _Enough()

        def compare(obs, aut, running, hist, own=True):
            """after one step: obs = (continual(), .steps, .patience_count) of the controller, aut the automaton;
            running = automaton continual BEFORE the step; own = this case is the one that counts the history"""
            got, gsteps, gpc = obs
            got = bool(got)
            S["n"] += own
            if running:
                if got is not aut.continual:
                    if got:
                        bad("%s:stops_late:%s" % (ctrl, "+".join(aut.stop_causes)), hist,
                            "continual() still True although %s holds at step %d" % ("+".join(aut.stop_causes), aut.steps))
                    else:
                        bad("%s:stops_early" % ctrl, hist, "continual() is %r at step %d where no documented condition "
                            "holds (steps %d/%d, failed run %d/%d)" % (got, aut.steps, aut.steps, steps, aut.patience_count, patience))
                if gsteps != aut.steps:
                    bad("%s:steps_counter" % ctrl, hist, ".steps = %r, %d steps were made" % (gsteps, aut.steps))
                if gpc != aut.patience_count:
                    bad("%s:patience_counter" % ctrl, hist, ".patience_count = %r, the current run of failed steps is %d"
                        % (gpc, aut.patience_count))
                if not aut.continual:
                    S["causes"].add("+".join(aut.stop_causes))
            else:
                if own:
                    S["nt"] += 1
                    if aut.causes_at_different_steps():
                        S["multi"] += 1
                    if S["nt"] % rate == 0:
                        S["nts"].append(tag + hist)
                if got is not False:
                    bad("%s:rearmed" % ctrl, hist, "continual() is %r at step %d although the controller stopped at step %d "
                        "(%s) and was not reset" % (got, aut.steps, aut.stop_step, "+".join(aut.stop_causes)))

        try:
            if ctrl == "S":
                self._walk_S(steps, patience, prefix, maxlen, rec, compare, bad)
            else:
                self._walk_R(steps, patience, prefix, maxlen, rec, compare, bad)
        except _Enough:
            pass
        for bucket, (hist, msg) in sorted(S["fails"].items()):
            rec.fail(bucket, "steps=%d patience=%d history %r: %s" % (steps, patience, hist, msg))
        for d in S["nts"]:
            rec.nt(d)
        rec.label("%s:s%d:p%d:len<=%d" % (ctrl, steps, patience, maxlen))
        for c in S["causes"]:
            rec.label("%s:first_stop:%s" % (ctrl, c))
        rec.labels.extend(["histories_checked(x100)"] * (S["n"] // 100))
        rec.labels.extend(["nontrivial_histories(x100)"] * (S["nt"] // 100))
        rec.labels.extend(["histories_2causes_at_different_steps(x100)"] * (S["multi"] // 100))
        rec.notes["histories_per_case"] = S["n"]
        rec.notes["nontrivial_histories_per_case"] = S["nt"]

    # ---------------------------------------------------------------------------------
    def _walk_S(self, steps, patience, prefix, maxlen, rec, compare, bad):
        stub = StubOpt(True)
        try:
            sched = StopOnPlateau(stub, steps=steps, patience=patience, decreasing=THR_E)
            ok0 = bool(sched.continual()) and sched.steps == 0 and sched.patience_count == 0
        except Exception as e:
            _sut_fail(rec, "StopOnPlateau()", e)
        if not ok0:
            bad("S:initial", "", "fresh scheduler: continual()/steps/patience_count are not True/0/0")
        if hasattr(sched, "reset"):
            rec.label("S:has_reset(unchecked)")
        aut = Automaton(steps, patience)
        syms, npre = SYM["S"], len(prefix)

        def visit(depth, hist, cur, sstate, astate):
            for ch in (prefix[depth] if depth < npre else syms):
                sched.load_state_dict(sstate)
                aut.set(astate)
                new, rej = _ladder(cur, ch), ch.isupper()
                rel = relation(cur, new, THR_E)
                assert rel is not None, (cur, new)
                stub.last, stub.loss, stub.reject_count = cur, new, (1 if rej else 0)
                try:
                    sched.step(new)
                    obs = (sched.continual(), sched.steps, sched.patience_count)
                except Exception as e:
                    _sut_fail(rec, "StopOnPlateau.step", e)
                aut.step(rel == "fail", rej)
                h = hist + ch
                compare(obs, aut, astate[2], h, depth >= npre - 1 or set(prefix[depth + 1:]) <= {syms[0]})
                if depth + 1 < maxlen:
                    visit(depth + 1, h, new, sched.state_dict(), aut.get())

        visit(0, "", L0_E, sched.state_dict(), aut.get())

    # ---------------------------------------------------------------------------------
    def _walk_R(self, steps, patience, prefix, maxlen, rec, compare, bad):
        kw = dict(steps=steps, patience=patience, decreasing=THR_E, tol=TOL_E)
        try:
            root = ReduceToBason(**kw)
            fresh = dict(vars(ReduceToBason(**kw)))
            ok0 = bool(root.continual()) and root.steps == 0 and root.patience_count == 0
        except Exception as e:
            _sut_fail(rec, "ReduceToBason()", e)
        if not ok0:
            bad("R:initial", "", "fresh stepper: continual()/steps/patience_count are not True/0/0")
        aut = Automaton(steps, patience)
        syms, npre = SYM["R"], len(prefix)

        def check_reset(c, hist, probe):
            c2 = copy.deepcopy(c)
            try:
                c2.reset()
                cont = c2.continual()
            except Exception as e:
                _sut_fail(rec, "ReduceToBason.reset", e)
            for k in _state_diff(dict(vars(c2)), fresh):
                bad("R:reset:attr:%s" % k, hist, "after reset() attribute %s = %r, a fresh controller has %r"
                    % (k, vars(c2).get(k), fresh.get(k)))
            if not cont:
                bad("R:reset:continual", hist, "continual() is %r right after reset()" % (cont,))
            if probe:       # reuse after reset: one first step, then `patience` equal losses
                pa = Automaton(steps, patience)
                for j in range(patience + 1):
                    run = pa.continual
                    try:
                        c2.step(1.0)
                        o = (c2.continual(), c2.steps, c2.patience_count)
                    except Exception as e:
                        _sut_fail(rec, "ReduceToBason.step after reset", e)
                    pa.step(j > 0, False, False)
                    if run and (bool(o[0]) is not pa.continual or o[1] != pa.steps or o[2] != pa.patience_count):
                        bad("R:reuse_after_reset", hist + "|reset|" + "e" * (j + 1), "after reset the controller has "
                            "continual/steps/patience_count = %r/%r/%r, a fresh one %r/%r/%r" % (
                                o[0], o[1], o[2], pa.continual, pa.steps, pa.patience_count))
                        break

        def visit(depth, hist, cur, last, node, astate):
            for ch in (prefix[depth] if depth < npre else syms):
                c = copy.deepcopy(node)
                aut.set(astate)
                if ch == "b":
                    new, ncur = BELOW_E, cur
                else:
                    new = ncur = _ladder(cur, ch)
                rel, below = relation(last, new, THR_E), all_below([new], TOL_E)
                assert (rel is not None and below is not None) or not astate[2], (last, new)
                try:
                    c.step(new)
                    obs = (c.continual(), c.steps, c.patience_count)
                except Exception as e:
                    _sut_fail(rec, "ReduceToBason.step", e)
                aut.step(rel == "fail", False, bool(below))
                h = hist + ch
                compare(obs, aut, astate[2], h, depth >= npre - 1 or set(prefix[depth + 1:]) <= {syms[0]})
                check_reset(c, h, probe=(aut.stop_step == depth + 1))
                if depth + 1 < maxlen:
                    visit(depth + 1, h, ncur, new, c, aut.get())

        check_reset(root, "", probe=True)
        visit(0, "", L0_E, INF, root, aut.get())

    # ---------------------------------------------------------------------------------
    def simplify(self, case):
        pre, ml, ctrl = case["prefix"], case["maxlen"], case["ctrl"]
        if ml > max(1, len(pre)):
            yield dict(case, maxlen=max(1, len(pre)))
            yield dict(case, maxlen=ml - 1)
        for i in range(len(pre)):
            yield dict(case, prefix=pre[:i] + pre[i + 1:], maxlen=max(1, min(ml, len(pre) - 1)) if ml == len(pre) else ml)
        if len(pre) < ml:
            for ch in SYM[ctrl]:
                yield dict(case, prefix=pre + ch)
        for k in ("steps", "patience"):
            if case[k] > 1:
                yield dict(case, **{k: case[k] - 1})

    def size(self, case):
        return 1000 * (case["maxlen"] - len(case["prefix"])) + 10 * case["maxlen"] + case["steps"] + case["patience"]


# =====================================================================================
PROFILES = {"descent": "ddddddddddddsei", "plateau": "dsseeiiIj", "mixed": "dddddsseeiIjb", "tolish": "ddddbbbeIj"}
SHAPES = {"float": None, "t32": [], "t64": [], "b2": [2], "b3": [3], "b2x2": [2, 2]}


def _realise(cur, sym, u, thr, tol):
    """next loss of one element for an intended symbol; falls back to 'equal' when the result would be ambiguous"""
    if sym == "d":
        new = cur * (0.5 + 0.45 * u)
    elif sym == "s":
        new = cur - 0.4 * thr * min(1.0, cur) * (0.1 + 0.9 * u)
    elif sym == "i":
        new = cur + 0.4 * thr * min(1.0, cur) * (0.1 + 0.9 * u)
    elif sym == "I":
        new = cur * (1.05 + 4.0 * u)
    elif sym == "j" or (sym == "b" and tol is None):
        new = FLOOR * (CEIL / FLOOR) ** u
    elif sym == "b":
        new = tol * (0.2 + 0.7 * u)
    else:
        new = cur
    new = f32(min(max(new, FLOOR), CEIL))
    if relation(cur, new, thr) is None or (tol is not None and all_below([new], tol) is None):
        return cur
    return new


def _first(u, tol):
    new = f32(FLOOR * (CEIL / FLOOR) ** u)
    if tol is not None and all_below([new], tol) is None:
        new = f32(new * 1.01)
    return new


class Sequences(Sub):
    fuzz_runs = 20000     # thorough tier: additional coverage-guided (atheris) campaign, same strategy / oracle
    name = "sequences"
    n = {"quick": 6000, "thorough": 150000}

    def strategy(self, tier):
        U = st.integers(0, 31)

        @st.composite
        def s(draw):
            ctrl = draw(st.sampled_from("RRS"))
            steps = draw(st.one_of(st.integers(1, 8), st.integers(1, 70)))
            patience = draw(st.integers(1, 6))
            thr = draw(st.sampled_from((1e-3, 1e-3, 1e-4, 1e-6)))
            case = {"ctrl": ctrl, "steps": steps, "patience": patience, "thr": thr}
            if ctrl == "R":
                tol = draw(st.sampled_from((1e-5, 0.5, 2.0, 10.0)))
                form = draw(st.sampled_from(("float", "float", "t32", "t64", "b2", "b3", "b2x2")))
                case.update(tol=tol, form=form)
            else:
                tol = None
                form = draw(st.sampled_from(("float", "t32", "t64")))
                case.update(form=form, reject_attr=draw(st.integers(0, 9)) > 0)
            numel = int(np.prod(SHAPES[form])) if SHAPES[form] else 1
            prof = PROFILES[draw(st.sampled_from(sorted(PROFILES)))]
            cur = [_first(draw(U) / 32.0, tol) for _ in range(numel)]
            if ctrl == "S":
                case["l0"] = cur[0]
            n = draw(st.one_of(st.integers(1, 12), st.integers(1, 60)))
            aut, lasts, ev = Automaton(steps, patience), ([INF] * numel if ctrl == "R" else list(cur)), []
            fresh = ctrl == "R"
            for _ in range(n):
                if ctrl == "R" and draw(st.integers(0, 24 if aut.continual else 4)) == 0:
                    ev.append("reset")
                    aut.reset()
                    lasts, fresh = [INF] * numel, True
                    continue
                if fresh:                   # the first loss after construction / reset may be anything
                    new = [_first(draw(U) / 32.0, tol) for _ in range(numel)]
                    fresh = False
                else:
                    common = draw(st.sampled_from(prof))
                    syms = [common if (numel == 1 or draw(st.integers(0, 2)) > 0) else draw(st.sampled_from(prof))
                            for _ in range(numel)]
                    new = [_realise(c, sy, draw(U) / 32.0, thr, tol) for c, sy in zip(cur, syms)]
                rej = 0
                if ctrl == "S" and draw(st.integers(0, 19)) == 0:
                    rej = draw(st.sampled_from((1, 3)))
                ev.append(new + [rej] if ctrl == "S" else new)
                aut.step(bool(step_failed(lasts, new, thr)), rej > 0 and case.get("reject_attr", False),
                         tol is not None and bool(all_below(new, tol)))
                cur = lasts = new
            case["ev"] = ev
            return case
        return s()

    def oracle(self, case, rec):
        ctrl, steps, patience, thr, form = (case[k] for k in ("ctrl", "steps", "patience", "thr", "form"))
        shape = SHAPES[form]
        numel = int(np.prod(shape)) if shape else 1
        tol = case.get("tol")
        if not (steps >= 1 and patience >= 1 and thr > 0 and (tol is None or tol > 0)):
            rec.discard_case("configuration outside the stated domain")
        aut = Automaton(steps, patience)
        if ctrl == "R":
            kw = dict(steps=steps, patience=patience, decreasing=thr, tol=tol)
            with rec.sut("ReduceToBason()"):
                c = ReduceToBason(**kw)
                fresh = dict(vars(ReduceToBason(**kw)))
            lasts = [INF] * numel
            has_rej = False
        else:
            has_rej = bool(case["reject_attr"])
            stub = StubOpt(has_rej)
            with rec.sut("StopOnPlateau()"):
                c = StopOnPlateau(stub, steps=steps, patience=patience, decreasing=thr)
            lasts = [float(case["l0"])]
        with rec.sut("initial state"):
            rec.check(bool(c.continual()) and c.steps == 0 and c.patience_count == 0, ctrl + ":initial",
                      "fresh controller: continual()/steps/patience_count are not True/0/0")
        hist, nreset, post = [], 0, 0
        dt = {"t32": torch.float32, "t64": torch.float64}.get(form, torch.float32)
        for ev in case["ev"]:
            if ev == "reset":
                if ctrl != "R":
                    rec.discard_case("reset on a controller without reset()")
                with rec.sut("reset"):
                    c.reset()
                    cont = c.continual()
                aut.reset()
                lasts, nreset = [INF] * numel, nreset + 1
                hist.append("|")
                for k in _state_diff(dict(vars(c)), fresh):
                    rec.fail("R:reset:attr:%s" % k, "history %s: after reset() attribute %s = %r, a fresh controller has %r"
                             % ("".join(hist), k, vars(c).get(k), fresh.get(k)))
                rec.check(bool(cont), "R:reset:continual", "continual() is %r right after reset()" % (cont,))
                continue
            vals = [float(v) for v in ev[:numel]]
            if len(ev) < numel or not all(0.0 < v < INF and f32(v) == v for v in vals):
                rec.discard_case("loss outside the generated domain")
            rej = int(ev[numel]) if ctrl == "S" else 0
            failed = step_failed(lasts, vals, thr)
            below = all_below(vals, tol) if ctrl == "R" else False
            running = aut.continual
            if running and (failed is None or below is None):
                rec.discard_case("readings of 'decrease' / 'below tol' do not coincide on this step")
            if ctrl == "R":
                loss = vals[0] if form == "float" else torch.tensor(vals, dtype=dt).reshape(shape)
            else:
                stub.last, stub.loss = _conv(lasts[0], form), _conv(vals[0], form)
                if has_rej:
                    stub.reject_count = rej
                loss = stub.loss
            with rec.sut(ctrl + ".step"):
                c.step(loss)
                got, gs, gp = bool(c.continual()), c.steps, c.patience_count
            aut.step(bool(failed), rej > 0 and has_rej, bool(below))
            hist.append(("f" if failed else "d") + ("r" if rej and has_rej else "") + ("b" if below else ""))
            where = lambda: "steps=%d patience=%d thr=%g tol=%r form=%s history %s (step %d)" % (
                steps, patience, thr, tol, form, " ".join(hist), aut.steps)
            if running:
                if got is not aut.continual:
                    if got:
                        rec.fail("%s:stops_late:%s" % (ctrl, "+".join(aut.stop_causes)), where() + ": continual() still True "
                                 "although %s holds" % "+".join(aut.stop_causes))
                    else:
                        rec.fail("%s:stops_early" % ctrl, where() + ": continual() is %r where no documented condition holds "
                                 "(failed run %d/%d)" % (got, aut.patience_count, patience))
                rec.check(gs == aut.steps, ctrl + ":steps_counter", lambda: where() + ": .steps = %r" % (gs,))
                rec.check(gp == aut.patience_count, ctrl + ":patience_counter", lambda: where() +
                          ": .patience_count = %r, current run of failed steps is %d" % (gp, aut.patience_count))
            else:
                post += 1
                rec.check(not got, ctrl + ":rearmed", lambda: where() + ": continual() is %r although the controller "
                          "stopped at step %d (%s) and was not reset" % (got, aut.stop_step, "+".join(aut.stop_causes)))
            if rec.fails:
                return
            lasts = vals
        rec.label(ctrl + ":" + form, "stopped" if not aut.continual else "still_running",
                  "resets:%d" % min(nreset, 3), "len>=20" if len(case["ev"]) >= 20 else "len<20")
        if aut.stop_causes:
            rec.label("last_stop:" + "+".join(aut.stop_causes))
        if post or nreset:
            rec.nt("%s|%d|%d|%s|%s" % (ctrl, steps, patience, form, "".join(hist)))

    def simplify(self, case):
        ev = case["ev"]
        n = len(ev)
        if n > 1:
            yield dict(case, ev=ev[:n // 2])
            yield dict(case, ev=ev[n // 2:])
        for i in range(n):
            yield dict(case, ev=ev[:i] + ev[i + 1:])
        for k in ("steps", "patience"):
            if case[k] > 1:
                yield dict(case, **{k: case[k] - 1})
        if case["form"] not in ("float",) and (case["ctrl"] == "S" or case["form"] in ("t32", "t64")):
            yield dict(case, form="float")

    def size(self, case):
        return 100 * len(case["ev"]) + case["steps"] + case["patience"] + (0 if case["form"] == "float" else 5)


# =====================================================================================
class ScriptOpt(StubOpt):
    """stub optimizer whose step() plays a script of (loss, reject_count)"""

    def __init__(self, l0, script, vtype, with_reject):
        super().__init__(with_reject)
        self.script, self.vtype, self.calls, self.prev, self.with_reject = script, vtype, 0, l0, with_reject
        self.loss = _conv(l0, vtype)           # a real optimizer has a loss after its first step only; harmless

    def step(self, input, target=None, weight=None):
        if self.calls >= len(self.script):
            raise _Overrun()
        loss, rej = self.script[self.calls]
        self.calls += 1
        self.last, self.loss = _conv(self.prev, self.vtype), _conv(loss, self.vtype)
        if self.with_reject:
            self.reject_count = rej
        self.prev = loss
        return self.loss


class _Rosen(nn.Module):
    """tiny nonlinear least squares: Rosenbrock residuals + one linear row"""

    def __init__(self, p0):
        super().__init__()
        self.p = nn.Parameter(torch.tensor(p0, dtype=torch.float32))

    def forward(self, inp):
        a, b = self.p[0], self.p[1]
        return torch.stack([10 * (b - a * a), 1 - a, inp[0] * a + inp[1] * b - inp[2]])


class _Pendulum(pp.module.NLS):
    def __init__(self, a, h):
        super().__init__()
        self.a, self.h = a, h

    def state_transition(self, state, input, t=None):
        return state + self.h * torch.cat([state[..., 1:2], -self.a * torch.sin(state[..., 0:1]) + input], -1)

    def observation(self, state, input, t=None):
        return state


def _accept_any_reading(trace, thr, tol, budget, patience, n):
    """Is 'continual for steps < n, stopped at step n' the automaton's verdict under at least one reading of
    'decrease'?  trace: per step (lasts, losses, rejected) with lasts/losses flat lists (lasts None: previous losses,
    inf at the start).  Returns (True, _) explained; (False, verdicts) no reading explains it; (None, why) some
    reading could not be evaluated (loss <= 0, loss at tol, step at the threshold) and none of the others matches."""
    if any(not (0.0 < v < INF) for _, ls, _ in trace for v in ls):
        return None, "non-positive or non-finite loss"
    if tol is not None and any(abs(v - tol) <= 1e-5 * tol for _, ls, _ in trace for v in ls):
        return None, "loss at tol"
    verdicts, undecided = [], False
    for rd in RC.READINGS:
        aut, prev, undec = Automaton(budget, patience), [INF] * len(trace[0][1]), False
        for lasts, ls, rej in trace:
            fl = [failed_under(a, b, thr, rd) for a, b in zip(prev if lasts is None else lasts, ls)]
            if any(f is False for f in fl):
                failed = False
            elif all(f is True for f in fl):
                failed = True
            else:
                undec = True
                break
            aut.step(failed, bool(rej), tol is not None and all(v < tol for v in ls))
            prev = ls
            if not aut.continual:
                break
        if undec:
            undecided = True
            continue
        stop = aut.stop_step if not aut.continual else 0
        if stop == n:
            return True, rd
        verdicts.append("%s: step %d (%s)" % (rd, stop, "+".join(aut.stop_causes) or "never"))
    return (None, "step at the threshold") if undecided else (False, "; ".join(verdicts))


class Drivers(Sub):
    name = "drivers"
    n = {"quick": 640, "thorough": 12000}
    budget_s = {"quick": 200.0, "thorough": 3000.0}

    def strategy(self, tier):
        U = st.integers(0, 31)

        @st.composite
        def stub(draw):
            steps, patience = draw(st.one_of(st.integers(1, 6), st.integers(1, 40))), draw(st.integers(1, 5))
            thr = draw(st.sampled_from((1e-3, 1e-4, 1e-6)))
            prof = PROFILES[draw(st.sampled_from(("descent", "plateau", "mixed")))]
            cur = _first(draw(U) / 32.0, None)
            l0, ev = cur, []
            for _ in range(steps + 5):
                new = _realise(cur, draw(st.sampled_from(prof)), draw(U) / 32.0, thr, None)
                ev.append([new, draw(st.sampled_from((1, 2))) if draw(st.integers(0, 24)) == 0 else 0])
                cur = new
            return {"kind": "opt_stub", "steps": steps, "patience": patience, "thr": thr, "l0": l0, "ev": ev,
                    "form": draw(st.sampled_from(("float", "t32", "t64"))), "reject_attr": draw(st.integers(0, 9)) > 0,
                    "extra": draw(st.integers(0, 3))}

        real = st.fixed_dictionaries({
            "kind": st.just("opt_real"), "opt": st.sampled_from(("GN", "LM", "LM", "LM")),
            "strat": st.sampled_from(("const", "adapt", "tr")), "damping": st.sampled_from((1e-6, 1e-2, 1.0, 1e3)),
            "reject": st.sampled_from((1, 2, 16)), "steps": st.integers(1, 12), "patience": st.integers(1, 4),
            "thr": st.sampled_from((1e-3, 1e-6, 1e-1)),
            "p0": st.lists(st.integers(-40, 40).map(lambda k: k / 8.0), min_size=2, max_size=2),
            "inp": st.lists(st.integers(-16, 16).map(lambda k: k / 4.0), min_size=3, max_size=3)})
        loop = st.fixed_dictionaries({
            "kind": st.sampled_from(("mpc", "icp", "icp")), "steps": st.integers(1, 9), "patience": st.integers(1, 4),
            "thr": st.sampled_from((1e-3, 0.0, 1e-6, 0.05)), "tol": st.sampled_from((1e-5, 1e-5, 1e-2, 1e3)),
            "seed": st.integers(0, 2 ** 31 - 1), "size": st.integers(3, 14), "batch": st.sampled_from((0, 0, 2))})
        return st.one_of(stub(), real, loop, loop)

    # ---------------------------------------------------------------------------------
    def oracle(self, case, rec):
        getattr(self, "_" + case["kind"])(case, rec)

    def _opt_stub(self, case, rec):
        steps, patience, thr, form = (case[k] for k in ("steps", "patience", "thr", "form"))
        has_rej = bool(case["reject_attr"])
        script = [(float(l), int(r)) for l, r in case["ev"]]
        if len(script) < steps + 1 or not all(0.0 < l < INF for l, _ in script):
            rec.discard_case("script shorter than the budget")
        aut, last, hist = Automaton(steps, patience), float(case["l0"]), []
        for l, r in script:
            failed = relation(last, l, thr)
            if failed is None:
                rec.discard_case("readings of 'decrease' do not coincide on this step")
            aut.step(failed == "fail", r > 0 and has_rej)
            hist.append(("f" if failed == "fail" else "d") + ("r" if r and has_rej else ""))
            last = l
            if not aut.continual:
                break
        assert not aut.continual and aut.stop_step <= steps
        opt = ScriptOpt(float(case["l0"]), script, form, has_rej)
        with rec.sut("StopOnPlateau()"):
            sched = StopOnPlateau(opt, steps=steps, patience=patience, decreasing=thr)
        over = False
        try:
            with rec.sut("StopOnPlateau.optimize", allow=(_Overrun,)):
                sched.optimize(input=None)
        except _Overrun:
            over = True
        where = "steps=%d patience=%d thr=%g history %s" % (steps, patience, thr, " ".join(hist))
        if over:
            rec.fail("optimize_stub:overrun", where + ": optimize() still running after %d optimizer steps; documented "
                     "stop (%s) at step %d" % (opt.calls, "+".join(aut.stop_causes), aut.stop_step))
            return
        n = opt.calls
        rec.check(n <= steps, "optimize_stub:budget", "%s: %d optimizer steps > steps" % (where, n))
        rec.check(n == aut.stop_step, "optimize_stub:stop_step", "%s: optimize() made %d optimizer steps, documented "
                  "conditions (%s) first hold at step %d" % (where, n, "+".join(aut.stop_causes), aut.stop_step))
        with rec.sut("after optimize"):
            cont, ns = sched.continual(), sched.steps
        rec.check(not cont, "optimize_stub:continual_after", where + ": continual() not False after optimize()")
        rec.check(ns == n, "optimize_stub:steps_counter", "%s: .steps = %r after %d steps" % (where, ns, n))
        for j in range(min(int(case["extra"]), len(script) - opt.calls)):      # steps after the stop, then optimize again
            loss = opt.step(None)
            with rec.sut("StopOnPlateau.step after the stop"):
                sched.step(loss)
                cont = sched.continual()
            rec.check(not cont, "optimize_stub:rearmed", where + ": a step after the stop re-armed the scheduler")
        k = opt.calls
        try:
            with rec.sut("second optimize()", allow=(_Overrun,)):
                sched.optimize(input=None)
        except _Overrun:
            pass
        rec.check(opt.calls == k, "optimize_stub:rearmed", where + ": second optimize() call stepped a stopped optimizer")
        rec.label("opt_stub", "opt_stub:stop:" + "+".join(aut.stop_causes))
        if case["extra"]:
            rec.nt("opt_stub|%d|%d|%s|+%d" % (steps, patience, "".join(hist), case["extra"]))

    def _opt_real(self, case, rec):
        steps, patience, thr = case["steps"], case["patience"], case["thr"]
        model = _Rosen([float(v) for v in case["p0"]])
        inp = torch.tensor([float(v) for v in case["inp"]], dtype=torch.float32)
        with rec.sut("optimizer construction"):
            if case["opt"] == "GN":
                opt = pp.optim.GN(model)
            else:
                d = float(case["damping"])
                strat = {"const": lambda: pp.optim.strategy.Constant(damping=d),
                         "adapt": lambda: pp.optim.strategy.Adaptive(damping=d),
                         "tr": lambda: pp.optim.strategy.TrustRegion(radius=d)}[case["strat"]]()
                opt = pp.optim.LM(model, strategy=strat, reject=int(case["reject"]))
            sched = StopOnPlateau(opt, steps=steps, patience=patience, decreasing=thr)
        trace, orig = [], opt.step

        def counted(*a, **kw):
            if len(trace) > steps + 3:
                raise _Overrun()
            r = orig(*a, **kw)
            trace.append((float(opt.last), float(opt.loss), int(getattr(opt, "reject_count", 0) or 0)))
            return r
        opt.step = counted
        over = False
        try:
            sched.optimize(input=inp)
            cont, ns = sched.continual(), sched.steps
        except _Overrun:
            over = True
        except Exception as e:
            _driver_exc(rec, "StopOnPlateau.optimize(real %s)" % case["opt"], e)
        n = len(trace)
        where = "%s steps=%d patience=%d thr=%g p0=%s: losses %s" % (case["opt"], steps, patience, thr, case["p0"],
                                                                      [(round(a, 6), round(b, 6), r) for a, b, r in trace[:14]])
        if over:
            rec.fail("optimize_real:overrun", where + ": still running after %d optimizer steps" % n)
            return
        rec.check(n <= steps, "optimize_real:budget", "%s: %d optimizer steps > steps" % (where, n))
        rec.check((not cont) and ns == n, "optimize_real:final_state", "%s: continual()=%r steps=%r after %d steps" % (where, cont, ns, n))
        if not all(math.isfinite(a) and math.isfinite(b) for a, b, _ in trace):
            rec.label("opt_real:nonfinite_loss")
            return
        # exact stop step under some reading; `last` is supplied by the optimizer
        ok, detail = _accept_any_reading([([a], [b], r) for a, b, r in trace], thr, None, steps, patience, n)
        rec.check(ok is not False, "optimize_real:stop_step", "%s: stopped after %d steps, no reading of 'decrease' explains it (%s)"
                  % (where, n, detail))
        rec.label("opt_real:" + case["opt"], "opt_real:decided" if ok else "opt_real:undecided",
                  "opt_real:rejections" if any(r for _, _, r in trace) else "opt_real:no_rejection")
        try:                                # a stopped scheduler stays stopped: optimize() again must not step the optimizer
            sched.optimize(input=inp)
            cont = sched.continual()
        except _Overrun:
            pass
        except Exception as e:
            _driver_exc(rec, "second StopOnPlateau.optimize(real %s)" % case["opt"], e)
        rec.check(len(trace) == n and not cont, "optimize_real:rearmed", "%s: a second optimize() made %d more optimizer steps"
                  % (where, len(trace) - n))
        rec.nt("opt_real|%d|%d|%s|%s|%d|%d" % (steps, patience, case["opt"], case["strat"] if case["opt"] == "LM" else "-", n,
                                               sum(1 for _, _, r in trace if r)))

    def _loop(self, case, rec, build):
        """MPC / ICP: the same object is called three times (stepper reused), counting wrapper around stepper.step"""
        k, patience, thr, tol = case["steps"], case["patience"], case["thr"], case["tol"]
        with rec.sut("ReduceToBason()"):
            stepper = ReduceToBason(steps=k, patience=patience, decreasing=thr, tol=tol)
        seen, orig = [], stepper.step

        def counted(loss):
            if len(seen) > k + 3:
                raise _Overrun()
            seen.append([float(v) for v in torch.as_tensor(loss).detach().reshape(-1).tolist()])
            return orig(loss)
        stepper.step = counted
        calls = build(stepper)
        budget = stepper.max_steps          # MPC documents n-1 loops
        rec.check(budget <= k, case["kind"] + ":budget_attr", "driver raised the stepper budget to %r > steps=%d" % (budget, k))
        desc = []
        for ci, call in enumerate(calls):
            del seen[:]
            over = False
            try:
                call()
                cont = stepper.continual()
            except _Overrun:
                over = True
            except Exception as e:
                _driver_exc(rec, "%s call %d" % (case["kind"], ci + 1), e)
            n = len(seen)
            where = "%s call %d steps=%d patience=%d thr=%g tol=%g seed=%d: losses %s" % (
                case["kind"], ci + 1, k, patience, thr, tol, case["seed"], [[round(v, 7) for v in ls] for ls in seen[:12]])
            if over:
                rec.fail("%s:overrun" % case["kind"], where + ": loop still running after %d controller steps" % n)
                return
            rec.check(n <= k, "%s:budget" % case["kind"], "%s: %d controller steps, budget %d" % (where, n, k))
            rec.check(not cont, "%s:continual_after" % case["kind"], where + ": continual() not False after the loop ended")
            if n == 0:                  # the driver did not re-arm the controller: not this property's business
                rec.label("%s:call%d:zero_steps" % (case["kind"], ci + 1))
                continue
            ok, detail = _accept_any_reading([(None, ls, 0) for ls in seen], thr, tol, budget, patience, n)
            rec.check(ok is not False, "%s:stop_step:call%d" % (case["kind"], min(ci + 1, 2)), "%s: loop ended after %d controller "
                      "steps; a fresh controller (budget %d) stops at %s" % (where, n, budget, detail))
            rec.label("%s:call%d:%s" % (case["kind"], ci + 1, "decided" if ok else "undecided"))
            desc.append(str(n))
        rec.label(case["kind"])
        rec.nt("%s|%d|%d|%g|%g|%s" % (case["kind"], k, patience, thr, tol, ",".join(desc)))

    def _mpc(self, case, rec):
        rs = np.random.RandomState(case["seed"] % (2 ** 31))
        T, ns, nc, B = 2 + case["size"] % 3, 2, 1, 1
        Q = torch.tile(torch.eye(ns + nc), (B, T, 1, 1)) * float(rs.uniform(0.5, 2.0))
        p = torch.zeros(B, T, ns + nc)
        x0 = torch.tensor(2 * rs.randn(B, ns), dtype=torch.float32)
        u0 = torch.tensor(3 * rs.randn(B, T, nc), dtype=torch.float32)
        x1 = torch.tensor(2 * rs.randn(B, ns), dtype=torch.float32)
        h = float(rs.choice([0.05, 0.3]))
        sysm = _Pendulum(float(rs.uniform(0.5, 4.0)), h)

        def build(stepper):
            with rec.sut("MPC()"):
                mpc = pp.module.MPC(sysm, Q, p, T, stepper=stepper)
            return [lambda: mpc(h, x0, u_init=u0), lambda: mpc(h, x1, u_init=u0), lambda: mpc(h, x0, u_init=0 * u0)]
        self._loop(case, rec, build)

    def _icp(self, case, rec):
        rs = np.random.RandomState(case["seed"] % (2 ** 31))
        n, batch = 4 + case["size"], ((2,) if case["batch"] else ())
        src = torch.tensor(rs.randn(*batch, n, 3), dtype=torch.float32)
        q = rs.randn(*batch, 4) * 0.15 + np.array([0, 0, 0, 1.0])
        q /= np.linalg.norm(q, axis=-1, keepdims=True)
        tf = pp.SE3(torch.tensor(np.concatenate([0.3 * rs.randn(*batch, 3), q], -1), dtype=torch.float32))
        tgt = tf.unsqueeze(-2).Act(src) + 0.02 * torch.tensor(rs.randn(*batch, n, 3), dtype=torch.float32)
        src2 = torch.tensor(rs.randn(*batch, n, 3), dtype=torch.float32)

        def build(stepper):
            with rec.sut("ICP()"):
                icp = pp.module.ICP(stepper=stepper)
            return [lambda: icp(src, tgt), lambda: icp(tgt, src), lambda: icp(src2, tgt)]
        self._loop(case, rec, build)

    def simplify(self, case):
        if case["kind"] == "opt_stub":
            if case["extra"]:
                yield dict(case, extra=0)
            for k in ("steps", "patience"):
                if case[k] > 1:
                    yield dict(case, **{k: case[k] - 1})
            ev = case["ev"]
            for i in range(len(ev)):
                if len(ev) - 1 >= case["steps"] + 1:
                    yield dict(case, ev=ev[:i] + ev[i + 1:])
            for i in range(len(ev)):
                if ev[i][1]:
                    yield dict(case, ev=ev[:i] + [[ev[i][0], 0]] + ev[i + 1:])
        else:
            for k in ("steps", "patience", "size"):
                if case.get(k, 1) > 1:
                    yield dict(case, **{k: case[k] - 1})
            if case.get("batch"):
                yield dict(case, batch=0)


SUBS = [Enum(), Sequences(), Drivers()]


# =====================================================================================
def selftest():
    # (1) the automaton reproduces the two docstring examples
    a = Automaton(5, 2)                       # ReduceToBason(steps=5, patience=2, decreasing=0.1): x <- x^2 from 0.9
    x, last, out = 0.9, INF, []
    for _ in range(5):
        x = x * x
        out.append(a.step(failed_under(last, x, 0.1, "rel_new"), False, x < 1e-5))
        last = x
    assert out == [True, True, True, True, False] and a.stop_causes == ("budget",), (out, a.stop_causes)
    b = Automaton(10, 3)                      # StopOnPlateau(steps=10, patience=3, decreasing=1e-3) docstring run
    ls = [9.337769e+01, 3.502787e-05, 4.527339e-13, 7.112640e-14, 3.693307e-14]
    out = [b.step(failed_under(p, q, 1e-3, "abs")) for p, q in zip(ls, ls[1:])]
    assert out == [True, True, True, False] and b.stop_causes == ("patience",), (out, b.stop_causes)
    # (2) incremental automaton == non-incremental definition on random abstract histories
    rs = np.random.RandomState(7)
    for _ in range(3000):
        steps, patience, n = rs.randint(1, 9), rs.randint(1, 5), rs.randint(1, 14)
        h = [(bool(rs.rand() < 0.6), bool(rs.rand() < 0.1), bool(rs.rand() < 0.1)) for _ in range(n)]
        a, stop = Automaton(steps, patience), 0
        for t, (f, r, bl) in enumerate(h, 1):
            a.step(f, r, bl)
            if not a.continual and not stop:
                stop = t
            assert a.continual == (stop == 0)
        assert stop == RC.stop_step_by_definition(h, steps, patience) == a.stop_step, (h, steps, patience)
    # (3) the enumeration ladder is unambiguous on every reachable value, and the three readings really coincide
    vals = {L0_E}
    for _ in range(9):
        vals |= {_ladder(v, ch) for v in vals for ch in "dsi"}
    for v in vals:
        assert relation(v, _ladder(v, "d"), THR_E) == "dec" and relation(v, BELOW_E, THR_E) == "dec"
        for ch in "sei":
            w = _ladder(v, ch)
            assert relation(v, w, THR_E) == "fail" and (ch == "e" or w != v)
            assert all(failed_under(v, w, THR_E, rd) is True for rd in RC.READINGS)
        assert all(failed_under(v, _ladder(v, "d"), THR_E, rd) is False for rd in RC.READINGS)
        assert all_below([v], TOL_E) is False and f32(v) == v
    assert all_below([BELOW_E], TOL_E) is True
    # (4) the cases partition the box: every history of length 1..maxlen is counted by exactly one case
    e = Enum()
    tot = {}
    for c in e.cases("quick"):
        key = (c["ctrl"], c["steps"], c["patience"], c["maxlen"])
        m, pre = len(SYM[c["ctrl"]]), c["prefix"]
        sub = sum(m ** j for j in range(1, c["maxlen"] - len(pre) + 1))
        owned = sum(1 for d in range(len(pre)) if d >= len(pre) - 1 or set(pre[d + 1:]) <= {SYM[c["ctrl"]][0]})
        tot[key] = tot.get(key, 0) + sub + owned
    for (ctrl, s_, p, L), v in tot.items():
        assert v == sum(len(SYM[ctrl]) ** j for j in range(1, L + 1)), (ctrl, s_, p, v)
    rec = eval_case(e, {"ctrl": "R", "steps": 2, "patience": 1, "prefix": "", "maxlen": 4})
    if not rec.fails:           # (a broken controller aborts the walk early: that is a violation, not a harness error)
        assert rec.notes["histories_per_case"] == 5 + 25 + 125 + 625, rec.notes
