"""C20 - stopping controllers stop exactly on their documented conditions, within budget."""
import copy
import functools
import itertools
import math
import numpy as np
import torch
import pypose as pp
from torch import nn
from hypothesis import strategies as st
from pypose.optim.optimizer import _Optimizer
from pypose.optim.scheduler import StopOnPlateau
from pypose.utils.stepper import ReduceToBason

from ..core import Sub, CaseAbort, _frame_of, eval_case
from ..ref import controllers as RC
from ..ref.controllers import Automaton, relation, classify, step_failed, all_below, failed_under, INF

PROPERTY = "C20"
RULE = ("Reference automaton (vp/ref/controllers.py: steps, patience_count, continual, last loss) written from the "
        "property statement / docstrings: stop at the first step where steps>=budget, or `patience` consecutive steps "
        "failed to decrease by `decreasing`, or (StopOnPlateau) reject_count>0, or (ReduceToBason) all losses<tol.  "
        "ASSERTED: continual() after every step up to and including the stopping step, continual() False after the stop "
        "whatever follows, and for ReduceToBason.reset(): continual() True, the state the property names (steps, "
        "patience_count, last) equal BY VALUE to a fresh controller's, and the reset controller driven again behaves as a "
        "fresh one.  NOT asserted (labels '*:counter_differs:*', 'R:reset:other_attribute_differs:*'): the values of the "
        "undocumented counters .steps / .patience_count while running, dtype / shape / further attributes after reset.  "
        "Which decrease counts: the docstrings say 'relative', StopOnPlateau's docstring example only works with the "
        "absolute reading, neither says whether a decrease of exactly `decreasing` counts.  Losses are float32-"
        "representable, >= 0, and every asserted step has one verdict under all three readings (last-loss, /last, /new) "
        "with a factor 2 to spare (mode 'agree'), or with a factor 1.004 to spare for the near-threshold steps of 0.96.."
        "0.99 resp. 1.01..1.04 x threshold taken at losses ~ 1 (mode 'near'; float32 rounding of the controllers is 2e-7, "
        "nothing is generated AT the threshold); for ReduceToBason only - documented as relative throughout - also "
        "loss scales 2^-10..2^10 on which the two relative readings agree with a factor 2 and the absolute one says the "
        "opposite (mode 'rel').  No loss is within 1e-4 of tol.  StopOnPlateau is driven through a stub _Optimizer "
        "exposing only last/loss/reject_count (label S:reading_probe:* records which reading it follows; not asserted).  "
        "enum (complete over the following boxes, which are NOT the whole stated domain - 8^12 histories per configuration "
        "are out of reach - hence exhaustive=false): EVERY history over {decrease>=thr, decrease<thr, equal, increase} x "
        "{rejected, not} (StopOnPlateau, 8 symbols) resp. + below-tol (ReduceToBason, 5 symbols) "
        "(a) ladder 'coarse' (x0.7, x(1-2e-6), =, x1.3; threshold 1e-4, start 1.0): length <= steps+2 for steps 1..4 x "
        "patience 1..3 (quick) / <= min(12, steps+3), i.e. <= 9, for steps 1..6 x patience 1..4 (thorough); "
        "(b) ladder 'fine' (-1.01 thr, -0.99 thr, =, +1.01 thr around 1.0) and, ReduceToBason, ladders 'rel_hi' (start "
        "1024, thr 1e-3: x(1-4e-3), x(1-4e-4) where the absolute reading says decreased) and 'rel_lo' (start 2^-10, "
        "thr 1e-3: x0.7 where the absolute reading says failed): length <= steps+2 for steps 1..3 x patience 1..3 (quick) "
        "/ steps 1..6 x patience 1..4 (thorough); (c) every history of length <= 12 over every 2-symbol sub-alphabet, "
        "coarse ladder: StopOnPlateau (steps,patience) = (6,4),(5,2) (quick) / both controllers, all steps 1..6 x "
        "patience 1..4 (thorough).  One case = one (controller, ladder, steps, patience, prefix) subtree walked depth-first with shared "
        "prefixes (state_dict/load_state_dict resp. deepcopy at branch points); ReduceToBason: at every node a deep copy "
        "is reset() and checked, at stop nodes the reset copy is driven again (first loss 2^20, then equal losses) against "
        "a fresh automaton.  histories (Hypothesis): single random histories over the same alphabet and ladders out to the "
        "stated limits - length 1..12 (two thirds 10..12), steps 1..6, patience 1..4 - same oracle.  sequences: "
        "Hypothesis histories of <= 60 events (python float / 0-dim f32,f64 tensors / batched tensors of 2..4 losses "
        "with per-element symbols, reset() at arbitrary points, reuse after reset, budgets 1..70, patience 1..6, "
        "thresholds 1e-6..1e-3, tol 1e-9..10, modes agree / near / rel as above, below-tol losses for every tol, losses "
        "of exactly 0; labels 'reached:*' count the cases that really contain an asserted step of that kind).  drivers: "
        "StopOnPlateau.optimize on a scripted stub (exact stop step) and on real GN/LM optimizers (tiny least-squares "
        "model), MPC and ICP called three times on the same object (stepper reused) with a counting wrapper around "
        "stepper.step: #controller steps <= steps in every call, >= 1 in the first call (fresh controller), and the stop "
        "step must be a fresh automaton's under at least one of the three readings (batched costs/errors: all-elements "
        "rule); a trace no reading can judge is labelled '...undecided(stop step not judged)', a later call without a step "
        "'...zero_steps(stop step not judged)', an exception raised outside scheduler/stepper/mpc/icp DISCARDS the case "
        "(counted under 'discarded').  driver_canary: 24 fixed well-conditioned MPC / ICP / GN / LM inputs on which none of "
        "these escapes is allowed: no exception, >= 1 step in every call, stop step decided and correct.  "
        "Non-trivial: the history contains a step after the stop (this includes >= 2 causes becoming true at different "
        "steps) or a reset / a repeated driver call; distinct = (controller, ladder/mode, steps, patience, abstract "
        "history).  In enum one case covers many histories: the labels 'histories_checked(x100)', "
        "'nontrivial_histories(x100)' (boxes a, b; every history counted by exactly one case) and "
        "'pair_histories_len<=12_*(x100)' (c) count them in units of 100 (floor per case) and only every 4th (quick) / "
        "2048th (thorough) non-trivial history contributes a descriptor to distinct_nontrivial.")
ASSUMPTIONS = ["losses are finite and >= 0 (a zero loss only where the verdict does not need 0/0); steps >= 1, patience >= 1, "
               "decreasing > 0 (drivers: >= 0), tol > 0; negative / NaN losses are not documented as accepted and not generated",
               "first step after construction / reset() has no previous loss and cannot count as a failed step",
               "batched losses: a step counts as failed when all elements failed (ReduceToBason.step docstring)",
               "StopOnPlateau has no reset() and documents none: 'until reset, which restores the initial state' is checked "
               "for ReduceToBason only (its documented state_dict()/load_state_dict() round trip is exercised at every "
               "branch point of the enumeration)",
               "'initial state' = the state variables the property names (steps, patience_count, last; continual()), by value",
               "the values of .steps / .patience_count between construction/reset and the stop are undocumented: labels only",
               "ReduceToBason: 'relative loss decreasing' is taken from its docstring (relative to the previous or to the new "
               "loss: both accepted); StopOnPlateau: absolute or relative, both accepted",
               "a decrease of exactly `decreasing` / a loss of exactly `tol`: undocumented, never generated (nearest: 1 % / 1e-4)",
               "MPC documents 'n-1 loops, 1 loop with gradient': its effective budget is read from stepper.max_steps",
               "an exception raised by a driver outside scheduler.py / stepper.py / mpc.py / icp.py on a RANDOM input belongs "
               "to another property (discarded, counted); on the fixed canary inputs it is a failure"]


def f32(x):
    return float(np.float32(x))


SYM = {"S": "dseiDSEI", "R": "dseib"}
SUBTREE = {"S": 5, "R": 5}          # levels fully enumerated inside one case
FLOOR, CEIL = 0.05, 100.0
PROBE_L = 2.0 ** 20                 # first loss of the reuse-after-reset probe: above every loss a ladder can reach
# Concrete realisations of the abstract alphabet.  mode = which readings of "decrease by the configured amount" the
# expected verdict is taken from (vp/ref/controllers.classify): 'agree' all three with a factor 2, 'near' all three
# with a factor 1.004 (steps of 0.99 / 1.01 x threshold at a loss ~ 1), 'rel' the two relative readings only (loss
# scale far from 1, where the absolute reading gives the OPPOSITE verdict on 's' (rel_hi) resp. 'd' (rel_lo):
# ReduceToBason only - its docstring says "relative" and nothing else).
LADDERS = {
    "coarse": dict(l0=1.0, thr=1e-4, tol=1e-5, below=f32(1e-7), mode="agree", ctrls="SR",
                   d=("mul", 0.7), s=("mul", 1 - 2e-6), i=("mul", 1.3)),
    "fine": dict(l0=1.0, thr=1e-4, tol=1e-5, below=f32(1e-7), mode="near", ctrls="SR",
                 d=("add", -1.01e-4), s=("add", -0.99e-4), i=("add", 1.01e-4)),
    "rel_hi": dict(l0=1024.0, thr=1e-3, tol=1e-5, below=f32(1e-7), mode="rel", ctrls="R",
                   d=("mul", 1 - 4e-3), s=("mul", 1 - 4e-4), i=("mul", 1.3)),
    "rel_lo": dict(l0=2.0 ** -10, thr=1e-3, tol=1e-7, below=f32(1e-9), mode="rel", ctrls="R",
                   d=("mul", 0.7), s=("mul", 1 - 2e-6), i=("mul", 1.3)),
}


class _Enough(Exception):
    pass


class _Overrun(Exception):
    """a driver loop ran past every documented stopping condition"""


OWN_FILES = ("stepper.py", "scheduler.py", "mpc.py", "icp.py")


def _driver_exc(rec, what, e, strict=False):
    """an exception inside a driver loop: a failure of this property when it comes from the controller / loop code (or,
    strict: on one of the fixed canary inputs, on which the unchanged tree runs cleanly).  Anything else (a solver that
    rejects a singular random system ...) is some other property's business: the case is DISCARDED - it is counted under
    'discarded' with the frame, never as a passed case, and > 30 % discards is a harness error."""
    fr = _frame_of(e)
    if strict or fr.split(":")[0] in OWN_FILES:
        _sut_fail(rec, what, e)
    rec.discard_case("driver raised outside the controller / loop code: %s@%s" % (type(e).__name__, fr))


def _sut_fail(rec, what, e):
    rec.fail("raises:%s@%s" % (type(e).__name__, _frame_of(e)), "%s raised %s: %s" % (what, type(e).__name__, str(e)[:300]))
    raise CaseAbort()


class StubOpt(_Optimizer):
    """exposes exactly what StopOnPlateau reads: .last, .loss and (optionally) .reject_count"""

    def __init__(self, with_reject=True):      # deliberately no torch.optim state
        self.last = self.loss = None
        if with_reject:
            self.reject_count = 0


def _conv(x, vtype):
    if vtype == "float":
        return x
    return torch.tensor(x, dtype=torch.float32 if vtype == "t32" else torch.float64)


STATE = ("steps", "patience_count", "last")     # the controller state the property names (anchors.state), + continual()


def _same_value(x, y):
    """equal as numbers (a python float, a 0-dim or a batched tensor of the same values are the same state)"""
    try:
        if torch.is_tensor(x) or torch.is_tensor(y):
            tx, ty = torch.as_tensor(x, dtype=torch.float64), torch.as_tensor(y, dtype=torch.float64)
            return bool((tx == ty).all())
        return bool(x == y)
    except Exception:
        return False


def _state_diff(a, b):
    """(named, other): names of attributes of two vars() dicts that differ.  named: the state variables of STATE,
    compared by VALUE - asserted, 'reset restores the initial state'.  other: every further difference (other
    attributes, tensor-ness / dtype / shape of any attribute) - not promised by anything, reported as labels only."""
    named, other = [k for k in set(a) ^ set(b) if k in STATE], [k for k in set(a) ^ set(b) if k not in STATE]
    for k in set(a) & set(b):
        x, y = a[k], b[k]
        if torch.is_tensor(x) or torch.is_tensor(y):
            same = torch.is_tensor(x) and torch.is_tensor(y) and x.dtype == y.dtype and x.shape == y.shape and torch.equal(x, y)
        else:
            same = type(x) is type(y) and bool(x == y)
        if same:
            continue
        if k in STATE and not _same_value(x, y):
            named.append(k)
        else:
            other.append(k)
    return sorted(named), sorted(other)


@functools.lru_cache(maxsize=1 << 16)
def _cls(last, new, thr, mode):
    return classify(last, new, thr, mode)


def _ladder(cur, ch, L=LADDERS["coarse"]):
    c = ch.lower()
    if c in "dsi":
        op, v = L[c]
        return f32(cur * v) if op == "mul" else f32(cur + v)
    return cur


# =====================================================================================
class Enum(Sub):
    name = "enum"
    kind = "enum"
    # complete over the boxes listed in RULE, which are NOT the whole stated domain (length 12 over 8 symbols is 7e10
    # histories per configuration): the claim 'exhaustive' is therefore not made.
    exhaustive = False
    budget_s = {"quick": 200.0, "thorough": 6000.0}
    nt_rate = {"quick": 4, "thorough": 2048}      # every k-th non-trivial history gets a distinctness descriptor
    PAIRS_QUICK = {"S": ((6, 4), (5, 2)), "R": ()}       # (a ReduceToBason node costs 20 x a StopOnPlateau node)

    @staticmethod
    def box(tier):
        """(ladder, ctrl, steps, patience, maxlen): every history of length <= maxlen over the full alphabet"""
        out = []
        if tier == "quick":
            out += [("coarse", c, s, p, s + 2) for c in "SR" for s in range(1, 5) for p in range(1, 4)]
            out += [(l, c, s, p, s + 2) for l in ("fine", "rel_hi", "rel_lo") for c in LADDERS[l]["ctrls"]
                    for s in range(1, 4) for p in range(1, 4)]
        else:
            out += [("coarse", c, s, p, min(12, s + 3)) for c in "SR" for s in range(1, 7) for p in range(1, 5)]
            out += [(l, c, s, p, s + 2) for l in ("fine", "rel_hi", "rel_lo") for c in LADDERS[l]["ctrls"]
                    for s in range(1, 7) for p in range(1, 5)]
        return out

    @classmethod
    def pair_box(cls, tier):
        """(ctrl, steps, patience): every history of length <= 12 over every 2-symbol sub-alphabet (coarse ladder)"""
        if tier == "quick":
            return [(c, s, p) for c in "SR" for s, p in cls.PAIRS_QUICK[c]]
        return [(c, s, p) for c in "SR" for s in range(1, 7) for p in range(1, 5)]

    def cases(self, tier):
        for ladder, ctrl, steps, patience, maxlen in self.box(tier):
            k = max(0, maxlen - SUBTREE[ctrl])
            for pre in itertools.product(SYM[ctrl], repeat=k):
                yield {"ctrl": ctrl, "steps": steps, "patience": patience, "prefix": "".join(pre), "maxlen": maxlen,
                       "rate": self.nt_rate[tier], "ladder": ladder}
        for ctrl, steps, patience in self.pair_box(tier):
            for a, b in itertools.combinations(SYM[ctrl], 2):
                yield {"ctrl": ctrl, "steps": steps, "patience": patience, "prefix": "", "maxlen": 12,
                       "rate": self.nt_rate[tier], "ladder": "coarse", "alpha": a + b}

    # ---------------------------------------------------------------------------------
    def oracle(self, case, rec):
        ctrl, steps, patience, prefix, maxlen = (case[k] for k in ("ctrl", "steps", "patience", "prefix", "maxlen"))
        lname = case.get("ladder", "coarse")
        L, alpha = LADDERS[lname], case.get("alpha") or SYM[ctrl]
        assert set(prefix) <= set(SYM[ctrl]) and len(prefix) <= maxlen and set(alpha) <= set(SYM[ctrl]) and ctrl in L["ctrls"]
        if not (1 <= steps and 1 <= patience and 1 <= maxlen):
            rec.discard_case("configuration outside the stated domain")
        S = {"n": 0, "nt": 0, "multi": 0, "nfail": 0, "fails": {}, "causes": set(), "nts": [], "soft": set()}
        rate = int(case.get("rate", 1))
        tag = "%s|%s|%d|%d|" % (ctrl, lname, steps, patience) if lname != "coarse" else "%s|%d|%d|" % (ctrl, steps, patience)

        def bad(bucket, hist, msg):
            cur = S["fails"].get(bucket)
            if cur is None or len(hist) < len(cur[0]):
                S["fails"][bucket] = (hist, msg)
            S["nfail"] += 1
            if S["nfail"] > 200:
                raise _Enough()

        def compare(obs, aut, running, hist, own=True):
            """after one step: obs = (continual(), .steps, .patience_count) of the controller, aut the automaton;
            running = automaton continual BEFORE the step; own = this case is the one that counts the history"""
            got, gsteps, gpc = obs
            got = bool(got)
            S["n"] += own
            if running:
                if got is not aut.continual:
                    if got:
                        bad("%s:stops_late:%s" % (ctrl, "+".join(aut.stop_causes)), hist,
                            "continual() still True although %s holds at step %d" % ("+".join(aut.stop_causes), aut.steps))
                    else:
                        bad("%s:stops_early" % ctrl, hist, "continual() is %r at step %d where no documented condition "
                            "holds (steps %d/%d, failed run %d/%d)" % (got, aut.steps, aut.steps, steps, aut.patience_count, patience))
                # the counters are not documented attributes and the statement speaks about continual() only: a
                # different bookkeeping that yields the same decisions is not a violation (label, not a failure)
                if gsteps != aut.steps:
                    S["soft"].add("%s:counter_differs:steps" % ctrl)
                if gpc != aut.patience_count:
                    S["soft"].add("%s:counter_differs:patience_count" % ctrl)
                if not aut.continual:
                    S["causes"].add("+".join(aut.stop_causes))
            else:
                if own:
                    S["nt"] += 1
                    if aut.causes_at_different_steps():
                        S["multi"] += 1
                    if S["nt"] % rate == 0:
                        S["nts"].append(tag + hist)
                if got is not False:
                    bad("%s:rearmed" % ctrl, hist, "continual() is %r at step %d although the controller stopped at step %d "
                        "(%s) and was not reset" % (got, aut.steps, aut.stop_step, "+".join(aut.stop_causes)))

        try:
            if ctrl == "S":
                self._walk_S(steps, patience, prefix, maxlen, rec, compare, bad, L, alpha, S)
            else:
                self._walk_R(steps, patience, prefix, maxlen, rec, compare, bad, L, alpha, S)
        except _Enough:
            pass
        for bucket, (hist, msg) in sorted(S["fails"].items()):
            rec.fail(bucket, "steps=%d patience=%d ladder=%s history %r: %s" % (steps, patience, lname, hist, msg))
        for d in S["nts"]:
            rec.nt(d)
        self._labels(case, rec, S, lname)

    def _labels(self, case, rec, S, lname):
        ctrl, steps, patience, maxlen = case["ctrl"], case["steps"], case["patience"], case["maxlen"]
        for c in S["causes"]:
            rec.label("%s:first_stop:%s" % (ctrl, c))
        rec.label(*sorted(S["soft"]))
        if case.get("alpha"):
            rec.label("%s:pairs:s%d:p%d:len<=12" % (ctrl, steps, patience))
            rec.labels.extend(["pair_histories_len<=12_checked(x100)"] * (S["n"] // 100))
            rec.labels.extend(["pair_histories_len<=12_nontrivial(x100)"] * (S["nt"] // 100))
        else:
            rec.label("%s:%s:s%d:p%d:len<=%d" % (ctrl, lname, steps, patience, maxlen))
            rec.labels.extend(["histories_checked(x100)"] * (S["n"] // 100))
            rec.labels.extend(["nontrivial_histories(x100)"] * (S["nt"] // 100))
            rec.labels.extend(["histories_2causes_at_different_steps(x100)"] * (S["multi"] // 100))
            rec.labels.extend(["histories_checked:%s(x100)" % lname] * (S["n"] // 100))
        rec.notes["histories_per_case"] = S["n"]
        rec.notes["nontrivial_histories_per_case"] = S["nt"]

    # ---------------------------------------------------------------------------------
    def _walk_S(self, steps, patience, prefix, maxlen, rec, compare, bad, L, alpha, S):
        thr, mode = L["thr"], L["mode"]
        stub = StubOpt(True)
        try:
            sched = StopOnPlateau(stub, steps=steps, patience=patience, decreasing=thr)
            ok0 = bool(sched.continual())
            cnt0 = sched.steps == 0 and sched.patience_count == 0
        except Exception as e:
            _sut_fail(rec, "StopOnPlateau()", e)
        if not ok0:
            bad("S:initial", "", "fresh scheduler: continual() is not True")
        if not cnt0:
            S["soft"].add("S:counter_differs:initial")
        # StopOnPlateau has no reset() and documents none ("until reset" is vacuous for it); if one appears it is not
        # asserted here (nothing documents what it must do) - the label makes that visible in the evidence
        if hasattr(sched, "reset"):
            S["soft"].add("S:has_reset(unchecked)")
        S["soft"].add(self._reading_probe_S(rec))
        aut = Automaton(steps, patience)
        npre = len(prefix)

        def visit(depth, hist, cur, sstate, astate):
            for ch in (prefix[depth] if depth < npre else alpha):
                sched.load_state_dict(sstate)
                aut.set(astate)
                new, rej = _ladder(cur, ch, L), ch.isupper()
                rel = _cls(cur, new, thr, mode)
                assert rel is not None, (cur, new)
                stub.last, stub.loss, stub.reject_count = cur, new, (1 if rej else 0)
                try:
                    sched.step(new)
                    obs = (sched.continual(), sched.steps, sched.patience_count)
                except Exception as e:
                    _sut_fail(rec, "StopOnPlateau.step", e)
                aut.step(rel == "fail", rej)
                h = hist + ch
                compare(obs, aut, astate[2], h, depth >= npre - 1 or set(prefix[depth + 1:]) <= {SYM["S"][0]})
                if depth + 1 < maxlen:
                    visit(depth + 1, h, new, sched.state_dict(), aut.get())

        visit(0, "", L["l0"], sched.state_dict(), aut.get())

    @staticmethod
    def _reading_probe_S(rec):
        """Which reading of 'decrease' does StopOnPlateau follow?  NOT asserted (text: relative; docstring example:
        absolute) - one step 1000 -> 999.5 at decreasing=1e-3, patience=1 (absolute: decreased, relative: failed)."""
        stub = StubOpt(False)
        try:
            sc = StopOnPlateau(stub, steps=3, patience=1, decreasing=1e-3)
            stub.last, stub.loss = 1000.0, 999.5
            sc.step(999.5)
            return "S:reading_probe:" + ("absolute" if sc.continual() else "relative")
        except Exception as e:
            _sut_fail(rec, "StopOnPlateau.step", e)

    # ---------------------------------------------------------------------------------
    def _walk_R(self, steps, patience, prefix, maxlen, rec, compare, bad, L, alpha, S):
        thr, tol, below_v, mode = L["thr"], L["tol"], L["below"], L["mode"]
        kw = dict(steps=steps, patience=patience, decreasing=thr, tol=tol)
        try:
            root = ReduceToBason(**kw)
            fresh = dict(vars(ReduceToBason(**kw)))
            ok0 = bool(root.continual())
            cnt0 = root.steps == 0 and root.patience_count == 0
        except Exception as e:
            _sut_fail(rec, "ReduceToBason()", e)
        if not ok0:
            bad("R:initial", "", "fresh stepper: continual() is not True")
        if not cnt0:
            S["soft"].add("R:counter_differs:initial")
        aut = Automaton(steps, patience)
        npre = len(prefix)

        def check_reset(c, hist, probe):
            c2 = copy.deepcopy(c)
            try:
                c2.reset()
                cont = c2.continual()
            except Exception as e:
                _sut_fail(rec, "ReduceToBason.reset", e)
            named, other = _state_diff(dict(vars(c2)), fresh)
            for k in named:
                bad("R:reset:attr:%s" % k, hist, "after reset() the state variable %s = %r, a fresh controller has %r"
                    % (k, vars(c2).get(k), fresh.get(k)))
            for k in other:
                S["soft"].add("R:reset:other_attribute_differs:%s" % k)
            if not cont:
                bad("R:reset:continual", hist, "continual() is %r right after reset()" % (cont,))
            if probe:       # reuse after reset: a first loss above everything seen so far, then `patience` equal losses
                pa = Automaton(steps, patience)
                for j in range(patience + 1):
                    run = pa.continual
                    try:
                        c2.step(PROBE_L)
                        o = c2.continual()
                    except Exception as e:
                        _sut_fail(rec, "ReduceToBason.step after reset", e)
                    pa.step(j > 0, False, False)
                    if run and bool(o) is not pa.continual:
                        bad("R:reuse_after_reset", hist + "|reset|" + "e" * (j + 1), "after reset and %d steps (first loss "
                            "%g, then equal losses) continual() is %r, a fresh controller's %r" % (j + 1, PROBE_L, o, pa.continual))
                        break

        def visit(depth, hist, cur, last, node, astate):
            for ch in (prefix[depth] if depth < npre else alpha):
                c = copy.deepcopy(node)
                aut.set(astate)
                if ch == "b":
                    new, ncur = below_v, cur
                else:
                    new = ncur = _ladder(cur, ch, L)
                rel, below = _cls(last, new, thr, mode), all_below([new], tol)
                assert (rel is not None and below is not None) or not astate[2], (last, new)
                try:
                    c.step(new)
                    obs = (c.continual(), c.steps, c.patience_count)
                except Exception as e:
                    _sut_fail(rec, "ReduceToBason.step", e)
                aut.step(rel == "fail", False, bool(below))
                h = hist + ch
                compare(obs, aut, astate[2], h, depth >= npre - 1 or set(prefix[depth + 1:]) <= {SYM["R"][0]})
                check_reset(c, h, probe=(aut.stop_step == depth + 1))
                if depth + 1 < maxlen:
                    visit(depth + 1, h, ncur, new, c, aut.get())

        check_reset(root, "", probe=True)
        visit(0, "", L["l0"], INF, root, aut.get())

    # ---------------------------------------------------------------------------------
    def simplify(self, case):
        pre, ml, ctrl = case["prefix"], case["maxlen"], case["ctrl"]
        alpha = case.get("alpha") or SYM[ctrl]
        if ml > max(1, len(pre)):
            yield dict(case, maxlen=max(1, len(pre)))
            yield dict(case, maxlen=ml - 1)
        for i in range(len(pre)):
            yield dict(case, prefix=pre[:i] + pre[i + 1:], maxlen=max(1, min(ml, len(pre) - 1)) if ml == len(pre) else ml)
        if len(pre) < ml:
            for ch in alpha:
                yield dict(case, prefix=pre + ch)
        for k in ("steps", "patience"):
            if case[k] > 1:
                yield dict(case, **{k: case[k] - 1})
        if case.get("ladder") == "fine":
            yield dict(case, ladder="coarse")

    def size(self, case):
        return 1000 * (case["maxlen"] - len(case["prefix"])) + 10 * case["maxlen"] + case["steps"] + case["patience"]


HIST_PROFILES = {"S": ("dseiDSEI", "dddddsseeiDE", "ddsseeii", "dddddddsei"),
                 "R": ("dseib", "dddddsseeib", "ddsseeii", "dddddddseib")}


class Histories(Enum):
    """random single histories over the same abstract alphabet, out to the stated limits (length 12, steps 1..6,
    patience 1..4) which the complete enumeration cannot reach; the oracle is Enum's (a case is a one-path 'subtree')"""
    name = "histories"
    kind = "hyp"
    exhaustive = False
    n = {"quick": 2000, "thorough": 240000}
    budget_s = {"quick": 100.0, "thorough": 2400.0}

    def strategy(self, tier):
        @st.composite
        def s(draw):
            ctrl = draw(st.sampled_from("SR"))
            ladder = draw(st.sampled_from(("coarse", "fine", "fine") + (("rel_hi", "rel_lo") if ctrl == "R" else ())))
            n = draw(st.one_of(st.integers(1, 12), st.integers(10, 12), st.integers(10, 12)))
            prof = draw(st.sampled_from(HIST_PROFILES[ctrl]))
            hist = "".join(draw(st.sampled_from(prof)) for _ in range(n))
            return {"ctrl": ctrl, "steps": draw(st.integers(1, 6)), "patience": draw(st.integers(1, 4)), "prefix": hist,
                    "maxlen": n, "rate": 1, "ladder": ladder}
        return s()

    def _labels(self, case, rec, S, lname):
        ctrl, n = case["ctrl"], case["maxlen"]
        rec.label("%s:%s" % (ctrl, lname), "len:%s" % ("10-12" if n >= 10 else "7-9" if n >= 7 else "1-6"),
                  "steps:%d" % case["steps"], "patience:%d" % case["patience"],
                  "steps_after_stop:%s" % ("0" if not S["nt"] else "1-3" if S["nt"] <= 3 else ">=4"))
        for c in S["causes"]:
            rec.label("%s:first_stop:%s" % (ctrl, c))
        if not S["causes"]:
            rec.label("%s:never_stopped" % ctrl)
        rec.label(*sorted(S["soft"]))

    def size(self, case):
        return 10 * case["maxlen"] + case["steps"] + case["patience"] + (0 if case.get("ladder", "coarse") == "coarse" else 3)


# =====================================================================================
PROFILES = {"descent": "ddddddddddddsei", "plateau": "dsseeiiIj", "mixed": "dddddsseeiIjb", "tolish": "ddddbbbeIj",
            "zeroish": "ddddseizzjb", "near": "ddddsssseeeijb"}
MODE_PROFILES = {"agree": ("descent", "plateau", "mixed", "tolish", "zeroish"), "near": ("near",),
                 "rel": ("descent", "plateau", "mixed", "tolish")}
SHAPES = {"float": None, "t32": [], "t64": [], "b2": [2], "b3": [3], "b2x2": [2, 2]}


def _realise(cur, sym, u, thr, tol, mode="agree", scale=1.0):
    """next loss of one element for an intended symbol; falls back to 'equal' when the result would be ambiguous.
    d decrease / s decrease below the threshold / e equal / i small increase / I increase / j jump anywhere /
    b below tol (no clamp: reachable for every tol) / z exactly zero.
    mode 'agree': the three readings of 'decrease' agree with a factor 2 (losses 0.05..100);
    mode 'near' : losses ~ 1, decreases of (1.01..1.04) x thr resp. (0.96..0.99) x thr - all readings still agree;
    mode 'rel'  : loss scale `scale` far from 1, relative readings only (ReduceToBason)."""
    lo, hi = FLOOR * scale, CEIL * scale
    k = 0.1 + 0.9 * u
    if cur == 0.0:
        sym = "j"        # after a zero loss only an increase is decidable (0 -> 0 is 0/0 under the relative readings)
    if sym == "z":
        new = 0.0
    elif sym == "b" and tol is not None:
        new = f32(tol * (0.2 + 0.7 * u))
    else:
        if mode == "near":
            new = {"d": cur - thr * (1.01 + 0.03 * u), "s": cur - thr * (0.99 - 0.03 * u), "i": cur + thr * (0.99 + 0.03 * u),
                   "I": cur + thr * (1.01 + 0.03 * u), "j": 1.0 + (u - 0.5) * 2e-3, "b": 1.0 + (u - 0.5) * 2e-3}.get(sym, cur)
        elif mode == "rel":
            new = {"d": cur * (0.5 + 0.45 * u), "s": cur * (1 - 0.4 * thr * k), "i": cur * (1 + 0.4 * thr * k),
                   "I": cur * (1.05 + 4.0 * u), "j": lo * (hi / lo) ** u, "b": lo * (hi / lo) ** u}.get(sym, cur)
        else:
            new = {"d": cur * (0.5 + 0.45 * u), "s": cur - 0.4 * thr * min(1.0, cur) * k, "i": cur + 0.4 * thr * min(1.0, cur) * k,
                   "I": cur * (1.05 + 4.0 * u), "j": lo * (hi / lo) ** u, "b": lo * (hi / lo) ** u}.get(sym, cur)
        new = f32(min(max(new, lo), hi))
    if classify(cur, new, thr, mode) is None or (tol is not None and all_below([new], tol) is None):
        return cur if cur != 0.0 else f32(hi)
    return new


def _first(u, tol, mode="agree", scale=1.0):
    new = f32(1.0 + (u - 0.5) * 2e-3) if mode == "near" else f32(FLOOR * scale * (CEIL / FLOOR) ** u)
    if tol is not None and all_below([new], tol) is None:
        new = f32(new * 1.01)
    return new


class Sequences(Sub):
    fuzz_runs = 20000     # thorough tier: additional coverage-guided (atheris) campaign, same strategy / oracle
    name = "sequences"
    n = {"quick": 6000, "thorough": 150000}

    def strategy(self, tier):
        U = st.integers(0, 31)

        @st.composite
        def s(draw):
            ctrl = draw(st.sampled_from("RRS"))
            steps = draw(st.one_of(st.integers(1, 8), st.integers(1, 70)))
            patience = draw(st.integers(1, 6))
            mode = draw(st.sampled_from(("agree", "agree", "agree", "near", "near", "rel") if ctrl == "R" else
                                        ("agree", "agree", "near")))
            thr = draw(st.sampled_from((1e-3, 1e-4) if mode == "near" else (1e-3, 1e-3, 1e-4, 1e-6)))
            scale = draw(st.sampled_from((2.0 ** -10, 2.0 ** -6, 2.0 ** 6, 2.0 ** 10))) if mode == "rel" else 1.0
            case = {"ctrl": ctrl, "steps": steps, "patience": patience, "thr": thr}
            if mode != "agree":
                case.update(mode=mode, scale=scale)
            if ctrl == "R":
                tol = draw(st.sampled_from({"agree": (1e-5, 0.5, 2.0, 10.0), "near": (1e-5, 1e-5, 0.5, 2.0),
                                            "rel": (1e-9, f32(2.0 * scale))}[mode]))
                form = draw(st.sampled_from(("float", "float", "t32", "t64", "b2", "b3", "b2x2")))
                case.update(tol=tol, form=form)
            else:
                tol = None
                form = draw(st.sampled_from(("float", "t32", "t64")))
                case.update(form=form, reject_attr=draw(st.integers(0, 9)) > 0)
            numel = int(np.prod(SHAPES[form])) if SHAPES[form] else 1
            prof = PROFILES[draw(st.sampled_from(MODE_PROFILES[mode]))]
            cur = [_first(draw(U) / 32.0, tol, mode, scale) for _ in range(numel)]
            if ctrl == "S":
                case["l0"] = cur[0]
            n = draw(st.one_of(st.integers(1, 12), st.integers(1, 60)))
            aut, lasts, ev = Automaton(steps, patience), ([INF] * numel if ctrl == "R" else list(cur)), []
            fresh = ctrl == "R"
            for _ in range(n):
                if ctrl == "R" and draw(st.integers(0, 24 if aut.continual else 4)) == 0:
                    ev.append("reset")
                    aut.reset()
                    lasts, fresh = [INF] * numel, True
                    continue
                if fresh:                   # the first loss after construction / reset may be anything
                    new = [_first(draw(U) / 32.0, tol, mode, scale) for _ in range(numel)]
                    fresh = False
                else:
                    common = draw(st.sampled_from(prof))
                    syms = [common if (numel == 1 or draw(st.integers(0, 2)) > 0) else draw(st.sampled_from(prof))
                            for _ in range(numel)]
                    new = [_realise(c, sy, draw(U) / 32.0, thr, tol, mode, scale) for c, sy in zip(cur, syms)]
                rej = 0
                if ctrl == "S" and draw(st.integers(0, 19)) == 0:
                    rej = draw(st.sampled_from((1, 3)))
                ev.append(new + [rej] if ctrl == "S" else new)
                aut.step(bool(step_failed(lasts, new, thr, mode)), rej > 0 and case.get("reject_attr", False),
                         tol is not None and bool(all_below(new, tol)))
                cur = lasts = new
            case["ev"] = ev
            return case
        return s()

    def oracle(self, case, rec):
        import contextlib, io
        with contextlib.redirect_stdout(io.StringIO()):
            self._oracle(case, rec)

    def _oracle(self, case, rec):
        ctrl, steps, patience, thr, form = (case[k] for k in ("ctrl", "steps", "patience", "thr", "form"))
        mode = case.get("mode", "agree")
        shape = SHAPES[form]
        numel = int(np.prod(shape)) if shape else 1
        tol = case.get("tol")
        if not (steps >= 1 and patience >= 1 and thr > 0 and (tol is None or tol > 0)) or mode not in MODE_PROFILES:
            rec.discard_case("configuration outside the stated domain")
        if mode == "rel" and ctrl != "R":
            rec.discard_case("the relative-only reading is documented for ReduceToBason alone")
        aut = Automaton(steps, patience)
        # verbose=True (documented: "prints a message") must only print: one case in three runs with it (stdout is swallowed by the
        # caller of this oracle).  A decision that depends on what is formatted for printing would be invisible otherwise (seed C20e).
        verbose = (int(steps) * 7 + int(patience) * 3 + len(case["ev"])) % 3 == 0
        rec.label("verbose" if verbose else "quiet")
        if ctrl == "R":
            kw = dict(steps=steps, patience=patience, decreasing=thr, tol=tol, verbose=verbose)
            with rec.sut("ReduceToBason()"):
                c = ReduceToBason(**kw)
                fresh = dict(vars(ReduceToBason(**kw)))
            lasts = [INF] * numel
            has_rej = False
        else:
            has_rej = bool(case["reject_attr"])
            stub = StubOpt(has_rej)
            with rec.sut("StopOnPlateau()"):
                c = StopOnPlateau(stub, steps=steps, patience=patience, decreasing=thr, verbose=verbose)
            lasts = [float(case["l0"])]
        soft = set()
        with rec.sut("initial state"):
            rec.check(bool(c.continual()), ctrl + ":initial", "fresh controller: continual() is not True")
            if not (c.steps == 0 and c.patience_count == 0):
                soft.add(ctrl + ":counter_differs:initial")
        hist, nreset, post = [], 0, 0
        dt = {"t32": torch.float32, "t64": torch.float64}.get(form, torch.float32)
        for ei_, ev in enumerate(case["ev"]):
            if ei_ == 2 and ctrl == "R" and (int(steps) + len(case["ev"])) % 5 == 0:
                # the sequence continues on a copy.deepcopy of the controller (plain object / nn.Module semantics: same state)
                import copy as _copy
                with rec.sut("copy.deepcopy(controller)"):
                    c = _copy.deepcopy(c)
                rec.label("controller_deepcopied_mid_sequence")
            if ev == "reset":
                if ctrl != "R":
                    rec.discard_case("reset on a controller without reset()")
                with rec.sut("reset"):
                    c.reset()
                    cont = c.continual()
                aut.reset()
                lasts, nreset = [INF] * numel, nreset + 1
                hist.append("|")
                named, other = _state_diff(dict(vars(c)), fresh)
                for k in named:
                    rec.fail("R:reset:attr:%s" % k, "history %s: after reset() the state variable %s = %r, a fresh controller "
                             "has %r" % ("".join(hist), k, vars(c).get(k), fresh.get(k)))
                soft.update("R:reset:other_attribute_differs:%s" % k for k in other)
                rec.check(bool(cont), "R:reset:continual", "continual() is %r right after reset()" % (cont,))
                continue
            vals = [float(v) for v in ev[:numel]]
            if len(ev) < numel or not all(0.0 <= v < INF and f32(v) == v for v in vals):
                rec.discard_case("loss outside the generated domain")
            rej = int(ev[numel]) if ctrl == "S" else 0
            failed = step_failed(lasts, vals, thr, mode)
            below = all_below(vals, tol) if ctrl == "R" else False
            running = aut.continual
            if running and (failed is None or below is None):
                rec.discard_case("readings of 'decrease' / 'below tol' do not coincide on this step")
            if running and 0.0 in vals:
                soft.add("reached:zero_loss")
            if running and mode != "agree":                  # which of the targeted regions does this asserted step reach?
                for a, b in zip(lasts, vals):
                    if a == INF or not (a > 0.0 and b > 0.0):
                        continue
                    am = RC.amounts(a, b)
                    verdict = classify(a, b, thr, mode)
                    if any(0.9 * thr <= x <= 1.1 * thr for x in am) and verdict is not None:
                        soft.add("reached:step_within_10%%_of_threshold:%s" % verdict)
                    if mode == "rel" and verdict is not None and (am[0] < thr) != (verdict == "fail"):
                        soft.add("reached:absolute_reading_opposite:%s" % verdict)
            if ctrl == "R":
                loss = vals[0] if form == "float" else torch.tensor(vals, dtype=dt).reshape(shape)
            else:
                stub.last, stub.loss = _conv(lasts[0], form), _conv(vals[0], form)
                if has_rej:
                    stub.reject_count = rej
                loss = stub.loss
            with rec.sut(ctrl + ".step"):
                c.step(loss)
                got, gs, gp = bool(c.continual()), c.steps, c.patience_count
            aut.step(bool(failed), rej > 0 and has_rej, bool(below))
            hist.append(("f" if failed else "d") + ("r" if rej and has_rej else "") + ("b" if below else ""))
            where = lambda: "steps=%d patience=%d thr=%g tol=%r form=%s mode=%s history %s (step %d: %r -> %r)" % (
                steps, patience, thr, tol, form, mode, " ".join(hist), aut.steps, lasts, vals)
            if running:
                if got is not aut.continual:
                    if got:
                        rec.fail("%s:stops_late:%s" % (ctrl, "+".join(aut.stop_causes)), where() + ": continual() still True "
                                 "although %s holds" % "+".join(aut.stop_causes))
                    else:
                        rec.fail("%s:stops_early" % ctrl, where() + ": continual() is %r where no documented condition holds "
                                 "(failed run %d/%d)" % (got, aut.patience_count, patience))
                # undocumented counters: a label, not a failure (see Enum.compare)
                if gs != aut.steps:
                    soft.add(ctrl + ":counter_differs:steps")
                if gp != aut.patience_count:
                    soft.add(ctrl + ":counter_differs:patience_count")
                if not aut.continual and "tol" in aut.stop_causes:
                    soft.add("reached:stop_on_tol@tol=%g" % tol)
            else:
                post += 1
                rec.check(not got, ctrl + ":rearmed", lambda: where() + ": continual() is %r although the controller "
                          "stopped at step %d (%s) and was not reset" % (got, aut.stop_step, "+".join(aut.stop_causes)))
            if rec.fails:
                return
            lasts = vals
        rec.label(ctrl + ":" + form, "stopped" if not aut.continual else "still_running", "mode:" + mode,
                  "resets:%d" % min(nreset, 3), "len>=20" if len(case["ev"]) >= 20 else "len<20", *sorted(soft))
        if aut.stop_causes:
            rec.label("last_stop:" + "+".join(aut.stop_causes))
        if post or nreset:
            rec.nt("%s|%d|%d|%s|%s%s" % (ctrl, steps, patience, form, "" if mode == "agree" else mode + "|", "".join(hist)))

    def simplify(self, case):
        ev = case["ev"]
        n = len(ev)
        if n > 1:
            yield dict(case, ev=ev[:n // 2])
            yield dict(case, ev=ev[n // 2:])
        for i in range(n):
            yield dict(case, ev=ev[:i] + ev[i + 1:])
        for k in ("steps", "patience"):
            if case[k] > 1:
                yield dict(case, **{k: case[k] - 1})
        if case["form"] not in ("float",) and (case["ctrl"] == "S" or case["form"] in ("t32", "t64")):
            yield dict(case, form="float")

    def size(self, case):
        return 100 * len(case["ev"]) + case["steps"] + case["patience"] + (0 if case["form"] == "float" else 5)


# =====================================================================================
class ScriptOpt(StubOpt):
    """stub optimizer whose step() plays a script of (loss, reject_count)"""

    def __init__(self, l0, script, vtype, with_reject):
        super().__init__(with_reject)
        self.script, self.vtype, self.calls, self.prev, self.with_reject = script, vtype, 0, l0, with_reject
        self.loss = _conv(l0, vtype)           # a real optimizer has a loss after its first step only; harmless

    def step(self, input, target=None, weight=None):
        if self.calls >= len(self.script):
            raise _Overrun()
        loss, rej = self.script[self.calls]
        self.calls += 1
        self.last, self.loss = _conv(self.prev, self.vtype), _conv(loss, self.vtype)
        if self.with_reject:
            self.reject_count = rej
        self.prev = loss
        return self.loss


class _Rosen(nn.Module):
    """tiny nonlinear least squares: Rosenbrock residuals + one linear row"""

    def __init__(self, p0):
        super().__init__()
        self.p = nn.Parameter(torch.tensor(p0, dtype=torch.float32))

    def forward(self, inp):
        a, b = self.p[0], self.p[1]
        return torch.stack([10 * (b - a * a), 1 - a, inp[0] * a + inp[1] * b - inp[2]])


class _Pendulum(pp.module.NLS):
    def __init__(self, a, h):
        super().__init__()
        self.a, self.h = a, h

    def state_transition(self, state, input, t=None):
        return state + self.h * torch.cat([state[..., 1:2], -self.a * torch.sin(state[..., 0:1]) + input], -1)

    def observation(self, state, input, t=None):
        return state


def _accept_any_reading(trace, thr, tol, budget, patience, n):
    """Is 'continual for steps < n, stopped at step n' the automaton's verdict under at least one reading of
    'decrease'?  trace: per step (lasts, losses, rejected) with lasts/losses flat lists (lasts None: previous losses,
    inf at the start).  Returns (True, _) explained; (False, verdicts) no reading explains it; (None, why) some
    reading could not be evaluated (loss <= 0, loss at tol, step at the threshold) and none of the others matches."""
    if any(not (0.0 < v < INF) for _, ls, _ in trace for v in ls):
        return None, "non-positive or non-finite loss"
    if tol is not None and any(abs(v - tol) <= 1e-5 * tol for _, ls, _ in trace for v in ls):
        return None, "loss at tol"
    verdicts, undecided = [], False
    for rd in RC.READINGS:
        aut, prev, undec = Automaton(budget, patience), [INF] * len(trace[0][1]), False
        for lasts, ls, rej in trace:
            fl = [failed_under(a, b, thr, rd) for a, b in zip(prev if lasts is None else lasts, ls)]
            if any(f is False for f in fl):
                failed = False
            elif all(f is True for f in fl):
                failed = True
            else:
                undec = True
                break
            aut.step(failed, bool(rej), tol is not None and all(v < tol for v in ls))
            prev = ls
            if not aut.continual:
                break
        if undec:
            undecided = True
            continue
        stop = aut.stop_step if not aut.continual else 0
        if stop == n:
            return True, rd
        verdicts.append("%s: step %d (%s)" % (rd, stop, "+".join(aut.stop_causes) or "never"))
    return (None, "step at the threshold") if undecided else (False, "; ".join(verdicts))


class Drivers(Sub):
    name = "drivers"
    n = {"quick": 640, "thorough": 12000}
    budget_s = {"quick": 200.0, "thorough": 3000.0}

    def strategy(self, tier):
        U = st.integers(0, 31)

        @st.composite
        def stub(draw):
            steps, patience = draw(st.one_of(st.integers(1, 6), st.integers(1, 40))), draw(st.integers(1, 5))
            thr = draw(st.sampled_from((1e-3, 1e-4, 1e-6)))
            prof = PROFILES[draw(st.sampled_from(("descent", "plateau", "mixed")))]
            cur = _first(draw(U) / 32.0, None)
            l0, ev = cur, []
            for _ in range(steps + 5):
                new = _realise(cur, draw(st.sampled_from(prof)), draw(U) / 32.0, thr, None)
                ev.append([new, draw(st.sampled_from((1, 2))) if draw(st.integers(0, 24)) == 0 else 0])
                cur = new
            return {"kind": "opt_stub", "steps": steps, "patience": patience, "thr": thr, "l0": l0, "ev": ev,
                    "form": draw(st.sampled_from(("float", "t32", "t64"))), "reject_attr": draw(st.integers(0, 9)) > 0,
                    "extra": draw(st.integers(0, 3))}

        real = st.fixed_dictionaries({
            "kind": st.just("opt_real"), "opt": st.sampled_from(("GN", "LM", "LM", "LM")),
            "strat": st.sampled_from(("const", "adapt", "tr")), "damping": st.sampled_from((1e-6, 1e-2, 1.0, 1e3)),
            "reject": st.sampled_from((1, 2, 16)), "steps": st.integers(1, 12), "patience": st.integers(1, 4),
            "thr": st.sampled_from((1e-3, 1e-6, 1e-1)),
            "p0": st.lists(st.integers(-40, 40).map(lambda k: k / 8.0), min_size=2, max_size=2),
            "inp": st.lists(st.integers(-16, 16).map(lambda k: k / 4.0), min_size=3, max_size=3)})
        loop = st.fixed_dictionaries({
            "kind": st.sampled_from(("mpc", "icp", "icp")), "steps": st.integers(1, 9), "patience": st.integers(1, 4),
            "thr": st.sampled_from((1e-3, 0.0, 1e-6, 0.05)), "tol": st.sampled_from((1e-5, 1e-5, 1e-2, 1e3)),
            "seed": st.integers(0, 2 ** 31 - 1), "size": st.integers(3, 14), "batch": st.sampled_from((0, 0, 2))})
        return st.one_of(stub(), real, loop, loop)

    # ---------------------------------------------------------------------------------
    def oracle(self, case, rec):
        getattr(self, "_" + case["kind"])(case, rec)

    def _opt_stub(self, case, rec):
        steps, patience, thr, form = (case[k] for k in ("steps", "patience", "thr", "form"))
        has_rej = bool(case["reject_attr"])
        script = [(float(l), int(r)) for l, r in case["ev"]]
        if len(script) < steps + 1 or not all(0.0 < l < INF for l, _ in script):
            rec.discard_case("script shorter than the budget")
        aut, last, hist = Automaton(steps, patience), float(case["l0"]), []
        for l, r in script:
            failed = relation(last, l, thr)
            if failed is None:
                rec.discard_case("readings of 'decrease' do not coincide on this step")
            aut.step(failed == "fail", r > 0 and has_rej)
            hist.append(("f" if failed == "fail" else "d") + ("r" if r and has_rej else ""))
            last = l
            if not aut.continual:
                break
        assert not aut.continual and aut.stop_step <= steps
        opt = ScriptOpt(float(case["l0"]), script, form, has_rej)
        with rec.sut("StopOnPlateau()"):
            sched = StopOnPlateau(opt, steps=steps, patience=patience, decreasing=thr)
        over = False
        try:
            with rec.sut("StopOnPlateau.optimize", allow=(_Overrun,)):
                sched.optimize(input=None)
        except _Overrun:
            over = True
        where = "steps=%d patience=%d thr=%g history %s" % (steps, patience, thr, " ".join(hist))
        if over:
            rec.fail("optimize_stub:overrun", where + ": optimize() still running after %d optimizer steps; documented "
                     "stop (%s) at step %d" % (opt.calls, "+".join(aut.stop_causes), aut.stop_step))
            return
        n = opt.calls
        rec.check(n <= steps, "optimize_stub:budget", "%s: %d optimizer steps > steps" % (where, n))
        rec.check(n == aut.stop_step, "optimize_stub:stop_step", "%s: optimize() made %d optimizer steps, documented "
                  "conditions (%s) first hold at step %d" % (where, n, "+".join(aut.stop_causes), aut.stop_step))
        with rec.sut("after optimize"):
            cont, ns = sched.continual(), sched.steps
        rec.check(not cont, "optimize_stub:continual_after", where + ": continual() not False after optimize()")
        if ns != n:                          # undocumented counter: label only
            rec.label("S:counter_differs:steps")
        for j in range(min(int(case["extra"]), len(script) - opt.calls)):      # steps after the stop, then optimize again
            loss = opt.step(None)
            with rec.sut("StopOnPlateau.step after the stop"):
                sched.step(loss)
                cont = sched.continual()
            rec.check(not cont, "optimize_stub:rearmed", where + ": a step after the stop re-armed the scheduler")
        k = opt.calls
        try:
            with rec.sut("second optimize()", allow=(_Overrun,)):
                sched.optimize(input=None)
        except _Overrun:
            pass
        rec.check(opt.calls == k, "optimize_stub:rearmed", where + ": second optimize() call stepped a stopped optimizer")
        rec.label("opt_stub", "opt_stub:stop:" + "+".join(aut.stop_causes))
        if case["extra"]:
            rec.nt("opt_stub|%d|%d|%s|+%d" % (steps, patience, "".join(hist), case["extra"]))

    def _opt_real(self, case, rec, strict=False):
        steps, patience, thr = case["steps"], case["patience"], case["thr"]
        model = _Rosen([float(v) for v in case["p0"]])
        inp = torch.tensor([float(v) for v in case["inp"]], dtype=torch.float32)
        with rec.sut("optimizer construction"):
            if case["opt"] == "GN":
                opt = pp.optim.GN(model)
            else:
                d = float(case["damping"])
                strat = {"const": lambda: pp.optim.strategy.Constant(damping=d),
                         "adapt": lambda: pp.optim.strategy.Adaptive(damping=d),
                         "tr": lambda: pp.optim.strategy.TrustRegion(radius=d)}[case["strat"]]()
                opt = pp.optim.LM(model, strategy=strat, reject=int(case["reject"]))
            sched = StopOnPlateau(opt, steps=steps, patience=patience, decreasing=thr)
        trace, orig = [], opt.step
        # "the optimizer's last step involved a rejection" is observed independently of the optimizer's own bookkeeping: the linear
        # solver is wrapped and counts the trials of every step (a step with >= 2 solves rejected at least one trial).  A change
        # on the OPTIMIZER side that hides a rejection from the scheduler (reject_count reset on acceptance) is then visible.
        ntr = {"n": 0}
        if case["opt"] != "GN" and hasattr(opt, "solver"):
            inner_solver = opt.solver

            class _Count(torch.nn.Module):
                def forward(self_, A, b):
                    ntr["n"] += 1
                    return inner_solver(A, b)
            opt.solver = _Count()

        def counted(*a, **kw):
            if len(trace) > steps + 3:
                raise _Overrun()
            n0 = ntr["n"]
            r = orig(*a, **kw)
            rejected = max(int(getattr(opt, "reject_count", 0) or 0), ntr["n"] - n0 - 1)
            trace.append((float(opt.last), float(opt.loss), rejected))
            return r
        opt.step = counted
        over = False
        try:
            sched.optimize(input=inp)
            cont, ns = sched.continual(), sched.steps
        except _Overrun:
            over = True
        except Exception as e:
            _driver_exc(rec, "StopOnPlateau.optimize(real %s)" % case["opt"], e, strict)
        n = len(trace)
        where = "%s steps=%d patience=%d thr=%g p0=%s: losses %s" % (case["opt"], steps, patience, thr, case["p0"],
                                                                      [(round(a, 6), round(b, 6), r) for a, b, r in trace[:14]])
        if over:
            rec.fail("optimize_real:overrun", where + ": still running after %d optimizer steps" % n)
            return
        rec.check(n <= steps, "optimize_real:budget", "%s: %d optimizer steps > steps" % (where, n))
        # a freshly constructed scheduler is continual (checked in enum / sequences): optimize() must step at least once,
        # a loop that never runs would satisfy everything below vacuously
        rec.check(n >= 1, "optimize_real:no_step", where + ": optimize() on a fresh scheduler made no optimizer step")
        rec.check(not cont, "optimize_real:final_state", "%s: continual()=%r after optimize() returned (%d steps)" % (where, cont, n))
        if ns != n:
            rec.label("S:counter_differs:steps")
        if n == 0:
            return
        if not all(math.isfinite(a) and math.isfinite(b) for a, b, _ in trace):
            rec.label("opt_real:nonfinite_loss(stop step not judged)")
            rec.check(not strict, "canary:opt_real:undecided", where + ": non-finite loss on a canary input")
            return
        # exact stop step under some reading; `last` is supplied by the optimizer
        ok, detail = _accept_any_reading([([a], [b], r) for a, b, r in trace], thr, None, steps, patience, n)
        rec.check(ok is not False, "optimize_real:stop_step", "%s: stopped after %d steps, no reading of 'decrease' explains it (%s)"
                  % (where, n, detail))
        rec.label("opt_real:" + case["opt"], "opt_real:decided" if ok else "opt_real:undecided(stop step not judged)",
                  "opt_real:rejections" if any(r for _, _, r in trace) else "opt_real:no_rejection")
        if strict:
            rec.check(ok is not None, "canary:opt_real:undecided", "%s: the stop step of a canary input cannot be judged (%s)" % (where, detail))
        try:                                # a stopped scheduler stays stopped: optimize() again must not step the optimizer
            sched.optimize(input=inp)
            cont = sched.continual()
        except _Overrun:
            pass
        except Exception as e:
            _driver_exc(rec, "second StopOnPlateau.optimize(real %s)" % case["opt"], e, strict)
        rec.check(len(trace) == n and not cont, "optimize_real:rearmed", "%s: a second optimize() made %d more optimizer steps"
                  % (where, len(trace) - n))
        rec.nt("opt_real|%d|%d|%s|%s|%d|%d" % (steps, patience, case["opt"], case["strat"] if case["opt"] == "LM" else "-", n,
                                               sum(1 for _, _, r in trace if r)))

    def _loop(self, case, rec, build, strict=False, default=None):
        """MPC / ICP: the same object is called three times (stepper reused), counting wrapper around stepper.step.
        default = (documented steps, documented effective budget): the driver is constructed WITHOUT a stepper - documented: 'If
        None, the ReduceToBason with a maximum of 10 (MPC) / 200 (ICP) steps' - as the SECOND such object of the case: each object
        has its own controller with the documented budget and the ReduceToBason defaults (a default controller shared between
        objects - a mutable default argument - loses one step per constructed MPC - seed C20h)"""
        k, patience, thr, tol = case["steps"], case["patience"], case["thr"], case["tol"]
        if default is not None:
            k, patience, thr, tol = default[0], 5, 1e-3, 1e-5
            calls, stepper, other = build(None)
            rec.label(case["kind"] + ":default_stepper")
            if not rec.check(isinstance(stepper, ReduceToBason) and stepper is not other, case["kind"] + ":default_stepper_shared",
                             "%s: two drivers constructed without a stepper share one controller object (or it is not a ReduceToBason)" % case["kind"]):
                return
            rec.check(stepper.max_steps == default[1] and (stepper.patience, stepper.decreasing, stepper.tol) == (5, 1e-3, 1e-5), case["kind"] + ":default_budget",
                      "%s constructed without a stepper: controller budget %r patience %r decreasing %r tol %r, documented ReduceToBason(steps=%d) "
                      "(effective budget %d)" % (case["kind"], stepper.max_steps, stepper.patience, stepper.decreasing, stepper.tol, default[0], default[1]))
        else:
            with rec.sut("ReduceToBason()"):
                stepper = ReduceToBason(steps=k, patience=patience, decreasing=thr, tol=tol)
        seen, orig = [], stepper.step

        def counted(loss):
            if len(seen) > k + 3:
                raise _Overrun()
            seen.append([float(v) for v in torch.as_tensor(loss).detach().reshape(-1).tolist()])
            return orig(loss)
        stepper.step = counted
        if default is None:
            calls = build(stepper)
        budget = stepper.max_steps          # MPC documents n-1 loops
        rec.check(budget <= k, case["kind"] + ":budget_attr", "driver raised the stepper budget to %r > steps=%d" % (budget, k))
        desc = []
        for ci, call in enumerate(calls):
            del seen[:]
            over = False
            try:
                call()
                cont = stepper.continual()
            except _Overrun:
                over = True
            except Exception as e:
                _driver_exc(rec, "%s call %d" % (case["kind"], ci + 1), e, strict)
            n = len(seen)
            where = "%s call %d steps=%d patience=%d thr=%g tol=%g seed=%d: losses %s" % (
                case["kind"], ci + 1, k, patience, thr, tol, case["seed"], [[round(v, 7) for v in ls] for ls in seen[:12]])
            if over:
                rec.fail("%s:overrun" % case["kind"], where + ": loop still running after %d controller steps" % n)
                return
            rec.check(n <= k, "%s:budget" % case["kind"], "%s: %d controller steps, budget %d" % (where, n, k))
            rec.check(not cont, "%s:continual_after" % case["kind"], where + ": continual() not False after the loop ended")
            if n == 0:
                # call 1: the stepper is freshly constructed, hence continual (checked in enum / sequences) - a loop that
                # never steps it would pass everything else vacuously.  Later calls: whether the DRIVER re-arms a stopped
                # stepper is not this property's business (counted; asserted on the canary inputs only, where the
                # unchanged tree does).
                rec.check(ci > 0 and not strict, "%s:no_step:call%d" % (case["kind"], min(ci + 1, 2)),
                          where + ": the driver loop made no controller step")
                rec.label("%s:call%d:zero_steps(stop step not judged)" % (case["kind"], ci + 1))
                continue
            ok, detail = _accept_any_reading([(None, ls, 0) for ls in seen], thr, tol, budget, patience, n)
            rec.check(ok is not False, "%s:stop_step:call%d" % (case["kind"], min(ci + 1, 2)), "%s: loop ended after %d controller "
                      "steps; a fresh controller (budget %d) stops at %s" % (where, n, budget, detail))
            rec.label("%s:call%d:%s" % (case["kind"], ci + 1, "decided" if ok else "undecided(stop step not judged)"))
            if strict:
                rec.check(ok is not None, "canary:%s:undecided" % case["kind"], "%s: the stop step of a canary input cannot be "
                          "judged (%s)" % (where, detail))
            desc.append(str(n))
        rec.label(case["kind"])
        rec.nt("%s|%d|%d|%g|%g|%s" % (case["kind"], k, patience, thr, tol, ",".join(desc)))

    def _mpc(self, case, rec, strict=False):
        rs = np.random.RandomState(case["seed"] % (2 ** 31))
        T, ns, nc, B = 2 + case["size"] % 3, 2, 1, 1
        Q = torch.tile(torch.eye(ns + nc), (B, T, 1, 1)) * float(rs.uniform(0.5, 2.0))
        p = torch.zeros(B, T, ns + nc)
        x0 = torch.tensor(2 * rs.randn(B, ns), dtype=torch.float32)
        u0 = torch.tensor(3 * rs.randn(B, T, nc), dtype=torch.float32)
        x1 = torch.tensor(2 * rs.randn(B, ns), dtype=torch.float32)
        h = float(rs.choice([0.05, 0.3]))
        sysm = _Pendulum(float(rs.uniform(0.5, 4.0)), h)

        def build(stepper):
            with rec.sut("MPC()"):
                if stepper is None:
                    first = pp.module.MPC(sysm, Q, p, T)
                    mpc = pp.module.MPC(sysm, Q, p, T) if case["seed"] % 2 else pp.module.MPC(sysm, Q, p, T, stepper=None)
                else:
                    mpc = pp.module.MPC(sysm, Q, p, T, stepper=stepper)
            calls = [lambda: mpc(h, x0, u_init=u0), lambda: mpc(h, x1, u_init=u0), lambda: mpc(h, x0, u_init=0 * u0)]
            return calls if stepper is not None else (calls, mpc.stepper, first.stepper)
        self._loop(case, rec, build, strict, default=(10, 9) if case.get("default_stepper", case["seed"] % 4 == 0) else None)

    def _icp(self, case, rec, strict=False):
        rs = np.random.RandomState(case["seed"] % (2 ** 31))
        n, batch = 4 + case["size"], ((2,) if case["batch"] else ())
        src = torch.tensor(rs.randn(*batch, n, 3), dtype=torch.float32)
        q = rs.randn(*batch, 4) * 0.15 + np.array([0, 0, 0, 1.0])
        q /= np.linalg.norm(q, axis=-1, keepdims=True)
        tf = pp.SE3(torch.tensor(np.concatenate([0.3 * rs.randn(*batch, 3), q], -1), dtype=torch.float32))
        tgt = tf.unsqueeze(-2).Act(src) + 0.02 * torch.tensor(rs.randn(*batch, n, 3), dtype=torch.float32)
        src2 = torch.tensor(rs.randn(*batch, n, 3), dtype=torch.float32)

        def build(stepper):
            with rec.sut("ICP()"):
                if stepper is None:
                    first = pp.module.ICP()
                    icp = pp.module.ICP() if case["seed"] % 2 else pp.module.ICP(stepper=None)
                else:
                    icp = pp.module.ICP(stepper=stepper)
            calls = [lambda: icp(src, tgt), lambda: icp(tgt, src), lambda: icp(src2, tgt)]
            return calls if stepper is not None else (calls, icp.stepper, first.stepper)
        self._loop(case, rec, build, strict, default=(200, 200) if case.get("default_stepper", case["seed"] % 4 == 0) else None)

    def simplify(self, case):
        if case["kind"] == "opt_stub":
            if case["extra"]:
                yield dict(case, extra=0)
            for k in ("steps", "patience"):
                if case[k] > 1:
                    yield dict(case, **{k: case[k] - 1})
            ev = case["ev"]
            for i in range(len(ev)):
                if len(ev) - 1 >= case["steps"] + 1:
                    yield dict(case, ev=ev[:i] + ev[i + 1:])
            for i in range(len(ev)):
                if ev[i][1]:
                    yield dict(case, ev=ev[:i] + [[ev[i][0], 0]] + ev[i + 1:])
        else:
            for k in ("steps", "patience", "size"):
                if case.get(k, 1) > 1:
                    yield dict(case, **{k: case[k] - 1})
            if case.get("batch"):
                yield dict(case, batch=0)


class Canary(Drivers):
    """A handful of FIXED, well-conditioned driver inputs on which the unchanged tree runs every loop cleanly.  The random
    driver cases cannot tell 'the loop is governed correctly' from 'the driver never gets as far as the loop' (an
    exception outside the controller code discards the case, a loop without a step has no stop step to judge); here
    nothing may be skipped: every call must return without an exception, make >= 1 controller step, and its stop step
    must be decidable and the automaton's."""
    name = "driver_canary"
    kind = "enum"
    exhaustive = False
    budget_s = {"quick": 100.0, "thorough": 100.0}

    def cases(self, tier):
        for steps, patience, thr, tol in ((1, 1, 1e-3, 1e-5), (3, 1, 1e-3, 1e-5), (6, 2, 1e-6, 1e-5), (9, 4, 0.05, 1e-2)):
            for kind, batch in (("mpc", 0), ("icp", 0), ("icp", 2)):
                yield {"kind": kind, "steps": steps, "patience": patience, "thr": thr, "tol": tol, "seed": 12345 + steps,
                       "size": 8, "batch": batch, "default_stepper": False}
        for kind, batch in (("mpc", 0), ("icp", 0)):
            for sd in (12346, 12347):
                yield {"kind": kind, "steps": 1, "patience": 1, "thr": 1e-3, "tol": 1e-5, "seed": sd, "size": 8, "batch": batch, "default_stepper": True}
        for opt, strat in (("GN", "const"), ("LM", "const"), ("LM", "adapt"), ("LM", "tr")):
            for steps, patience in ((1, 1), (4, 2), (12, 3)):
                yield {"kind": "opt_real", "opt": opt, "strat": strat, "damping": 1e-2 if strat != "tr" else 1.0, "reject": 16,
                       "steps": steps, "patience": patience, "thr": 1e-3, "p0": [-1.5, 2.0], "inp": [1.0, 0.5, 0.25]}

    def oracle(self, case, rec):
        getattr(self, "_" + case["kind"])(case, rec, True)
        rec.label("canary:" + case["kind"])


SUBS = [Enum(), Histories(), Sequences(), Drivers(), Canary()]


# =====================================================================================
def selftest():
    # (1) the automaton reproduces the two docstring examples
    a = Automaton(5, 2)                       # ReduceToBason(steps=5, patience=2, decreasing=0.1): x <- x^2 from 0.9
    x, last, out = 0.9, INF, []
    for _ in range(5):
        x = x * x
        out.append(a.step(failed_under(last, x, 0.1, "rel_new"), False, x < 1e-5))
        last = x
    assert out == [True, True, True, True, False] and a.stop_causes == ("budget",), (out, a.stop_causes)
    b = Automaton(10, 3)                      # StopOnPlateau(steps=10, patience=3, decreasing=1e-3) docstring run
    ls = [9.337769e+01, 3.502787e-05, 4.527339e-13, 7.112640e-14, 3.693307e-14]
    out = [b.step(failed_under(p, q, 1e-3, "abs")) for p, q in zip(ls, ls[1:])]
    assert out == [True, True, True, False] and b.stop_causes == ("patience",), (out, b.stop_causes)
    # (2) incremental automaton == non-incremental definition on random abstract histories
    rs = np.random.RandomState(7)
    for _ in range(3000):
        steps, patience, n = rs.randint(1, 9), rs.randint(1, 5), rs.randint(1, 14)
        h = [(bool(rs.rand() < 0.6), bool(rs.rand() < 0.1), bool(rs.rand() < 0.1)) for _ in range(n)]
        a, stop = Automaton(steps, patience), 0
        for t, (f, r, bl) in enumerate(h, 1):
            a.step(f, r, bl)
            if not a.continual and not stop:
                stop = t
            assert a.continual == (stop == 0)
        assert stop == RC.stop_step_by_definition(h, steps, patience) == a.stop_step, (h, steps, patience)
    # (3) every ladder is unambiguous on every value reachable within 12 steps, the verdict used by the enumeration is the
    #     one exact rational arithmetic gives for EVERY reading it claims to cover, and no step is closer than 0.5 % to
    #     the threshold (the controllers' float32 rounding is 2e-7); on the rel_* ladders the absolute reading is opposite
    for name, L in LADDERS.items():
        thr, tol, mode = L["thr"], L["tol"], L["mode"]
        readings = RC.READINGS[1:] if mode == "rel" else RC.READINGS
        vals = {L["l0"]}
        for _ in range(12):
            vals |= {_ladder(v, ch, L) for v in vals for ch in "dsi"}
        opposite = set()
        for v in vals:
            assert all_below([v], tol) is False and f32(v) == v and v > 0
            for ch, want in (("d", "dec"), ("s", "fail"), ("e", "fail"), ("i", "fail")):
                w = _ladder(v, ch, L)
                assert classify(v, w, thr, mode) == want and (ch == "e" or w != v), (name, v, ch)
                verdicts, dist = RC.relation_exact(v, w, thr, readings)
                assert verdicts == {want} and dist > 5e-3, (name, v, ch, verdicts, dist)
                assert all(failed_under(v, w, thr, rd) is (want == "fail") for rd in readings)
                if RC.relation_exact(v, w, thr, ("abs",))[0] != {want}:
                    opposite.add(ch)
            assert classify(v, L["below"], thr, mode) == "dec" and classify(L["below"], v, thr, mode) == "fail"
        assert all_below([L["below"]], tol) is True and classify(L["below"], L["below"], thr, mode) == "fail"
        assert (mode == "rel") == bool(opposite), (name, opposite)
        if name == "fine":      # ... and the near-threshold steps really are within 1.5 % of the threshold
            assert all(RC.relation_exact(v, _ladder(v, ch, L), thr)[1] < 0.015 for v in vals for ch in "ds")
    assert LADDERS["rel_hi"]["s"] and classify(1024.0, _ladder(1024.0, "s", LADDERS["rel_hi"]), 1e-3, "agree") is None
    # zero losses: IEEE semantics of x/0
    assert relation(1.0, 0.0, 1e-3) == "dec" and relation(0.0, 1.0, 1e-3) == "fail" and relation(0.0, 0.0, 1e-3) is None
    assert relation(1e-4, 0.0, 1e-3) is None and RC.relation_rel(1.0, 0.0, 1e-3) is None
    # (4) the cases partition each box: every history of length 1..maxlen is counted by exactly one case
    e = Enum()
    for tier in ("quick",):
        tot = {}
        for c in e.cases(tier):
            if c.get("alpha"):
                continue
            key = (c["ladder"], c["ctrl"], c["steps"], c["patience"], c["maxlen"])
            m, pre = len(SYM[c["ctrl"]]), c["prefix"]
            sub = sum(m ** j for j in range(1, c["maxlen"] - len(pre) + 1))
            owned = sum(1 for d in range(len(pre)) if d >= len(pre) - 1 or set(pre[d + 1:]) <= {SYM[c["ctrl"]][0]})
            tot[key] = tot.get(key, 0) + sub + owned
        assert set(tot) == set(e.box(tier))
        for (lad, ctrl, s_, p, L), v in tot.items():
            assert v == sum(len(SYM[ctrl]) ** j for j in range(1, L + 1)), (ctrl, s_, p, v)
    # the thorough boxes reach the stated configuration limits (steps 1..6 x patience 1..4), pairs reach length 12
    tb = e.box("thorough")
    assert {(s_, p) for l, c, s_, p, _ in tb if l == "coarse" and c == "S"} == {(a, b) for a in range(1, 7) for b in range(1, 5)}
    assert len(e.pair_box("thorough")) == 48 and (6, 4) in Enum.PAIRS_QUICK["S"]
    rec = eval_case(e, {"ctrl": "R", "steps": 2, "patience": 1, "prefix": "", "maxlen": 4})
    if not rec.fails:           # (a broken controller aborts the walk early: that is a violation, not a harness error)
        assert rec.notes["histories_per_case"] == 5 + 25 + 125 + 625, rec.notes
    rec = eval_case(e, {"ctrl": "S", "steps": 6, "patience": 4, "prefix": "", "maxlen": 12, "alpha": "dE", "ladder": "coarse"})
    if not rec.fails:
        assert rec.notes["histories_per_case"] == 2 ** 13 - 2, rec.notes
