"""C02 - Log is the principal inverse of Exp on SO3 / SE3 / RxSO3 / Sim3."""
import math
import numpy as np
import torch
import pypose as pp
from hypothesis import strategies as st

from ..core import Sub
from ..ref import lie as R
from .. import tu, gen

PROPERTY = "C02"
RULE = ("group: Hypothesis draws valid group elements (unit quaternion built in float64 then rounded to the dtype: by "
        "angle from the regime table incl. exactly 0 and pi and pi-{1e-12..1e-3}, random, |w| within 2^+-8 eps of 0, "
        "|v| within 2^+-8 eps of 0, BOTH hemispheres; translation from the magnitude table up to 1e3; scale exactly 1, "
        "1+-2^k eps, e^[-8,8]) in batches of rank 0..2 and checks (a) reference-Exp(Log X) == X as matrices, (b) "
        "|rotation part of Log X| <= pi, (c) Log(-q) == Log(q) and (d) Log(Inv X) == -Log X when the angle <= pi-1e-3, "
        "(f) type/finite.  roundtrip: algebra elements with angle < pi-1e-3 (regime table) and Log(Exp x) == x.  "
        "Tolerances: rotation/scale c*eps (absolute in the algebra = relative on the group block), translation "
        "(8 sqrt(eps) + 32 eps cond(W))*|tau| resp. the C01 forward bound.  Non-trivial: |w| or |v| within 2^8 eps of 0, "
        "w<0, angle within 1e-3 of pi, scale outside [e^-4,e^4] or within 2^12 eps of 1, or a thin-regime block; "
        "distinct = (ltype, dtype, regimes, binary exponents).")
ASSUMPTIONS = ["group inputs are valid: |q|=1 up to rounding to the dtype, scale in [e^-8, e^8], |t| <= 1e3",
               "relations (c),(d) only asserted when the rotation angle is <= pi - 1e-3, as the statement says"]


def _blocks(alt, x):
    return R.split_alg(alt, x)


def _cmp_alg(rec, bucket, alt, dtype, xa, xb, Wref, what):
    """compare two algebra elements blockwise (absolute c*eps on rotation/scale, sqrt(eps)-relative on translation)"""
    eps = tu.EPS[dtype]
    ta, pa, sa = _blocks(alt, xa)
    tb, pb, sb = _blocks(alt, xb)
    th = max(np.linalg.norm(pa), np.linalg.norm(pb))
    e = float(np.linalg.norm(pa - pb)); tol = 64 * eps * max(1.0, th)
    rec.notes["alg_rot"] = max(rec.notes.get("alg_rot", 0), e / tol)
    ok = rec.check(e <= tol, bucket + ":rot", lambda: "%s: rotation parts differ by %.3g (tol %.3g): %s vs %s" % (what, e, tol, pa.tolist(), pb.tolist()))
    if alt in ("rxso3", "sim3"):
        e2 = abs(sa - sb); tol2 = 32 * eps * max(1.0, abs(sa))
        rec.notes["alg_sig"] = max(rec.notes.get("alg_sig", 0), e2 / tol2)
        ok &= rec.check(e2 <= tol2, bucket + ":sigma", lambda: "%s: log-scales differ by %.3g (tol %.3g): %r vs %r" % (what, e2, tol2, sa, sb))
    if alt in ("se3", "sim3"):
        kappa = float(np.linalg.cond(Wref))
        nt = max(np.linalg.norm(ta), np.linalg.norm(tb))
        e3 = float(np.linalg.norm(ta - tb)); tol3 = (8 * math.sqrt(eps) + 32 * eps * kappa) * nt
        if tol3 > 0:
            rec.notes["alg_tau"] = max(rec.notes.get("alg_tau", 0), e3 / tol3)
        ok &= rec.check(e3 <= tol3, bucket + ":tau", lambda: "%s: translation parts differ by %.3g (tol %.3g): %s vs %s" % (what, e3, tol3, ta.tolist(), tb.tolist()))
    return ok


class LogGroup(Sub):
    name = "group"
    n = {"quick": 16000, "thorough": 400000}

    def strategy(self, tier):
        @st.composite
        def s(draw):
            lt = draw(st.sampled_from(R.GROUPS))
            dtype = draw(st.sampled_from(gen.DTYPES))
            shape = draw(gen.lshape(max_rank=2, extents=(1, 2, 3), max_items=6))
            n = int(np.prod(shape)) if shape else 1
            items, regs = [], []
            for _ in range(n):
                X, reg = draw(gen.group(lt, dtype))
                items.append(X); regs.append(reg)
            return {"ltype": lt, "dtype": dtype, "lshape": shape, "items": items, "regs": regs, "fn": draw(st.booleans()),
                    "view": draw(st.sampled_from(tu.VIEWS))}
        return s()

    def oracle(self, case, rec):
        lt, dtype, shape, items = case["ltype"], case["dtype"], case["lshape"], case["items"]
        alt = R.ALG_OF[lt]
        eps = tu.EPS[dtype]
        X = tu.lie(lt, items, dtype, shape=shape, view=case.get("view"))
        rec.label("layout:" + ("contiguous" if X.tensor().is_contiguous() else "noncontiguous:" + str(case.get("view"))))
        neg = []
        for it in items:
            t, q, s = R.split_group(lt, it)
            neg.append(R.join_group(lt, t, -np.asarray(q), s).tolist())
        Xn = tu.lie(lt, neg, dtype, shape=shape, view=case.get("view"))
        with rec.sut("Log"):
            x = pp.Log(X) if case["fn"] else X.Log()
            xn = Xn.Log()
            xi = X.Inv().Log()
        rec.label(lt, dtype)
        if not rec.check(isinstance(x, pp.LieTensor) and x.ltype == tu.LT[alt], "ltype", "Log(%s) has ltype %s" % (lt, getattr(x, "ltype", None))):
            return
        if not rec.check(tuple(x.shape) == tuple(shape) + (R.ADIM[alt],), "shape", "Log shape %s" % (tuple(x.shape),)):
            return
        xs, xns, xis = (tu.npy(v).reshape(-1, R.ADIM[alt]) for v in (x, xn, xi))
        for i, (it, reg) in enumerate(zip(items, case["regs"])):
            t, q, s = R.split_group(lt, it)
            ang = R.quat_angle(q)
            rq = reg["q"]
            thin = (rq.startswith(("w~0", "v~0", "pi", "ident")) or ":neg" in rq or ang > math.pi - 1e-3
                    or reg.get("s") in ("s:big", "s~1") or reg.get("t") in gen_thin())
            if thin:
                rec.nt((lt, dtype, gen.regime_key(reg), math.frexp(ang)[1] if ang else 0, math.frexp(math.pi - ang)[1] if ang < math.pi else 0))
            rec.label("%s:%s" % (lt, rq))
            xv = xs[i]
            if not rec.check(bool(np.all(np.isfinite(xv))), "nonfinite:" + lt, "Log(%s) = %s" % (it, xv.tolist())):
                continue
            tau, phi, sigma = R.split_alg(alt, xv)
            th = float(np.linalg.norm(phi))
            rec.check(th <= math.pi * (1 + 8 * eps), "principal:" + lt, "Log(%s): rotation part has norm %.17g > pi" % (it, th))
            # (a) reference Exp(Log X) is the same transformation as X
            ref = R.exp_ref_parts(alt, xv)
            Mx = R.mat4(lt, it)
            Bref = ref["s"] * ref["R"]
            tolR = 64 * eps * float(np.abs(Mx[:3, :3]).max())
            eR = float(np.abs(Bref - Mx[:3, :3]).max())
            rec.notes["a_rot"] = max(rec.notes.get("a_rot", 0), eR / tolR)
            rec.check(eR <= tolR, "explog:rot:%s:%s" % (lt, dtype), lambda: "Exp(Log(%s)): rotation/scale block off by %.3g (tol %.3g); Log=%s" % (it, eR, tolR, xv.tolist()))
            if lt in ("SE3", "Sim3"):
                tol = 8 * math.sqrt(eps) * float(np.linalg.norm(t)) + 64 * eps * float(np.linalg.norm(ref["absWtau"]))
                et = float(np.linalg.norm(ref["t"] - t))
                if tol > 0:
                    rec.notes["a_trans"] = max(rec.notes.get("a_trans", 0), et / tol)
                rec.check(et <= tol, "explog:trans:%s:%s" % (lt, dtype), lambda: "Exp(Log(%s)): translation %s vs %s (err %.3g tol %.3g); Log=%s" % (it, ref["t"].tolist(), t.tolist(), et, tol, xv.tolist()))
            if ang <= math.pi - 1e-3:
                _cmp_alg(rec, "negquat:%s:%s" % (lt, dtype), alt, dtype, xv, xns[i], ref["W"], "Log(X) vs Log(-q X) for X=%s" % (it,))
                if np.all(np.isfinite(xis[i])):
                    _cmp_alg(rec, "loginv:%s:%s" % (lt, dtype), alt, dtype, -xv, xis[i], ref["W"], "-Log(X) vs Log(Inv X) for X=%s" % (it,))
                else:
                    rec.fail("nonfinite:" + lt, "Log(Inv(%s)) = %s" % (it, xis[i].tolist()))

    def simplify(self, case):
        if len(case["items"]) > 1:
            for i in range(len(case["items"])):
                yield dict(case, lshape=[], items=[case["items"][i]], regs=[case["regs"][i]])


def gen_thin():
    return ("zero", "tiny", "eps", "sqrteps", "large")


class RoundTrip(Sub):
    name = "roundtrip"
    n = {"quick": 16000, "thorough": 400000}

    def strategy(self, tier):
        @st.composite
        def s(draw):
            lt = draw(st.sampled_from(R.ALGEBRAS))
            dtype = draw(st.sampled_from(gen.DTYPES))
            shape = draw(gen.lshape(max_rank=2, extents=(1, 2, 3), max_items=6))
            n = int(np.prod(shape)) if shape else 1
            items, regs = [], []
            for _ in range(n):
                x, reg = draw(gen.algebra(lt, dtype, maxk=1))
                # keep the rotation angle below pi - 1e-3 (rescale the rotation part if needed)
                tau, phi, sigma = R.split_alg(lt, x)
                th = float(np.linalg.norm(phi))
                lim = math.pi - 1e-3 * (1 + draw(st.integers(0, 3)))
                if th > lim:
                    phi = phi * (lim / th) * (1 - 1e-6)
                    x = gen.rnd_list(R.join_alg(lt, tau, phi, sigma).tolist(), dtype)
                    reg = dict(reg, phi="nearpi")
                items.append(x); regs.append(reg)
            return {"ltype": lt, "dtype": dtype, "lshape": shape, "items": items, "regs": regs, "view": draw(st.sampled_from(tu.VIEWS))}
        return s()

    def oracle(self, case, rec):
        lt, dtype, shape, items = case["ltype"], case["dtype"], case["lshape"], case["items"]
        x = tu.lie(lt, items, dtype, shape=shape, view=case.get("view"))
        rec.label("layout:" + ("contiguous" if x.tensor().is_contiguous() else "noncontiguous:" + str(case.get("view"))))
        with rec.sut("Log(Exp)"):
            y = x.Exp().Log()
        rec.label(lt, dtype)
        ys = tu.npy(y).reshape(-1, R.ADIM[lt])
        for i, (it, reg) in enumerate(zip(items, case["regs"])):
            tau, phi, sigma = R.split_alg(lt, it)
            th = float(np.linalg.norm(phi))
            if th > math.pi - 1e-3:
                continue
            if any(v in ("zero", "tiny", "eps", "sqrteps", "nearpi", "pi1", "large") for v in reg.values()):
                rec.nt((lt, dtype, gen.regime_key(reg), math.frexp(th)[1] if th else 0, math.frexp(abs(sigma))[1] if sigma else 0))
            rec.label("%s:%s" % (lt, gen.regime_key(reg)))
            if not rec.check(bool(np.all(np.isfinite(ys[i]))), "nonfinite:" + lt, "Log(Exp(%s)) = %s" % (it, ys[i].tolist())):
                continue
            W = R.exp_ref_parts(lt, it)["W"]
            _cmp_alg(rec, "logexp:%s:%s" % (lt, dtype), lt, dtype, np.asarray(it), ys[i], W, "x vs Log(Exp(x)) for x=%s" % (it,))

    def simplify(self, case):
        if len(case["items"]) > 1:
            for i in range(len(case["items"])):
                yield dict(case, lshape=[], items=[case["items"][i]], regs=[case["regs"][i]])


SUBS = [LogGroup(), RoundTrip()]


def selftest():
    from .c01 import selftest as s1
    s1()
