"""C04 - autograd through LieTensor ops gives exact left-perturbation Jacobians."""
import math
import numpy as np
import torch
import pypose as pp
from torch import nn
from hypothesis import strategies as st

from ..core import Sub
from ..ref import lie as R
from .. import tu, gen

PROPERTY = "C04"
RULE = ("programs: Hypothesis builds well-typed straight-line programs (1..6 operator nodes; 1..3 named inputs of kind group / "
        "algebra / 3-vector / homogeneous 4-vector; every listed operator reachable: Exp, Log, Inv, @, Act3, Act4, Adj, AdjT, Retr, +, "
        "matrix(), Jinvp, with Euclidean glue: fixed random linear maps, algebra sums, scalings) over one group family, evaluated at a "
        "(each input independently a CONSTANT - no gradient requested - with probability 1/4), drawn point class {generic, identity/zero, tiny (each block independently 0 / eps / sqrt(eps) / 1e-20 / 1e-7..1e-3 / O(1)), large rotation}.  Oracle: 4th-order "
        "Richardson central differences (h=2^-9, 2^-10) of the SAME forward program in float64, where a group input X is perturbed as "
        "Exp_ref(+-h e_i) o X with the harness's own float64 exponential and quaternion product; all perturbations run as one batch.  "
        "Routes (drawn per case): torch.autograd.grad with basis cotangents, .backward() reading .grad, "
        "pp.optim.functional.modjac on the program wrapped as nn.Module with pp.Parameter (flatten / vectorize on, off), pp.func.jacrev "
        "and torch.func.jacrev inside pp.retain_ltype().  Assertions: |J_auto - J_num|_F <= 1e-6 (|J_num|_F + 1) (float64), the slot(s) "
        "beyond the manifold dimension of every group input exactly 0, all gradients finite; float32: same program in float32 against "
        "the float64 numerical Jacobian at the rounded point, 16 sqrt(eps32) (|J|+1).  Internal Log/Jinvp arguments are kept >= 0.3 "
        "rad from pi (forward pre-pass; discards counted); Sim3-family programs keep |ad(xi)| <= 0.2 at Exp/Log/Jinvp nodes (documented "
        "truncation <= 9e-8).  sim3_trunc: sweep |ad(xi)| in [1e-3, 2] on single sim3 Exp / Sim3 Log / Sim3 Jinvp nodes asserting "
        "error <= |ad|^6/360 + 1e-9.  Non-trivial: >= 2 distinct LieTensor operators and >= 1 group-typed input or intermediate; "
        "distinct = (sorted operator multiset, family, input kinds, point class, route, dtype).")
ASSUMPTIONS = ["group-typed values are consumed only by the listed operators (the tangent-space gradient convention is defined for those)",
               "torch.func.jacfwd on LieTensor is documented as unsupported and is not a route",
               "Jinvp is not differentiated at the zero rotation (the statement excludes it)",
               "func.jacrev / torch.func.jacrev routes: a route that raises on a composite program is recorded (label) but only wrong "
               "VALUES are violations; their restoration behaviour is C06's subject"]

FAM = {"SO3": "so3", "SE3": "se3", "RxSO3": "rxso3", "Sim3": "sim3"}
OPS = {   # name: (arg types, result type)
    "Exp": (("A",), "G"), "Log": (("G",), "A"), "Inv": (("G",), "G"), "Mul": (("G", "G"), "G"),
    "Act3": (("G", "P3"), "P3"), "Act4": (("G", "P4"), "P4"), "Adj": (("G", "A"), "A"), "AdjT": (("G", "A"), "A"),
    "Retr": (("G", "A"), "G"), "Add": (("G", "A"), "G"), "Jinvp": (("G", "A"), "A"),
    "AAdd": (("A", "A"), "A"), "AScale": (("A",), "A"), "Lin3": (("P3",), "P3"), "P2A": (("P3",), "A"), "A2P": (("A",), "P3"),
    "P3to4": (("P3",), "P4"), "P4to3": (("P4",), "P3"),
}
LIEOPS = ("Exp", "Log", "Inv", "Mul", "Act3", "Act4", "Adj", "AdjT", "Retr", "Add", "Jinvp", "matrix")
ROUTES = ("grad", "grad", "backward", "modjac", "modjac_flat", "modjac_vec", "pp_jacrev", "torch_jacrev")


def _types(case):
    ts = [i["kind"] for i in case["inputs"]]
    for nd in case["nodes"]:
        ts.append(OPS[nd["op"]][1])
    return ts


def _consts(case, glt):
    rs = np.random.RandomState(case["cseed"])
    ad = R.ADIM[FAM[glt]]
    return {"L3": rs.randn(3, 3) * 0.6, "P2A": rs.randn(ad, 3) * 0.3, "A2P": rs.randn(3, ad) * 0.7,
            "c": float(rs.uniform(-1.5, 1.5)), "pt": rs.randn(3), "w": rs.randn(1)}


def evalprog(case, vals, dtype=torch.float64):
    """vals: list of batched torch inputs (B, d) (LieTensor for G / A).  returns (B, m) tensor"""
    glt = case["ltype"]
    C = _consts(case, glt)
    env = list(vals)
    used = set()
    for nd in case["nodes"]:
        used.update(nd["args"])
        env.append(_apply(nd["op"], [env[i] for i in nd["args"]], glt, C))
    ts = _types(case)
    outs = []
    pt = torch.tensor(C["pt"], dtype=dtype)
    for i, v in enumerate(env):
        if i in used:
            continue
        t = ts[i]
        if t == "G":
            how = case["sink"]
            if how == "log":
                outs.append(v.Log().tensor())
            elif how == "matrix":
                outs.append(v.matrix().flatten(-2))
            else:
                outs.append(v.Act(pt.expand(v.shape[:-1] + (3,))))
        elif t == "A":
            outs.append(v.tensor())
        else:
            outs.append(v)
    return torch.cat(outs, -1)


def make_inputs(case, dtype, batch=None, requires_grad=False):
    """torch inputs of shape (1,d) (or perturbed batch).  batch: list of numpy arrays per input (B,d)"""
    glt = case["ltype"]
    vals = []
    for k, inp in enumerate(case["inputs"]):
        arr = np.array(inp["val"], dtype=np.float64)[None] if batch is None else batch[k]
        t = torch.tensor(arr, dtype=dtype)
        if inp["kind"] == "G":
            v = pp.LieTensor(t, ltype=tu.LT[glt])
        elif inp["kind"] == "A":
            v = pp.LieTensor(t, ltype=tu.LT[FAM[glt]])
        else:
            v = t
        if requires_grad and not inp.get("const"):
            v.requires_grad_(True)
        vals.append(v)
    return vals


def tangent_dim(case, k):
    kind = case["inputs"][k]["kind"]
    glt = case["ltype"]
    return {"G": R.MDIM[glt], "A": R.ADIM[FAM[glt]], "P3": 3, "P4": 4}[kind]


def numeric_jacobian(case, point):
    """Richardson central differences of the forward program in float64.  point: list of numpy 1-D arrays.
    returns list of (m, tangent_dim_k) arrays"""
    glt = case["ltype"]
    alt = FAM[glt]
    hs = (2.0 ** -9, 2.0 ** -10)
    rows = []      # (input k, comp i, h index, sign)
    batch = [[] for _ in point]
    for k, x in enumerate(point):
        if case["inputs"][k].get("const"):
            continue
        for i in range(tangent_dim(case, k)):
            for hi, h in enumerate(hs):
                for sg in (1.0, -1.0):
                    for kk, xx in enumerate(point):
                        if kk != k:
                            batch[kk].append(xx)
                            continue
                        if case["inputs"][k]["kind"] == "G":
                            e = np.zeros(R.ADIM[alt]); e[i] = sg * h
                            batch[kk].append(R.mul(glt, R.exp_np(alt, e), xx))
                        else:
                            y = xx.copy(); y[i] += sg * h
                            batch[kk].append(y)
                    rows.append((k, i, hi, sg))
    batch = [np.stack(b, 0) for b in batch]
    with torch.no_grad():
        out = evalprog(case, make_inputs(case, torch.float64, batch=batch)).numpy()
    m = out.shape[1]
    J = [np.zeros((m, tangent_dim(case, k))) for k in range(len(point))]
    D = {}
    for r, (k, i, hi, sg) in enumerate(rows):
        D[(k, i, hi, sg)] = out[r]
    for k in range(len(point)):
        if case["inputs"][k].get("const"):
            continue
        for i in range(tangent_dim(case, k)):
            d0 = (D[(k, i, 0, 1.0)] - D[(k, i, 0, -1.0)]) / (2 * hs[0])
            d1 = (D[(k, i, 1, 1.0)] - D[(k, i, 1, -1.0)]) / (2 * hs[1])
            J[k][:, i] = (4 * d1 - d0) / 3
    return J, out


class ProgModule(nn.Module):
    def __init__(self, case, vals):
        super().__init__()
        self.case = case
        self.consts = {k: v.detach().clone() for k, v in enumerate(vals) if case["inputs"][k].get("const")}
        self.idx = [k for k in range(len(vals)) if k not in self.consts]
        self.ps = nn.ParameterList([pp.Parameter(vals[k].detach().clone()) if isinstance(vals[k], pp.LieTensor) else nn.Parameter(vals[k].detach().clone())
                                    for k in self.idx])
        self.dtype = vals[0].dtype

    def forward(self):
        allv = [None] * (len(self.idx) + len(self.consts))
        for k, v in self.consts.items():
            allv[k] = v
        for k, p_ in zip(self.idx, self.ps):
            allv[k] = p_
        return evalprog(self.case, allv, self.dtype)[0]


def autograd_jacobian(case, point, dtype, route, rec):
    """returns list of (m, full_dim_k) numpy arrays (full_dim = storage dim of the input) or None"""
    td = tu.TD[dtype]
    pt = [np.array(gen.rnd_list(p.tolist(), dtype)) for p in point]
    batch = [p[None] for p in pt]
    diff = [k for k, i in enumerate(case["inputs"]) if not i.get("const")]
    if route in ("grad", "backward"):
        vals = make_inputs(case, td, batch=batch, requires_grad=True)
        out = evalprog(case, vals, td)[0]
        m = out.shape[0]
        Js = [np.zeros((m, v.shape[-1])) for v in vals]
        if route == "grad":
            for r in range(m):
                c = torch.zeros(m, dtype=td); c[r] = 1.0
                gs = torch.autograd.grad(out, [vals[k] for k in diff], grad_outputs=c, retain_graph=True, allow_unused=True)
                for k, g in zip(diff, gs):
                    if g is not None:           # an input the output does not depend on gets None: its Jacobian is zero
                        Js[k][r] = tu.npy(g)[0]
            return Js, None
        rs = np.random.RandomState(case["cseed"] + 1)
        c = rs.randn(m)
        out.backward(torch.tensor(c, dtype=td))
        grads = [tu.npy(v.grad)[0] if v.grad is not None else np.zeros(v.shape[-1]) for v in vals]
        return grads, c
    vals = make_inputs(case, td, batch=batch)
    if route.startswith("modjac"):
        model = ProgModule(case, vals)
        J = pp.optim.functional.modjac(model, input=None, flatten=(route == "modjac_flat"), vectorize=(route == "modjac_vec"))
        full = [None] * len(vals)
        if route == "modjac_flat":
            Jn = tu.npy(J)
            col = 0
            for k in diff:
                full[k] = Jn[:, col:col + vals[k].shape[-1]]; col += vals[k].shape[-1]
            return full, None
        J = J if isinstance(J, tuple) else (J,)
        for k, j in zip(diff, J):
            full[k] = tu.npy(j).reshape(j.shape[0], -1)
        return full, None
    f = lambda *xs: evalprog(case, list(xs), td)[0]
    argn = tuple(diff)
    if route == "pp_jacrev":
        J = pp.func.jacrev(f, argnums=argn)(*vals)
    else:
        with pp.retain_ltype():
            J = torch.func.jacrev(f, argnums=argn)(*vals)
    full = [None] * len(vals)
    for k, j in zip(diff, J):
        full[k] = tu.npy(j).reshape(j.shape[0], -1)
    return full, None


def _val_strategy(kind, glt, cls, dtype, small=None):
    alt = FAM[glt]
    # Sim3 values stay near the identity when they may reach sim3 Exp / Log / Jinvp / Retr / + (documented series truncation,
    # see _inspect); programs without those operators use O(1) Sim3 values (small=False, chosen in program())
    small = (glt == "Sim3") if small is None else small
    big_scale = small is False and glt in ("Sim3", "RxSO3")
    f = st.floats

    @st.composite
    def alg(draw):
        if cls == "identity":
            return [0.0] * R.ADIM[alt]
        if cls == "tiny":
            eps = gen.EPS["float64"]
            def blk():
                # blocks are drawn independently, so e.g. an O(1) translation meets a 1e-6 rotation
                r = draw(st.sampled_from(("zero", "eps", "sqrteps", "tiny", "small", "small", "one")))
                m = draw(f(1.0, 2.0)) * draw(st.sampled_from((1.0, -1.0)))
                return {"zero": 0.0, "eps": m * eps * 2.0 ** draw(st.integers(-3, 3)), "sqrteps": m * math.sqrt(eps) * 2.0 ** draw(st.integers(-3, 3)),
                        "tiny": m * 1e-20, "small": m * 10.0 ** draw(st.integers(-7, -3)),
                        "one": m * (0.03 if small else 0.5)}[r]
            d, _ = draw(gen.direction3()); d2, _ = draw(gen.direction3())
            tau, phi, sg = [blk() * c for c in d], [blk() * c for c in d2], blk()
        else:
            rmax = 0.06 if small else (2.5 if cls == "large" else 0.8)
            tmax = 0.06 if small else 1.5
            d, _ = draw(gen.direction3())
            th = draw(f(0.0, rmax))
            phi = [th * c for c in d]
            if not small and draw(st.integers(0, 5)) == 0:
                # a rotation vector whose norm is EXACTLY a switch-over point of the hand-written Jacobians (theta > 0.1 in calcQ,
                # theta > eps elsewhere): along a coordinate axis the norm is the component itself, so the comparison is a tie in
                # the case's dtype (0.1 rounds to the dtype exactly as the library's literal does) - seed C04h
                thv = draw(st.sampled_from((0.1, 0.1, gen.EPS[dtype])))
                ax, sg_ = draw(st.integers(0, 3)), draw(st.sampled_from((1.0, -1.0)))
                phi = [0.0, 0.0, 0.0]
                if ax < 3:
                    phi[ax] = sg_ * thv
                else:
                    phi = [sg_ * 0.6 * thv, 0.8 * thv, 0.0] if thv != 0.1 else [sg_ * 0.06, 0.08, 0.0]
            tau = [draw(f(-tmax, tmax)) for _ in range(3)]
            sg = draw(f(-0.06, 0.06)) if small else (draw(f(-1.5, 1.5)) if big_scale else draw(f(-0.3, 0.3)))
        return R.join_alg(alt, np.array(tau), np.array(phi), sg).tolist()

    @st.composite
    def val(draw):
        if kind == "A":
            return draw(alg())
        if kind == "G":
            a = np.array(draw(alg()))
            X = R.exp_np(alt, a)
            if draw(st.integers(0, 3)) == 0:          # the other quaternion of the same rotation (w < 0)
                t_, q_, s_ = R.split_group(glt, X)
                X = R.join_group(glt, t_, -np.asarray(q_), s_)
            return np.asarray(X).tolist()
        p = [draw(f(-2, 2)) for _ in range(3)]
        if kind == "P4":
            p.append(draw(st.sampled_from((0.0, 1.0, 1.0))) if draw(st.booleans()) else draw(f(-2, 2)))
        return p
    return val()


@st.composite
def program(draw, tier, single=False):
    glt = draw(st.sampled_from(R.GROUPS))
    dtype = draw(st.sampled_from(("float64", "float64", "float64", "float32")))
    cls = draw(st.sampled_from(("generic", "generic", "identity", "tiny", "large")))
    if glt == "Sim3" and cls == "large":
        cls = "generic"
    nin = draw(st.integers(1, 3))
    kinds = [draw(st.sampled_from(("G", "G", "A", "A", "P3", "P4"))) for _ in range(nin)]
    if not any(k in ("G", "A") for k in kinds):
        kinds[0] = draw(st.sampled_from(("G", "A")))
    # Sim3 / RxSO3 "big": O(1) rotation, translation and log-scale up to 1.5; for Sim3 the operators that go through the truncated
    # sim3 series (Exp, Log, Jinvp, Retr, +) and the Log sink are then left out of the program instead of shrinking the values
    big = glt in ("Sim3", "RxSO3") and cls in ("generic", "large") and draw(st.booleans())
    small = None if glt != "Sim3" else (not big)
    if glt == "RxSO3":
        small = False if big else None
    inputs = [{"kind": k, "val": draw(_val_strategy(k, glt, cls, dtype, small=small)), "const": draw(st.integers(0, 3)) == 0} for k in kinds]
    if all(i["const"] for i in inputs):          # at least one differentiable input
        inputs[draw(st.integers(0, len(inputs) - 1))]["const"] = False
    ts = list(kinds)
    nodes = []
    nn_ = 1 if single else draw(st.integers(1, 6))
    for _ in range(nn_):
        avail = [op for op, (at, rt) in OPS.items() if all(a in ts for a in at)]
        if cls in ("identity", "tiny"):
            avail = [o for o in avail if o != "Jinvp"]
        if big and glt == "Sim3":
            avail = [o for o in avail if o not in ("Exp", "Log", "Jinvp", "Retr", "Add")]
        lie = [o for o in avail if o in LIEOPS]
        op = draw(st.sampled_from(lie if (lie and draw(st.integers(0, 3)) > 0) else avail))
        args = []
        for a in OPS[op][0]:
            cands = [i for i, t in enumerate(ts) if t == a]
            # prefer recently created values (depth)
            args.append(draw(st.sampled_from(cands[-3:])))
        nodes.append({"op": op, "args": args})
        ts.append(OPS[op][1])
    return {"ltype": glt, "dtype": dtype, "cls": cls, "inputs": inputs, "nodes": nodes,
            "sink": draw(st.sampled_from(("matrix", "act") if (big and glt == "Sim3") else ("log", "matrix", "act"))), "cseed": draw(st.integers(0, 10 ** 6)),
            "route": draw(st.sampled_from(ROUTES)), "big": bool(big)}


def _inspect(case):
    """returns (ok, reason): angles at Log/Jinvp nodes and |ad| at sim3 nodes, via a float64 forward pass"""
    glt = case["ltype"]
    alt = FAM[glt]
    with torch.no_grad():
        vals = make_inputs(case, torch.float64)
        env = list(vals)
        C = _consts(case, glt)
        # replicate evalprog but look at arguments
        for nd in case["nodes"]:
            a = [env[i] for i in nd["args"]]
            op = nd["op"]
            if op in ("Log", "Jinvp"):
                Xn = tu.npy(a[0])[0]
                ang = R.quat_angle(R.split_group(glt, Xn)[1])
                if ang > math.pi - 0.3:
                    return False, "log_arg_near_pi"
                if op == "Jinvp" and ang < 1e-3:
                    return False, "jinvp_at_zero_rotation"
                if glt == "Sim3" and np.linalg.norm(R.ad(alt, R.log_np(glt, Xn)), 2) > 0.2:
                    return False, "sim3_ad>0.2"
            if op == "Exp" and glt == "Sim3":
                if np.linalg.norm(R.ad(alt, tu.npy(a[0])[0]), 2) > 0.2:
                    return False, "sim3_ad>0.2"
            if op in ("Add", "Retr") and glt == "Sim3":      # both retract through sim3 Exp (documented truncation)
                if np.linalg.norm(R.ad(alt, tu.npy(a[1])[0]), 2) > 0.2:
                    return False, "sim3_ad>0.2"
            r = _apply(op, a, glt, C)
            if not torch.isfinite(r if not isinstance(r, pp.LieTensor) else r.tensor()).all():
                return False, "forward_nonfinite"
            if float((r if not isinstance(r, pp.LieTensor) else r.tensor()).abs().max()) > 1e3:
                return False, "forward_huge"
            env.append(r)
        ts = _types(case)
        used = set(i for nd in case["nodes"] for i in nd["args"])
        for i, v in enumerate(env):
            if i not in used and ts[i] == "G" and case["sink"] == "log":
                Xn = tu.npy(v)[0]
                if R.quat_angle(R.split_group(glt, Xn)[1]) > math.pi - 0.3:
                    return False, "log_arg_near_pi"
                if glt == "Sim3" and np.linalg.norm(R.ad(alt, R.log_np(glt, Xn)), 2) > 0.2:
                    return False, "sim3_ad>0.2"
    return True, ""


def _apply(op, a, glt, C):
    alt = FAM[glt]
    dt = (a[0].tensor() if isinstance(a[0], pp.LieTensor) else a[0]).dtype
    T = lambda v: torch.tensor(v, dtype=dt)
    if op == "Exp": return a[0].Exp()
    if op == "Log": return a[0].Log()
    if op == "Inv": return a[0].Inv()
    if op == "Mul": return a[0] @ a[1]
    if op in ("Act3", "Act4"): return a[0].Act(a[1])
    if op == "Adj": return a[0].Adj(a[1])
    if op == "AdjT": return a[0].AdjT(a[1])
    if op == "Retr": return a[0].Retr(a[1])
    if op == "Add": return a[0] + a[1].tensor()
    if op == "Jinvp": return a[0].Jinvp(a[1])
    if op == "AAdd": return a[0] + a[1].tensor()
    if op == "AScale": return pp.LieTensor(a[0].tensor() * C["c"], ltype=tu.LT[alt])
    if op == "Lin3": return a[0] @ T(C["L3"]).T
    if op == "P2A": return pp.LieTensor(a[0] @ T(C["P2A"]).T, ltype=tu.LT[alt])
    if op == "A2P": return a[0].tensor() @ T(C["A2P"]).T
    if op == "P3to4": return torch.cat([a[0], a[0][..., :1] * 0.5 + 1.0], -1)
    if op == "P4to3": return a[0][..., :3] * (1.0 + a[0][..., 3:])
    raise ValueError(op)


VEC_ROUTES = ("pp_jacrev", "torch_jacrev", "modjac_vec")


def _vmap_refusal(e):
    """torch.vmap refusing an in-place / data-dependent operation inside one of pypose's autograd Functions: loud, documented as
    partially supported - not a wrong Jacobian.  Anything else a vectorised route raises is a failure like on the other routes."""
    m = str(e).lower()
    if isinstance(e, RuntimeError) and any(k in m for k in ("vmap", "batching rule", "batched", "functorch", "inplace")):
        return True
    # ... or raised from inside torch's functorch machinery, whatever the wording
    import traceback
    tb = traceback.extract_tb(e.__traceback__)
    return isinstance(e, RuntimeError) and bool(tb) and ("_functorch" in tb[-1].filename or "functorch" in tb[-1].filename)


def check_program(case, rec, tol64=1e-6, must_work=False):
    glt, dtype, route = case["ltype"], case["dtype"], case["route"]
    ok, why = _inspect(case)
    if not ok:
        rec.discard_case(why)
    point = [np.array(gen.rnd_list(i["val"], dtype), dtype=np.float64) for i in case["inputs"]]
    Jn, _ = numeric_jacobian(case, point)
    ops = sorted(set(nd["op"] for nd in case["nodes"]) | ({"matrix"} if case["sink"] == "matrix" else set()) | ({"Log"} if case["sink"] == "log" else set()))
    lieops = [o for o in ops if o in LIEOPS]
    ts = _types(case)
    rec.label(glt, dtype, "cls:" + case["cls"], "route:" + route, *["op:" + o for o in ops])
    if len(lieops) >= 2 and "G" in ts:
        rec.nt((tuple(sorted(nd["op"] for nd in case["nodes"])), glt, tuple(i["kind"] + ("c" if i.get("const") else "") for i in case["inputs"]), case["cls"], route, dtype, case["sink"]))
    if case.get("big"):
        rec.label("big:" + glt)
    try:
        with rec.sut("autograd(%s)" % route, allow=(RuntimeError,) if route in VEC_ROUTES else ()):
            Ja, cot = autograd_jacobian(case, point, dtype, route, rec)
    except RuntimeError as e:
        if must_work or not _vmap_refusal(e):
            rec.fail("route_raises:%s:%s:%s" % (route, glt, "+".join(sorted(set(nd["op"] for nd in case["nodes"])))),
                     "%s raised RuntimeError on %s program %s (sink %s): %s" % (route, glt, [n["op"] for n in case["nodes"]], case["sink"], str(e)[:300]))
            return
        rec.label("route_raised:%s:%s" % (route, type(e).__name__))
        return
    tol = tol64 if dtype == "float64" else 16 * math.sqrt(tu.EPS["float32"])
    if any(i.get("const") for i in case["inputs"]):
        rec.label("has_const_input")
    for inp in case["inputs"]:
        if inp["kind"] == "A":
            n_ = float(torch.tensor(R.split_alg(FAM[glt], np.array(inp["val"]))[1], dtype=tu.TD[dtype]).norm())
            if n_ in (float(torch.tensor(0.1, dtype=tu.TD[dtype])), tu.EPS[dtype]):
                rec.label("rotation_norm_tie:%s" % ("0.1" if n_ > 0.05 else "eps"))
    for k, inp in enumerate(case["inputs"]):
        if inp.get("const"):
            continue
        td_ = tangent_dim(case, k)
        ja = np.asarray(Ja[k], dtype=np.float64)
        if cot is not None:            # backward route: ja is c^T J of shape (full_dim,)
            want = cot @ Jn[k]
            got, extra = ja[:td_], ja[td_:]
        else:
            want = Jn[k]
            got, extra = ja[:, :td_], ja[:, td_:]
        if not rec.check(bool(np.all(np.isfinite(ja))), "nonfinite_grad:%s" % glt, lambda: "gradient w.r.t. input %d (%s) not finite via %s: %s; program %s" % (k, inp["kind"], route, ja.tolist(), [n["op"] for n in case["nodes"]])):
            continue
        if inp["kind"] == "G":
            rec.check(bool(np.all(extra == 0)), "last_slot_nonzero:%s" % glt, lambda: "group input %d: slot beyond the manifold dimension is %s (must be exactly 0), route %s" % (k, extra.tolist(), route))
        nrm = float(np.linalg.norm(want)) + 1.0
        err = float(np.linalg.norm(got - want))
        rec.notes["jac_" + dtype] = max(rec.notes.get("jac_" + dtype, 0), err / (tol * nrm))
        rec.check(err <= tol * nrm, "jacobian:%s:%s:%s" % (glt, dtype, "+".join(lieops[:3])),
                  lambda: "d(out)/d(input %d:%s) via %s differs from the numerical left-perturbation Jacobian by %.3g (|J|=%.3g); ops=%s sink=%s cls=%s"
                  % (k, inp["kind"], route, err, nrm - 1, [n["op"] for n in case["nodes"]], case["sink"], case["cls"]))


class Programs(Sub):
    name = "programs"
    n = {"quick": 2400, "thorough": 100000}
    budget_s = {"quick": 120.0, "thorough": 3000.0}

    def strategy(self, tier):
        return program(tier)

    def oracle(self, case, rec):
        check_program(case, rec)

    def simplify(self, case):
        n = len(case["nodes"])
        # drop trailing nodes; switch to the simplest route / dtype
        for k in range(n - 1, 0, -1):
            yield dict(case, nodes=case["nodes"][:k])
        if case["route"] != "grad":
            yield dict(case, route="grad")
        if case["dtype"] != "float64":
            yield dict(case, dtype="float64")

    def valid(self, case):
        glt = case["ltype"]
        for i in case["inputs"]:
            if i["kind"] == "G" and not gen.valid_group(glt, i["val"], "float64"):
                return False
        return True


class SingleOps(Sub):
    """every operator alone, every point class / dtype / route: the single-operator table"""
    name = "single_ops"
    n = {"quick": 1600, "thorough": 60000}
    budget_s = {"quick": 120.0, "thorough": 3000.0}

    def strategy(self, tier):
        return program(tier, single=True)

    def oracle(self, case, rec):
        check_program(case, rec)

    valid = Programs.valid


def canary_case(route, glt, op, sink):
    """fixed single-operator program near the identity (pure function of its arguments)"""
    rs = np.random.RandomState((sum(map(ord, route + glt + op + sink)) * 7919) % (2 ** 31))
    alt = FAM[glt]

    def val(kind):
        a = rs.uniform(-0.05, 0.05, size=R.ADIM[alt])
        if kind == "A":
            return a.tolist()
        if kind == "G":
            return np.asarray(R.exp_np(alt, a)).tolist()
        p = rs.uniform(-1, 1, size=3).tolist()
        return p + [0.7] if kind == "P4" else p
    kinds = list(OPS[op][0])
    return {"ltype": glt, "dtype": "float64", "cls": "generic", "inputs": [{"kind": k, "val": val(k), "const": False} for k in kinds],
            "nodes": [{"op": op, "args": list(range(len(kinds)))}], "sink": sink, "cseed": 3, "route": route}


# vectorised routes that torch.vmap refuses today even for a single operator (in-place arithmetic inside the Function)
CANARY_KNOWN_REFUSED = {("RxSO3", "AdjT")}


class RouteCanary(Sub):
    """the vectorised differentiation routes (modjac(vectorize=True), pp.func.jacrev, torch.func.jacrev under retain_ltype) are
    allowed to refuse composite programs loudly - but a change that makes one of them refuse (or mis-evaluate) EVERY program
    would then pass unnoticed.  This enumerates every (route, group, operator, sink) single-operator program at a fixed point:
    each must return, and return the numerical Jacobian, except the combinations listed in CANARY_KNOWN_REFUSED."""
    name = "route_canary"
    kind = "enum"
    exhaustive = True

    def cases(self, tier):
        for route in VEC_ROUTES:
            for glt in R.GROUPS:
                for op in OPS:
                    for sink in (("act",) if tier == "quick" else ("log", "matrix", "act")):
                        yield {"route": route, "ltype": glt, "op": op, "sink": sink}

    def oracle(self, case, rec):
        prog = canary_case(case["route"], case["ltype"], case["op"], case["sink"])
        known = (case["ltype"], case["op"]) in CANARY_KNOWN_REFUSED
        rec.label("canary:" + case["route"], "known_refused" if known else "must_work")
        rec.nt((case["route"], case["ltype"], case["op"], case["sink"]))
        check_program(prog, rec, must_work=not known)


class BatchMix(Sub):
    """the gradient of one batch item must not depend on what else is in the batch: a program is differentiated (autograd.grad with a
    random cotangent) on a batch of 2-3 rows that MIX point classes - the program's own point next to identity / tiny / generic /
    large points - and every row's gradient is compared with the gradient of that row evaluated alone.  pypose chooses its
    small-angle formulas in backward passes too; a guard evaluated once for the whole batch (all() / any()) is invisible when
    every case differentiates a batch of one (seed C04f).  Differential oracle (pypose against itself), float64 rows agree to
    rounding; the values themselves are judged by `programs` / `single_ops`."""
    name = "batch_mix"
    n = {"quick": 1200, "thorough": 40000}

    def strategy(self, tier):
        @st.composite
        def s(draw):
            case = draw(program(tier, single=draw(st.booleans())))
            case["nodes"] = case["nodes"][:3]
            glt, dtype = case["ltype"], case["dtype"]
            cls2 = draw(st.sampled_from(("identity", "identity", "tiny", "generic", "large")))
            if glt == "Sim3" and cls2 == "large":
                cls2 = "generic"
            if cls2 in ("identity", "tiny") and any(nd["op"] == "Jinvp" for nd in case["nodes"]):
                cls2 = "generic"                     # Jinvp is not asserted at zero rotation (see program())
            small = None if glt != "Sim3" else (not case.get("big"))
            if glt == "RxSO3":
                small = False if case.get("big") else None
            case["cls2"] = cls2
            case["inputs2"] = [draw(_val_strategy(i["kind"], glt, cls2, dtype, small=small)) for i in case["inputs"]]
            case["order"] = draw(st.sampled_from(("own_first", "other_first", "sandwich")))
            case["route"] = "grad"
            return case
        return s()

    def valid(self, case):
        glt = case["ltype"]
        for i, v2 in zip(case["inputs"], case.get("inputs2", [])):
            if i["kind"] == "G" and not (gen.valid_group(glt, i["val"], "float64") and gen.valid_group(glt, v2, "float64")):
                return False
        ts = _types(dict(case, nodes=[]))
        try:
            for nd in case["nodes"]:
                if any(a >= len(ts) for a in nd["args"]) or tuple(ts[a] for a in nd["args"]) != tuple(OPS[nd["op"]][0]):
                    return False
                ts.append(OPS[nd["op"]][1])
        except Exception:
            return False
        return len(case.get("inputs2", [])) == len(case["inputs"])

    def oracle(self, case, rec):
        glt, dtype = case["ltype"], case["dtype"]
        other = dict(case, inputs=[dict(i, val=v2) for i, v2 in zip(case["inputs"], case["inputs2"])], cls=case["cls2"])
        for c_ in (case, other):
            ok, why = _inspect(c_)
            if not ok:
                rec.discard_case(why)
        rows = {"own_first": (case, other), "other_first": (other, case), "sandwich": (other, case, other)}[case["order"]]
        td = tu.TD[dtype]
        batch = [np.stack([np.array(r["inputs"][k]["val"], dtype=np.float64) for r in rows], 0) for k in range(len(case["inputs"]))]
        B = len(rows)
        rs = np.random.RandomState(case["cseed"] + 5)
        rec.label(glt, dtype, "mix:%s+%s" % (case["cls"], case["cls2"]), "rows%d" % B, *["op:" + nd["op"] for nd in case["nodes"]])
        if case["cls"] != case["cls2"]:
            rec.nt((glt, dtype, case["cls"], case["cls2"], tuple(nd["op"] for nd in case["nodes"]), case["sink"], case["order"]))

        def grads(arrs, cot):
            vals = make_inputs(case, td, batch=arrs, requires_grad=True)
            out = evalprog(case, vals, td)
            leaves = [v for v, i in zip(vals, case["inputs"]) if not i.get("const")]
            g = torch.autograd.grad((out * torch.tensor(cot, dtype=td)).sum(), leaves, allow_unused=True)
            return tu.npy(out), [None if x is None else tu.npy(x) for x in g]
        with rec.sut("autograd.grad on a mixed batch"):
            vals0 = make_inputs(case, td, batch=batch, requires_grad=False)
            m = int(evalprog(case, vals0, td).shape[-1])
            cot = rs.randn(B, m)
            out_b, g_b = grads(batch, cot)
            singles = [grads([a[r:r + 1] for a in batch], cot[r:r + 1]) for r in range(B)]
        eps = tu.EPS[dtype]
        for r in range(B):
            out_r, g_r = singles[r]
            rec.check(bool(np.allclose(out_b[r], out_r[0], rtol=0, atol=64 * eps * (1 + float(np.abs(out_r).max())), equal_nan=True)), "batch_mix:forward:" + glt,
                      lambda: "forward value of row %d in a mixed batch differs from the value of the row alone by %.3g" % (r, float(np.abs(out_b[r] - out_r[0]).max())))
            for k, (gb, gr) in enumerate(zip(g_b, g_r)):
                if gb is None or gr is None:
                    rec.check(gb is None and gr is None, "batch_mix:unused", "input %d unused in one evaluation only" % k)
                    continue
                scale = 1.0 + float(np.abs(gr).max()) if np.all(np.isfinite(gr)) else 1.0
                err = float(np.abs(gb[r] - gr[0]).max()) if np.all(np.isfinite(gb[r])) and np.all(np.isfinite(gr)) else (0.0 if np.array_equal(np.isnan(gb[r]), np.isnan(gr[0])) else float("inf"))
                tol = (256 * eps if dtype == "float64" else 64 * eps) * scale
                rec.notes["batch_mix_" + dtype] = max(rec.notes.get("batch_mix_" + dtype, 0), err / tol)
                rec.check(err <= tol, "batch_mix:grad:%s:%s" % (glt, "+".join(sorted(set(nd["op"] for nd in case["nodes"])))[:40]),
                          lambda: "gradient w.r.t. input %d of row %d (%s point) in a batch mixed with %s point(s) differs from the gradient of the row alone by %.3g "
                          "(tol %.3g); ops %s sink %s" % (k, r, rows[r]["cls"], "/".join(sorted(set(x["cls"] for x in rows))), err, tol, [nd["op"] for nd in case["nodes"]], case["sink"]))


class Sim3Trunc(Sub):
    name = "sim3_trunc"
    n = {"quick": 800, "thorough": 20000}

    def strategy(self, tier):
        @st.composite
        def s(draw):
            which = draw(st.sampled_from(("Exp", "Log", "Jinvp")))
            na = 10 ** draw(st.floats(-3, math.log10(2.0)))
            return {"which": which, "norm": na, "seed": draw(st.integers(0, 10 ** 6))}
        return s()

    def oracle(self, case, rec):
        rs = np.random.RandomState(case["seed"])
        x = rs.randn(7)
        x[3:6] *= 1.0
        x = x / np.linalg.norm(R.ad("sim3", x), 2) * case["norm"]
        th = float(np.linalg.norm(x[3:6]))
        if th > math.pi - 0.3:
            rec.discard_case("angle_near_pi")
        which = case["which"]
        na = float(np.linalg.norm(R.ad("sim3", x), 2))
        if which == "Exp":
            prog = {"ltype": "Sim3", "dtype": "float64", "cls": "generic", "inputs": [{"kind": "A", "val": x.tolist()}],
                    "nodes": [{"op": "Exp", "args": [0]}], "sink": "matrix", "cseed": case["seed"], "route": "grad"}
        elif which == "Log":
            prog = {"ltype": "Sim3", "dtype": "float64", "cls": "generic", "inputs": [{"kind": "G", "val": R.exp_np("sim3", x).tolist()}],
                    "nodes": [], "sink": "log", "cseed": case["seed"], "route": "grad"}
        else:
            if th < 1e-3 * 0 + 1e-6:
                rec.discard_case("zero_rotation")
            prog = {"ltype": "Sim3", "dtype": "float64", "cls": "generic",
                    "inputs": [{"kind": "G", "val": R.exp_np("sim3", x).tolist()}, {"kind": "A", "val": rs.randn(7).tolist()}],
                    "nodes": [{"op": "Jinvp", "args": [0, 1]}], "sink": "log", "cseed": case["seed"], "route": "grad"}
        point = [np.array(i["val"]) for i in prog["inputs"]]
        Jn, _ = numeric_jacobian(prog, point)
        with rec.sut("sim3 " + which):
            Ja, _ = autograd_jacobian(prog, point, "float64", "grad", rec)
        rec.label(which, "decade%d" % int(math.floor(math.log10(na))))
        rec.nt((which, int(math.floor(4 * math.log10(na)))))
        for k in range(len(point)):
            td_ = tangent_dim(prog, k)
            got, want = np.asarray(Ja[k])[:, :td_], Jn[k]
            if which == "Jinvp" and k == 0:
                continue      # derivative of the truncated inverse Jacobian w.r.t. X is not covered by the documented bound
            scale = max(1.0, float(np.abs(want).max()))
            err = float(np.abs(got - want).max())
            bound = (na ** 6 / 360.0 + 1e-9) * scale
            rec.notes["trunc"] = max(rec.notes.get("trunc", 0), err / bound)
            rec.check(err <= bound and np.all(np.isfinite(got)), "sim3_trunc:" + which,
                      lambda: "sim3 %s backward: error %.3g exceeds |ad|^6/360 = %.3g at |ad| = %.3g" % (which, err, bound, na))


SUBS = [Programs(), SingleOps(), RouteCanary(), BatchMix(), Sim3Trunc()]


def selftest():
    # numerical Jacobian of a program with a known Jacobian: out = Act(X, p) -> d/dp = R, d/dX(left) = [I, -[Xp]x]
    q = np.array([0.1, -0.2, 0.3, 0.9]); q /= np.linalg.norm(q)
    X = np.concatenate([[0.5, -1.0, 2.0], q])
    p = np.array([0.3, 0.7, -1.1])
    case = {"ltype": "SE3", "dtype": "float64", "cls": "generic", "inputs": [{"kind": "G", "val": X.tolist()}, {"kind": "P3", "val": p.tolist()}],
            "nodes": [{"op": "Act3", "args": [0, 1]}], "sink": "log", "cseed": 0, "route": "grad"}
    J, _ = numeric_jacobian(case, [X, p])
    Rm = R.qrot(q)
    y = Rm @ p + X[:3]
    want = np.concatenate([np.eye(3), -R.skew(y)], 1)
    assert np.abs(J[0] - want).max() < 1e-9, np.abs(J[0] - want).max()
    assert np.abs(J[1] - Rm).max() < 1e-9
