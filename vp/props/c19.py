"""C19 - splines interpolate and are equivariant; APE/RPE are alignment-invariant; geodesic loss."""
import math
import numpy as np
import torch
import pypose as pp
from hypothesis import strategies as st

from ..core import Sub
from ..ref import lie as R
from ..ref import traj as T
from .. import tu, gen

PROPERTY = "C19"
RULE = ("chspline: N in 2..60 points of dim 1..6, batch ranks 0..2, float32/64, interval dyadic 2^-j, decimal "
        "(0.1, 0.2, ...; only values whose double is >= 1/m) or generic inside (1/m+1e-6, 1/(m-1)-1e-6), m<=130; k = exact "
        "number of multiples of the double interval in [0,1) (rational arithmetic); data = straight lines p0+i*d "
        "(integer-exact or generic, magnitudes 1e-3..1e3) or random points: shape (N-1)k+1, out[i*k]==points[i] "
        "(8 eps*max|points|), lines reproduced at all sample times i+j*h (16 eps*max|points|); side claim from the mechanism "
        "named in the property's anchors ('Hermite basis with finite-difference tangents', i.e. the symmetric three-point "
        "difference of the cited Cubic-Hermite-spline article; the docstring itself only says 'matching values and first "
        "derivatives'): with a dyadic interval the curve through "
        "the reversed sequence is the reversed curve (32 eps*max|points|).  bspline: N in 4..60 SE3 poses (the stated "
        "domain, with and without extrapolate), batch ranks 0..2, float64/32, intervals down to 1/24 (quick: one case in "
        "eight down to 1/70; thorough 1/70, one in eight 1/130); modes constant twist T0 o Exp(i xi) "
        "(|phi|<=3), random walk, independent random poses: count (N-3)k+1 without extrapolate (four consecutive poses per "
        "unit interval); with extrapolate only the documented structure m*k+1, m>=1 (how far the ends are extended is not "
        "documented; p copies of the end poses give m = N+2p-3, label extrap_layout:pad<p>); "
        "constant twist => sample (s,j) = T0 o Exp((s+1+j*h) xi) as matrices, also on the unit intervals of the "
        "extrapolated spline whose four control poses are original ones; bspline(G o X) == G o bspline(X) as "
        "matrices (skipped when a consecutive relative rotation is within 1e-3 of pi), extrapolate => first/last sample == "
        "first/last pose; rotation blocks to 64 eps (x max(1,N|phi|)/min(1,pi-|phi|) for the twist check, 256 eps/(pi-theta_max) "
        "for equivariance), translation blocks to 256 eps*scale + 6 max_j N(theta_j)|tau_j| (+ 32 eps64 N|tau| for the float64 "
        "expectation of the twist check), N(theta) = min(theta, 2 eps/theta) <= sqrt(2 eps): the translation accuracy of "
        "Exp granted by property C01 resolved in the angle ((1-cos theta)/theta^2 in closed form; pypose's se3 Exp is off by "
        "~theta*|tau| for 1e-9 < theta < 1e-6 in float64), |tau_j| <= (theta_j/2)/sin(theta_j/2) * distance of control positions j, "
        "j+1; continuity at interval 1/64: (a) the largest step over a segment boundary <= 2x the largest within-segment "
        "step (+64 eps*scale + 8 sqrt(eps)*dmax), (b) at every boundary, rotation and translation separately: the first "
        "sample of the next segment minus the cubic extrapolation of the last three samples of the segment (a third "
        "difference) <= h^3 K + rounding, K = bound on the third derivative of the segment formula from its own three "
        "twists (Leibniz rule on the docstring's cumulative basis; h^3 K is 0.04 %..10 % of one step).  metrics: float64 "
        "unit-quaternion trajectories of 3..200 poses "
        "(random walk), reference or estimate or both subsampled (both: stamps without a partner, which the threshold must "
        "reject), timestamps t0+i*dt with |jitter| < jit*diff, jit in {0.24, 0.6, 0.95}, diff <= dt/4, "
        "optional time offset; the brute-force association over all stamp pairs (|t_ref-(t_est+offset)| < diff) must be the "
        "constructed one and every decision >= 64 ulp of the stamps from the threshold (else discarded); "
        "ape/rpe x 5 etypes x {align, scale, origin} x pairing {frame, distance} x all x rpair x "
        "delta x otype; identical trajectories => every statistic <= 1e-12*scale; rpe(G o ref, est) == rpe(ref, est) == "
        "rpe(ref, G o est); ape(ref, S o est, align[,scale]) == ape(ref, est, same flags) for rigid / similarity S; every "
        "returned statistic == the documented statistic of the documented errors over the brute-force pair set (Umeyama / "
        "first-pose alignment, documented pairing; accepted readings: spectral or Frobenius matrix norm, rpe translation "
        "as |trans(Tr^-1 Te)| or as the docstring writes it, Median anywhere between the two middle samples, STD with n "
        "or n-1); a single-otype result == the entry of otype='All' (1e-12 relative) "
        "(per-error tolerance 1e-9*scale + rtol 1e-8, propagated to SSE/STD); Max>=RMSE>=Mean>=Min>=0 on every full "
        "output (requested for every case); inputs not "
        "mutated.  Distance pairings are only used when every discrete decision is >= 1e-6*scale away from a tie (when no "
        "step length gives two such pairs - mostly 3 associated poses - the case is run and counted with frame pairing, "
        "label distance->frame) and the "
        "Umeyama rotation is well determined ((d2 +- d3)/d1 >= 0.02).  geodesic: all 8x8 ltype pairs, float32/64, batch "
        "shapes, function and module, reductions; value == atan2-angle of R_x R_y^T from float64 reference matrices "
        "(32 eps (1+|phi_x|+|phi_y|)), in [0, pi], symmetric, mean/sum consistent with 'none'.  Non-trivial: chspline "
        "non-dyadic interval and N>=5; bspline N>=5 with non-identity G; metrics with noisy estimate and (different "
        "lengths with jitter, or similarity s != 1, or a rotation-type etype); geodesic with relative angle > 1e-6 and a "
        "non-SO3 argument.  distinct = (sub-check, sizes, interval class, dtype, mode / configuration tuple).")
ASSUMPTIONS = ["interval not within 1e-6 below a reciprocal 1/m (the sample count would depend on rounding)",
               "bspline constant-twist: rotation per step |phi| <= 3 < pi (Log must return the generating twist)",
               "bspline equivariance asserted only when all consecutive relative rotations stay 1e-3 away from pi "
               "(the spline is a discontinuous function of the data at the cut locus of Log)",
               "bspline: >= 4 control poses also with extrapolate=True (the library accepts fewer there; outside the stated domain)",
               "metrics: float64 poses with unit quaternions, >= 3 associated poses, >= 2 error samples, nposes left at "
               "its default, alignment well determined (non-collinear positions), distance pairing not at a tie",
               "metrics: |jitter| <= 0.95 diff and diff <= dt/4, so that 'nearest stamp' and 'any stamp within diff' select the "
               "same pairs and stamps without a partner are a whole frame away",
               "geodesic: both arguments have the same batch shape; |phi| <= 4 pi + 1 for algebra arguments"]

EPS64 = tu.EPS["float64"]


def _note(rec, key, ratio):
    if ratio == ratio:
        rec.notes[key] = max(rec.notes.get(key, 0.0), float(ratio))


def _shape_simplify(case, key="batch"):
    b = case[key]
    if b:
        yield dict(case, **{key: b[1:]})
        for i in range(len(b)):
            if b[i] > 1:
                yield dict(case, **{key: b[:i] + [1] + b[i + 1:]})


# =====================================================================================
# chspline
DECIMALS = (0.1, 0.2, 0.4, 0.05, 0.3, 0.7, 0.04, 0.9, 0.15)


@st.composite
def interval_st(draw, mmax=130):
    kind = draw(st.sampled_from(("dyadic", "decimal", "generic", "generic", "generic")))
    if kind == "dyadic":
        return {"kind": kind, "h": 2.0 ** -draw(st.integers(1, 7))}
    if kind == "decimal":
        return {"kind": kind, "h": draw(st.sampled_from(DECIMALS))}
    m = draw(st.one_of(st.integers(2, 12), st.integers(2, mmax)))
    lo, hi = 1.0 / m + 1.5e-6, (1.0 / (m - 1) if m > 2 else 1.0) - 1.5e-6
    f = draw(st.floats(0.0, 1.0))
    return {"kind": kind, "h": lo + f * (hi - lo)}


def interval_ok(h):
    """inside the domain: 0<h<1 and the count of multiples is not decided by rounding"""
    if not (0.0 < h < 1.0):
        return False
    if T.is_dyadic(h):
        return True
    if T.near_reciprocal(h):
        m = round(1.0 / h)
        from fractions import Fraction
        return Fraction(h) >= Fraction(1, m) and abs(h - 1.0 / m) < 1e-9   # a decimal literal just above 1/m
    return True


class ChSpline(Sub):
    name = "chspline"
    n = {"quick": 4000, "thorough": 80000}

    def strategy(self, tier):
        @st.composite
        def s(draw):
            N = draw(st.one_of(st.integers(2, 8), st.integers(2, 60)))
            return {"N": N, "dim": draw(st.integers(1, 6)), "batch": draw(gen.lshape(2, (1, 2, 3), 6)),
                    "dtype": draw(st.sampled_from(gen.DTYPES)), "interval": draw(interval_st()),
                    "data": draw(st.sampled_from(("line_int", "line", "line", "random"))),
                    "e0": draw(st.integers(-3, 3)), "e1": draw(st.integers(-3, 3)),
                    "seed": draw(st.integers(0, 2 ** 31 - 1))}
        return s()

    def valid(self, case):
        return interval_ok(case["interval"]["h"]) and case["N"] >= 2 and 1 <= case["dim"] <= 6

    def oracle(self, case, rec):
        N, D, batch, dtype = case["N"], case["dim"], list(case["batch"]), case["dtype"]
        h = float(case["interval"]["h"])
        if not interval_ok(h):
            rec.discard_case("interval outside the domain")
        k = T.multiples_in_unit(h)
        eps = tu.EPS[dtype]
        rs = np.random.RandomState(case["seed"])
        nb = int(np.prod(batch)) if batch else 1
        kind = case["data"]
        if kind == "line_int":      # exactly representable, exactly uniform samples
            p0 = rs.randint(-1000, 1001, size=(nb, 1, D)).astype(float) * 2.0 ** case["e0"]
            d = rs.randint(-50, 51, size=(nb, 1, D)).astype(float) * 2.0 ** case["e0"]
            pts = p0 + np.arange(N)[None, :, None] * d
        elif kind == "line":
            p0 = rs.randn(nb, 1, D) * 10.0 ** case["e0"]
            d = rs.randn(nb, 1, D) * 10.0 ** case["e1"]
            pts = p0 + np.arange(N)[None, :, None] * d
        else:
            pts = rs.randn(nb, N, D) * 10.0 ** case["e0"]
            p0 = d = None
        x = torch.tensor(pts.reshape(batch + [N, D]), dtype=tu.TD[dtype])
        x0 = x.clone()
        with rec.sut("chspline"):
            out = pp.chspline(x, h)
        dy = T.is_dyadic(h)
        rec.label(kind, case["interval"]["kind"], dtype, "rank%d" % len(batch), "N>=5" if N >= 5 else "N<5")
        if (not dy) and N >= 5:
            rec.nt(("ch", N, k, D, len(batch), dtype, kind, case["interval"]["kind"]))
        rec.check(torch.equal(x, x0), "chspline:mutates_input", "chspline changed its input tensor")
        want_shape = tuple(batch) + ((N - 1) * k + 1, D)
        if not rec.check(tuple(out.shape) == want_shape, "chspline:count",
                         "N=%d interval=%r (k=%d multiples in [0,1)): output shape %s, expected %s"
                         % (N, h, k, tuple(out.shape), want_shape)):
            return
        o = tu.npy(out).reshape(nb, (N - 1) * k + 1, D)
        if not rec.check(bool(np.all(np.isfinite(o))), "chspline:nonfinite", "non-finite output"):
            return
        P = tu.npy(x).reshape(nb, N, D)             # the points actually passed (rounded to dtype)
        # time-reversal (side claim, see RULE): for an exactly symmetric sample grid (dyadic interval) the curve
        # through the reversed sequence is the reversed curve
        if dy:
            with rec.sut("chspline(reversed)"):
                orev = pp.chspline(torch.flip(x, dims=[-2]), h)
            if rec.check(tuple(orev.shape) == want_shape, "chspline:count", "reversed input gives shape %s" % (tuple(orev.shape),)):
                orv = tu.npy(torch.flip(orev, dims=[-2])).reshape(nb, (N - 1) * k + 1, D)
                for b in range(nb):
                    sc = max(float(np.abs(P[b]).max()), 1e-300)
                    err = float(np.abs(orv[b] - o[b]).max())
                    _note(rec, "reversal/tol", err / (32 * eps * sc))
                    if not rec.check(err <= 32 * eps * sc, "chspline:reversal:" + dtype,
                                     "N=%d dim=%d interval=%r: chspline(reversed points) is not the reversed curve, max "
                                     "difference %.3g (tol %.3g)" % (N, D, h, err, 32 * eps * sc)):
                        break
        times = (np.arange(N)[:, None] + np.arange(k)[None, :] * h).reshape(-1)[:(N - 1) * k + 1]
        for b in range(nb):
            sc = max(float(np.abs(P[b]).max()), 1e-300)
            err = float(np.abs(o[b, ::k] - P[b]).max())
            _note(rec, "knot/tol", err / (8 * eps * sc))
            if not rec.check(err <= 8 * eps * sc, "chspline:knots:" + dtype,
                             "N=%d dim=%d interval=%r: out[i*k] differs from points[i] by %.3g (tol %.3g)"
                             % (N, D, h, err, 8 * eps * sc)):
                return
            if d is not None:
                # the line through the given samples: first point + t * mean increment (== p0 + t d up to rounding)
                exp = p0[b] + times[:, None] * d[b]
                err = float(np.abs(o[b] - exp).max())
                _note(rec, "line/tol", err / (16 * eps * sc))
                if not rec.check(err <= 16 * eps * sc, "chspline:line:" + dtype,
                                 "N=%d dim=%d interval=%r: straight line not reproduced, max deviation %.3g at sample %d "
                                 "(tol %.3g)" % (N, D, h, err, int(np.abs(o[b] - exp).max(1).argmax()), 16 * eps * sc)):
                    return

    def simplify(self, case):
        for Nn in sorted({2, 3, 5, case["N"] // 2, case["N"] - 1}):
            if 2 <= Nn < case["N"]:
                yield dict(case, N=Nn)
        if case["dim"] > 1:
            yield dict(case, dim=1)
        yield from _shape_simplify(case)
        if case["dtype"] != "float64":
            yield dict(case, dtype="float64")
        for hh in (0.5, 0.25, 0.3):
            if case["interval"]["h"] != hh:
                yield dict(case, interval={"kind": "dyadic" if T.is_dyadic(hh) else "decimal", "h": hh})
        if case["data"] != "line_int":
            yield dict(case, data="line_int", e0=0)
        if case["seed"]:
            yield dict(case, seed=0)


# =====================================================================================
# bspline
def _se3_tensor(arr, dtype):
    return pp.SE3(torch.tensor(arr, dtype=tu.TD[dtype]))


def _build_poses(case, rs):
    """-> array (nb, N, 7) float64, per-batch twists (or None), theta_max"""
    N, mode = case["N"], case["mode"]
    batch = list(case["batch"])
    nb = int(np.prod(batch)) if batch else 1
    tmag, taumag, ang = 10.0 ** case["et"], 10.0 ** case["etau"], case["ang"]
    data = np.zeros((nb, N, 7))
    twists, T0s = [], []
    for b in range(nb):
        T0 = T.rand_pose(rs, tmag)
        T0s.append(T0)
        if mode == "twist":
            xi = T.rand_twist(rs, taumag, ang)
            twists.append(xi)
            for i in range(N):
                data[b, i] = R.mul("SE3", T0, R.exp_np("se3", i * xi))
        elif mode == "walk":
            cur = T0
            for i in range(N):
                data[b, i] = cur
                cur = R.mul("SE3", cur, R.exp_np("se3", T.rand_twist(rs, taumag, ang * rs.uniform(0.0, 1.0))))
        else:
            for i in range(N):
                data[b, i] = T.rand_pose(rs, tmag)
    return data, (twists if mode == "twist" else None), T0s


class BSpline(Sub):
    name = "bspline"
    n = {"quick": 2400, "thorough": 40000}

    def strategy(self, tier):
        @st.composite
        def s(draw):
            # the property quantifies bspline over >= 4 control poses (with or without extrapolate)
            N = draw(st.one_of(st.integers(4, 8), st.integers(4, 24), st.integers(4, 60)))
            batch = draw(gen.lshape(2, (1, 2, 3), 4))
            if N > 24 and batch:
                batch = batch[:1]
            # intervals down to 1/70 (quick: one case in eight) / 1/130 (thorough: one in eight); the rest stays
            # coarse because the cost of a case is proportional to the number of samples
            mmax = draw(st.sampled_from((24,) * 7 + (70,) if tier == "quick" else (70,) * 7 + (130,)))
            return {"N": N, "batch": batch, "dtype": draw(st.sampled_from(("float64", "float64", "float32"))),
                    "interval": draw(interval_st(mmax=mmax)),
                    "mode": draw(st.sampled_from(("twist", "twist", "walk", "walk", "free"))),
                    "et": draw(st.integers(-2, 2)), "etau": draw(st.integers(-2, 1)),
                    "ang": draw(st.one_of(st.floats(0.0, 3.0), st.sampled_from((0.0, 1e-9, 1e-4, 3.0)))),
                    "Gid": draw(st.sampled_from((False, False, False, True))),
                    "seed": draw(st.integers(0, 2 ** 31 - 1))}
        return s()

    def valid(self, case):
        return interval_ok(case["interval"]["h"]) and case["N"] >= 4 and 0.0 <= case["ang"] <= 3.0

    def oracle(self, case, rec):
        N, batch, dtype, mode = case["N"], list(case["batch"]), case["dtype"], case["mode"]
        h = float(case["interval"]["h"])
        if not interval_ok(h):
            rec.discard_case("interval outside the domain")
        k = T.multiples_in_unit(h)
        eps = tu.EPS[dtype]
        rs = np.random.RandomState(case["seed"])
        data, twists, T0s = _build_poses(case, rs)
        nb = data.shape[0]
        G = R.identity("SE3") if case["Gid"] else T.rand_pose(rs, 10.0 ** case["et"])
        X = _se3_tensor(data.reshape(batch + [N, 7]), dtype)
        X0 = X.tensor().clone()
        Gt = _se3_tensor(G, dtype)
        Xn = tu.npy(X).reshape(nb, N, 7)             # what is actually passed
        MX = T.mats_v(Xn)
        MG = R.mat4("SE3", tu.npy(Gt))
        th_rel, d_rel = T.rel_geometry(MX)           # (nb, N-1): angle / distance between consecutive control poses
        thmax = float(th_rel.max())
        rec.label(mode, dtype, case["interval"]["kind"], "rank%d" % len(batch), "N>=5" if N >= 5 else "N=4",
                  "h<1/24" if h < 1.0 / 24 else "h>=1/24")
        if N >= 5 and not case["Gid"]:
            rec.nt(("bs", mode, N, k, tuple(batch), dtype, T.is_dyadic(h)))
        tsc = max(1.0, float(np.abs(MX).max()), float(np.abs(MG).max()))

        def run(Xin, hh, extr, what):
            with rec.sut(what):
                o = pp.bspline(Xin, hh, extr)
            if not rec.check(isinstance(o, pp.LieTensor) and o.ltype == pp.SE3_type, "bspline:type",
                             "%s did not return an SE3 LieTensor" % what):
                return None
            return o

        def as_mats(o, cnt):
            return T.mats_v(tu.npy(o).reshape(nb, cnt, 7))

        def layout(cnt, kk):
            """(number of segments, copies p of the end poses) of an extrapolated output with cnt samples, or None.
            The docstring fixes kk samples per unit interval plus the final pose but not how the ends are extended;
            p copies at each end give N + 2p - 3 segments (the implementation uses p = 2)."""
            if cnt < kk + 1 or (cnt - 1) % kk:
                return None
            nseg = (cnt - 1) // kk
            p2 = nseg - (N - 3)
            return (nseg, p2 // 2) if (p2 >= 0 and p2 % 2 == 0) else (nseg, None)

        outs = {}
        for extr in (False, True):
            o = run(X, h, extr, "bspline(extrapolate=%s)" % extr)
            if o is None:
                return
            if not extr:        # four consecutive poses per unit interval (docstring): N-3 intervals of k samples + the end
                cnt = (N - 3) * k + 1
                want = tuple(batch) + (cnt, 7)
                ok = rec.check(tuple(o.shape) == want, "bspline:count:extrapolate=False",
                               "N=%d interval=%r (k=%d) extrapolate=False: shape %s, expected %s"
                               % (N, h, k, tuple(o.shape), want))
            else:               # only the structure is documented: whole unit intervals of k samples + the end pose
                cnt = int(o.shape[-2]) if o.dim() >= 2 else -1
                lay = layout(cnt, k)
                ok = rec.check(tuple(o.shape) == tuple(batch) + (cnt, 7) and lay is not None,
                               "bspline:count:extrapolate=True",
                               "N=%d interval=%r (k=%d) extrapolate=True: shape %s is not batch + (m*k+1, 7) with m >= 1"
                               % (N, h, k, tuple(o.shape)))
                if ok:
                    rec.label("extrap_layout:" + ("pad%d" % lay[1] if lay[1] is not None else "other"))
            if not ok:
                return
            M = as_mats(o, cnt)
            if not rec.check(bool(np.all(np.isfinite(M))), "bspline:nonfinite", "non-finite output"):
                return
            outs[extr] = (o, M, cnt)
        rec.check(torch.equal(X.tensor(), X0), "bspline:mutates_input", "bspline changed its input")

        # tolerances: rotation blocks at eps level.  Translation blocks: eps * scale for the products, plus the
        # accuracy of Exp on the (scaled) relative twists - property C01 grants sqrt(eps) |tau|; resolved in the
        # rotation angle (T.exp_translation_noise: min(theta, 2 eps/theta) |tau|, at most sqrt(2 eps) |tau|) so that the
        # bound is eps-sized for ordinary angles and a sample that sits one interval too early or late is not absorbed.
        # Every sample is a product of three such factors (weights <= 1) of the three twists of its segment; |tau| <=
        # (theta/2)/sin(theta/2) * distance of the two control positions.  Factor 2 for the Log that produced the twist.
        tau_rel = T.twist_norm_bound(th_rel, d_rel)
        exp_noise = T.exp_translation_noise(th_rel, eps) * tau_rel          # (nb, N-1)
        dmax = float(d_rel.max())
        tr_tol = 256 * eps * tsc + 6 * float(exp_noise.max())

        def pose_err(A, B, rot_tol, tscale=1.0, textra=0.0):
            """worst (error / tolerance) over rotation and translation blocks, and its location"""
            A, B = A.reshape(-1, 4, 4), B.reshape(-1, 4, 4)
            er = np.abs(A[:, :3, :3] - B[:, :3, :3]).reshape(len(A), 9).max(1) / rot_tol
            et = np.abs(A[:, :3, 3] - B[:, :3, 3]).max(1) / (tr_tol * tscale + textra)
            e = np.maximum(er, et)
            i = int(e.argmax())
            _note(rec, "translation_err/tol:" + dtype, float(et.max()))
            return float(e[i]), i, ("rotation" if er[i] >= et[i] else "translation")

        # --- extrapolate: passes through the first and the last pose ---------------------------
        _, Me, cnte = outs[True]
        r, i, blk = pose_err(Me[:, [0, -1]], MX[:, [0, -1]], 64 * eps)
        _note(rec, "extrap/tol:" + dtype, r)
        rec.check(r <= 1.0, "bspline:extrapolate_ends:" + dtype,
                  "N=%d interval=%r: extrapolated spline misses the %s pose (%s block, error/tolerance %.3g)"
                  % (N, h, "last" if i % 2 else "first", blk, r))

        # --- constant twist: right pose at the right time ------------------------------------------
        if mode == "twist":
            _, M, cnt = outs[False]
            tt = np.array([(s + 1 + j * h) for s in range(N - 3) for j in range(k)] + [float(N - 2)])
            E = np.stack([MX[b, 0] @ T.exp_se3_line(tt, twists[b]) for b in range(nb)], 0)
            rot_tol = 64 * eps * max(1.0, N * case["ang"]) / min(1.0, math.pi - case["ang"])
            # float64 expectation and float64 construction of the control poses: the angle a = t*theta of Exp(t xi) is
            # rounded (<= 2 eps a) and |dp/da| <= 2 |tau|/theta, i.e. 4 eps t |tau| on either side (the counterpart of the
            # factor N*ang in the rotation tolerance)
            ref_acc = 32 * EPS64 * N * float(tau_rel.max())
            r, i, blk = pose_err(M, E, rot_tol, textra=ref_acc)
            _note(rec, "twist/tol:" + dtype, r)
            rec.check(r <= 1.0, "bspline:const_twist:" + dtype,
                      lambda: "N=%d interval=%r: sample %d (time %.6g) deviates from T0 Exp(t xi) in its %s block "
                      "(error/tolerance %.3g)" % (N, h, i % cnt, float(tt[i % cnt]), blk, r))
            # the same motion inside the extrapolated spline: the unit intervals whose four control poses are all
            # original ones (p copies of the end poses: segments p .. N+p-4, first sample of segment N+p-3) carry the
            # times 1 .. N-2 as above
            p = layout(cnte, k)[1]
            if p is not None and (N + p - 3) * k < cnte:
                r, i, blk = pose_err(Me[:, p * k:(N + p - 3) * k + 1], E, rot_tol, textra=ref_acc)
                _note(rec, "twist_extrap/tol:" + dtype, r)
                rec.label("twist_on_extrapolated")
                rec.check(r <= 1.0, "bspline:const_twist_extrapolated:" + dtype,
                          lambda: "N=%d interval=%r extrapolate=True: sample %d (time %.6g) deviates from T0 Exp(t xi) in "
                          "its %s block (error/tolerance %.3g)" % (N, h, p * k + i % cnt, float(tt[i % cnt]), blk, r))

        # --- left equivariance ---------------------------------------------------------------------
        extr = bool(case["seed"] & 1)
        _, M, cnt = outs[extr]
        if math.pi - thmax < 1e-3:
            rec.label("equiv_skipped_cut")
        else:
            with rec.sut("G @ data"):
                GX = Gt @ X
            og = run(GX, h, extr, "bspline(G@data)")
            if og is None:
                return
            if rec.check(tuple(og.shape) == tuple(outs[extr][0].shape), "bspline:count:equiv", "shape differs for G@data"):
                Mg = as_mats(og, cnt)
                want = np.einsum("ij,bnjk->bnik", MG, M)
                sc = max(tsc, float(np.abs(want).max())) / tsc
                r, i, blk = pose_err(Mg, want, 256 * eps / (math.pi - thmax), sc / (math.pi - thmax))
                _note(rec, "equiv/tol:" + dtype, r)
                rec.check(r <= 1.0, "bspline:equivariance:" + dtype,
                          "N=%d interval=%r extrapolate=%s: bspline(G@X) differs from G@bspline(X) at sample %d (%s block, "
                          "error/tolerance %.3g)" % (N, h, extr, i % cnt, blk, r))

        # --- continuity across segment boundaries (interval 1/64) -----------------------------------
        extr = (N == 4) or bool(case["seed"] & 2)          # four poses without extrapolation are a single segment
        oc = run(X, 1.0 / 64, extr, "bspline(1/64)")
        if oc is None:
            return
        cntc = int(oc.shape[-2])
        if extr:
            lay = layout(cntc, 64)
            if not rec.check(lay is not None, "bspline:count:1/64", "interval 1/64, extrapolate=True: %d samples" % cntc):
                return
            nseg, p = lay
        else:
            nseg, p = N - 3, 0
            if not rec.check(cntc == nseg * 64 + 1, "bspline:count:1/64", "interval 1/64: %d samples" % cntc):
                return
        Mc = as_mats(oc, cntc)
        if nseg < 2:
            return
        # (a) global: no step over a segment boundary exceeds twice the largest step inside a segment
        jumps = np.abs(Mc[:, 1:] - Mc[:, :-1]).reshape(nb, nseg * 64, 16).max(-1)
        idx = np.arange(nseg * 64)
        bnd = (idx % 64 == 63) & (idx < nseg * 64 - 1)     # last sample of a segment -> first of the next
        for b in range(nb):
            jb, jw = float(jumps[b, bnd].max()), float(jumps[b, ~bnd].max())
            lim = 2 * jw + 64 * eps * tsc + 8 * math.sqrt(eps) * dmax
            _note(rec, "boundary_jump/limit(=2x within)", jb / lim if lim > 0 else 0.0)
            if not rec.check(jb <= lim, "bspline:continuity:" + dtype,
                             "N=%d extrapolate=%s: jump %.3g across a segment boundary, largest within-segment jump %.3g"
                             % (N, extr, jb, jw)):
                break
        # (b) local, rotation and translation separately: continuity at the boundary means that the first sample x2 of
        # segment s+1 is the value at u = 1 of the smooth formula of segment s, whose last three samples are x_-1, x0,
        # x1 (u = 61/64, 62/64, 63/64); a third difference of a C^3 function f is bounded by h^3 max|f(3)|:
        #     | x2 - 3 x1 + 3 x0 - x_-1 |  <=  h^3 K(segment s)  + rounding of the four samples
        # with K from the twists of that segment alone (T.bspline_third_derivative_bounds); h^3 K is 0.04 % .. 10 % of one
        # step, so a break of a fraction of a step at one boundary is visible whatever happens elsewhere on the curve
        # and however large the positions are.
        if p is None:
            rec.label("continuity_local_skipped:layout")
            return
        z = np.zeros((nb, p))
        thp = np.concatenate([z, th_rel, z], 1)               # twists of the extended pose sequence: (nb, nseg + 2)
        taup = np.concatenate([z, tau_rel, z], 1)
        noip = np.concatenate([z, exp_noise, z], 1)
        win = lambda a: np.maximum(np.maximum(a[:, :-2], a[:, 1:-1]), a[:, 2:])[:, :nseg - 1]   # twists s, s+1, s+2
        k_rot, k_tr = T.bspline_third_derivative_bounds(win(thp), win(taup))
        bi = 64 * np.arange(1, nseg)
        D3 = Mc[:, bi] - 3.0 * Mc[:, bi - 1] + 3.0 * Mc[:, bi - 2] - Mc[:, bi - 3]            # (nb, nseg-1, 4, 4)
        d3r = np.linalg.norm(D3[..., :3, :3], ord=2, axis=(-2, -1))
        d3t = np.linalg.norm(D3[..., :3, 3], axis=-1)
        h3 = 64.0 ** -3
        # rounding: 8 = |1|+|3|+|3|+|1| times the per-sample error (32 eps rotation; 32 eps*scale + the three Exp
        # factors for the translation), plus Exp(Log(T_s^-1 T_s+1)) != T_s^-1 T_s+1 at the boundary itself
        lim_r = h3 * k_rot + 256 * eps
        lim_t = h3 * k_tr + 256 * eps * tsc + 25 * win(noip)
        rr, rt = d3r / lim_r, d3t / lim_t
        _note(rec, "c0_rotation/limit:" + dtype, float(rr.max()))
        _note(rec, "c0_translation/limit:" + dtype, float(rt.max()))
        rec.label("continuity_local")
        if rr.max() > 1.0:
            b, s_ = np.unravel_index(int(rr.argmax()), rr.shape)
            rec.fail("bspline:continuity_rotation:" + dtype,
                     "N=%d extrapolate=%s: at the boundary of segments %d|%d the rotation of the first sample of the next "
                     "segment is %.3g away from the cubic extrapolation of the last three samples (limit %.3g: h^3 K = %.3g)"
                     % (N, extr, s_, s_ + 1, d3r[b, s_], lim_r[b, s_], h3 * k_rot[b, s_]))
        if rt.max() > 1.0:
            b, s_ = np.unravel_index(int(rt.argmax()), rt.shape)
            rec.fail("bspline:continuity_translation:" + dtype,
                     "N=%d extrapolate=%s: at the boundary of segments %d|%d the position of the first sample of the next "
                     "segment is %.3g away from the cubic extrapolation of the last three samples (limit %.3g: h^3 K = %.3g)"
                     % (N, extr, s_, s_ + 1, d3t[b, s_], lim_t[b, s_], h3 * k_tr[b, s_]))

    def simplify(self, case):
        for Nn in sorted({4, 5, 6, case["N"] // 2, case["N"] - 1}):
            if 4 <= Nn < case["N"]:
                yield dict(case, N=Nn)
        yield from _shape_simplify(case)
        if case["dtype"] != "float64":
            yield dict(case, dtype="float64")
        for hh in (0.5, 0.25, 0.3):
            if case["interval"]["h"] != hh:
                yield dict(case, interval={"kind": "dyadic" if T.is_dyadic(hh) else "decimal", "h": hh})
        if not case["Gid"]:
            yield dict(case, Gid=True)
        for key in ("et", "etau"):
            if case[key] != 0:
                yield dict(case, **{key: 0})
        if case["seed"] > 3:
            yield dict(case, seed=case["seed"] & 3)


# =====================================================================================
# metrics
ETYPES = ("translation", "rotation", "pose", "radian", "degree")
OTYPES = ("Max", "Min", "Mean", "Median", "RMSE", "SSE", "STD")
ROT_E = ("rotation", "radian", "degree")


def _stats_dict(res, otype):
    """-> {name: float} or None when the output has not the documented form"""
    if otype == "All":
        if not isinstance(res, dict):
            return None
        try:
            return {k: float(v) for k, v in res.items()}
        except Exception:
            return None
    if isinstance(res, torch.Tensor) and res.numel() == 1:
        return {otype: float(res)}
    return None


def _build_traj(case, attempt):
    """pure function of the case: reference / estimate pose arrays, stamps, correspondences"""
    rs = np.random.RandomState((case["seed"] + 7919 * attempt) % (2 ** 31))
    n = case["n"]
    step = 10.0 ** case["estep"]
    cur = T.rand_pose(rs, step * 10 * rs.uniform(0, 1))
    heading = rs.randn(3)
    heading /= np.linalg.norm(heading)
    full = np.zeros((n, 7))
    for i in range(n):
        full[i] = cur
        tau = step * (heading + 0.7 * rs.randn(3)) * rs.uniform(0.7, 1.3)
        cur = R.mul("SE3", cur, R.exp_np("se3", np.concatenate([tau, 0.35 * rs.randn(3)])))
    # estimate of the full sequence
    ident = case["noise"] == "identical"
    if ident:
        est_full = full.copy()
    else:
        nt, nr = {"small": (1e-3, 1e-3), "mid": (0.05, 0.05), "large": (0.3, 0.5)}[case["noise"]]
        D = R.identity("SE3") if case["disp"] == "none" else T.rand_pose(rs, step * 5)
        sD = 1.0 if case["disp"] != "sim" else float(np.exp(rs.uniform(-1.0, 1.0)))
        est_full = T.sim_apply(sD, D, full)
        for i in range(n):
            nz = np.concatenate([step * sD * nt * rs.randn(3), nr * rs.randn(3)])
            est_full[i] = R.mul("SE3", est_full[i], R.exp_np("se3", nz))
    # subsampling
    sub = case["sub"]
    if sub == "both" and n > 3 and case["stamps"] != "none":
        # both trajectories lose frames independently: stamps of either one without a partner in the other, which the
        # association threshold has to reject (the nearest stamp of the other trajectory is a whole frame away)
        both = rs.choice(n, 3, replace=False)
        kr, ke = rs.uniform(size=n) < case["keep"], rs.uniform(size=n) < (case["keep"] + 1.0) / 2
        kr[both] = ke[both] = True
        ridx, eidx = np.nonzero(kr)[0], np.nonzero(ke)[0]
    else:
        if sub in ("same", "both") or n == 3:
            idx = np.arange(n)
        elif sub == "prefix":
            idx = np.arange(max(3, int(round(n * case["keep"]))))
        else:
            keep = rs.uniform(size=n) < case["keep"]
            keep[rs.choice(n, 3, replace=False)] = True
            idx = np.nonzero(keep)[0]
        if case["which"] == "ref" and case["stamps"] != "none":
            ridx, eidx = idx, np.arange(n)
        else:
            ridx, eidx = np.arange(n), idx
    ref, est = full[ridx], est_full[eidx]
    # correspondences (positions in the passed arrays)
    if case["stamps"] == "none":
        m = min(len(ridx), len(eidx))
        corr = [(j, j) for j in range(m)]
        rstamp = estamp = None
        diff = 0.01
    else:
        common = sorted(set(ridx.tolist()) & set(eidx.tolist()))
        rpos = {v: j for j, v in enumerate(ridx.tolist())}
        epos = {v: j for j, v in enumerate(eidx.tolist())}
        corr = [(rpos[v], epos[v]) for v in common]
        dt, diff = case["dt"], case["dt"] * case["diff_frac"]
        ts = case["t0"] + dt * np.arange(n)
        rstamp = ts[ridx]
        # jitter below the association threshold: |jitter| < jit * diff, jit up to 0.95
        estamp = ts[eidx] + case.get("jit", 0.24) * diff * rs.uniform(-1, 1, size=len(eidx)) - case["offset"]
    return {"ref": ref, "est": est, "rstamp": rstamp, "estamp": estamp, "corr": corr, "diff": diff,
            "rs": rs, "step": step, "ident": ident}


class Metrics(Sub):
    name = "metrics"
    n = {"quick": 3200, "thorough": 50000}

    def strategy(self, tier):
        nmax = 200

        @st.composite
        def s(draw):
            if tier == "quick":
                n = draw(st.one_of(st.integers(3, 12), st.integers(3, 40), st.integers(3, 40), st.integers(3, 40),
                                   st.integers(41, nmax)))
            else:
                n = draw(st.one_of(st.integers(3, 12), st.integers(3, 40), st.integers(3, nmax), st.integers(41, nmax)))
            metric = draw(st.sampled_from(("ape", "rpe")))
            stamps = draw(st.sampled_from(("real", "real", "real", "none")))
            c = {"n": n, "metric": metric, "seed": draw(st.integers(0, 2 ** 31 - 1)),
                 "estep": draw(st.integers(-2, 2)), "stamps": stamps,
                 "sub": draw(st.sampled_from(("same", "random", "random", "prefix", "both", "both") if stamps == "real"
                                             else ("same", "prefix"))),
                 "keep": draw(st.sampled_from((0.5, 0.8, 0.3))), "which": draw(st.sampled_from(("est", "est", "ref"))),
                 "jit": draw(st.sampled_from((0.24, 0.6, 0.95, 0.95))),
                 "t0": draw(st.sampled_from((0.0, 17.25, 1311868163.87))), "dt": draw(st.sampled_from((0.1, 1.0, 0.0333))),
                 "diff_frac": draw(st.sampled_from((0.1, 0.25, 0.01))),
                 "offset": draw(st.sampled_from((0.0,) * 11 + (0.5, -1.25))) if stamps == "real" else 0.0,
                 "noise": draw(st.sampled_from(("identical", "small", "mid", "mid", "large"))),
                 "disp": draw(st.sampled_from(("none", "rigid", "sim"))),
                 "etype": draw(st.sampled_from(ETYPES)),
                 "align": draw(st.booleans()), "scale": draw(st.booleans()), "origin": draw(st.booleans()),
                 "otype": draw(st.sampled_from(("All", "All", "All") + OTYPES)),
                 "tkind": draw(st.sampled_from(("rigid", "sim"))), "tes": draw(st.integers(-1, 2)),
                 "slog": draw(st.floats(-1.6, 1.6))}
            if metric == "rpe":
                c.update(associate=draw(st.sampled_from(("frame", "frame", "distance"))), all=draw(st.booleans()),
                         rpair=draw(st.booleans()), dfrac=draw(st.floats(0.0, 1.0)),
                         rtol=draw(st.sampled_from((0.1, 0.3))))
            return c
        return s()

    # ---------------------------------------------------------------------------------------
    def oracle(self, case, rec):
        metric, etype, otype = case["metric"], case["etype"], case["otype"]
        align, scale, origin = case["align"], case["scale"], case["origin"]
        for attempt in range(12):
            tr = _build_traj(case, attempt)
            corr = tr["corr"]
            rp = tr["ref"][[a for a, _ in corr], :3]
            ep = tr["est"][[b for _, b in corr], :3]
            if len(corr) >= 3 and T.align_margin(ep, rp) >= 0.02 and T.align_margin(rp, rp) >= 0.02 \
                    and T.align_margin(ep, ep) >= 0.02:
                break
        else:
            rec.discard_case("no well-conditioned trajectory")
        rs, ref, est, M = tr["rs"], tr["ref"], tr["est"], len(corr)
        ident = tr["ident"]
        ref_m, est_m = ref[[a for a, _ in corr]], est[[b for _, b in corr]]
        # brute-force association over all stamp pairs (documented rule: |t_ref - (t_est + offset)| < diff); it must give
        # the constructed correspondences, with every decision clear of the threshold by more than the rounding of
        # the stamps (the library may add the offset to either side)
        rejects = False
        if tr["rstamp"] is not None:
            bf, amargin, uniq = T.associate(tr["rstamp"], tr["estamp"], tr["diff"], case["offset"])
            ulp = float(np.spacing(max(float(np.abs(tr["rstamp"]).max()), float(np.abs(tr["estamp"]).max())) + abs(case["offset"])))
            if amargin < 64 * ulp:
                rec.discard_case("association decision within rounding of the threshold")
            assert uniq and bf == corr, "generator: brute-force association differs from the constructed correspondences"
            rejects = M < min(len(ref), len(est))       # stamps of the shorter trajectory without a partner

        # fixed transforms
        tmag = tr["step"] * 10.0 ** case["tes"]
        G = T.rand_pose(rs, tmag)
        s_t = float(np.exp(case["slog"])) if (case["tkind"] == "sim" and scale and metric == "ape") else 1.0
        s_al = T.umeyama(ep, rp, True)[0] if scale else 1.0        # scale the alignment applies to the estimate

        # pairing (rpe): make sure there are >= 2 error samples and no decision at a tie
        kw = {"etype": etype, "align": align, "scale": scale, "origin": origin, "otype": otype}
        if tr["rstamp"] is not None:
            kw["diff"] = tr["diff"]
            if case["offset"] != 0.0:
                kw["offset"] = case["offset"]
        pos_scale = max(1.0, float(np.abs(ref[:, :3]).max()), float(np.abs(est[:, :3]).max()) * max(1.0, s_al))
        if metric == "rpe":
            assoc, allp, rpair = case["associate"], case["all"], case["rpair"]
            delta = None
            if assoc == "distance":
                ppos = rp if rpair else ep * s_al
                steps = np.linalg.norm(ppos[1:] - ppos[:-1], axis=1)
                base = float(np.median(steps))
                f0 = 0.6 + case["dfrac"] * max(0.0, (M - 1) / 3.0 - 0.6)
                for mult in (1.0, 1.31, 0.77, 1.7, 0.55, 0.4, 0.3, 0.2, 2.3, 0.12,
                             1.15, 0.88, 1.5, 0.66, 2.0, 0.47, 0.25, 0.16, 2.7, 0.09, 3.2, 0.06):
                    cand = float(np.float32(base * f0 * mult))
                    prs, margin = T.pairs_distance(ppos, cand, cand * case["rtol"], allp)
                    if len(prs) >= 2 and margin >= 1e-6 * pos_scale:
                        delta, pairs = cand, prs
                        break
                if delta is None:
                    # no step length gives two distance pairs that are clear of a tie (regularly with 3..5 associated
                    # poses: the sequential rule can never select pose 0, so 3 poses give at most one pair): the case
                    # is evaluated with frame pairing and counted as such (labels distance->frame and pair:frame:...)
                    assoc = "frame"
                    rec.label("distance->frame", "distance->frame:M%s" % (M if M <= 5 else ">5"))
                else:
                    kw["rtol"] = case["rtol"]
            if assoc == "frame":
                dmax = (M - 2) if allp else (M - 1) // 2
                delta = float(1 + int(case["dfrac"] * 0.999999 * dmax))
                pairs = T.pairs_frames(M, delta, allp)
            ne = len(pairs)
            assert ne >= 2
            kw.update(associate=assoc, delta=delta, all=allp, rpair=rpair)
        else:
            ne, pairs = M, None

        def tens(a):
            return None if a is None else torch.tensor(a, dtype=torch.float64)

        def call(refa, esta, what, otype=otype):
            kw_ = dict(kw, otype=otype)
            rst, est_ = tens(tr["rstamp"]), tens(tr["estamp"])
            rP, eP = _se3_tensor(refa, "float64"), _se3_tensor(esta, "float64")
            keep = [None if rst is None else rst.clone(), rP.tensor().clone(),
                    None if est_ is None else est_.clone(), eP.tensor().clone()]
            fn = pp.metric.ape if metric == "ape" else pp.metric.rpe
            with rec.sut("%s(%s)" % (metric, what)):
                res = fn(rst, rP, est_, eP, **kw_)
            for nm, a, b in zip(("rstamp", "rpose", "estamp", "epose"), (rst, rP.tensor(), est_, eP.tensor()), keep):
                if a is not None:
                    rec.check(torch.equal(a, b), "metrics:mutates_input:" + nm,
                              "%s changed its argument %s (offset=%r)" % (metric, nm, case["offset"]))
            sd = _stats_dict(res, otype)
            if not rec.check(sd is not None and (otype != "All" or all(k in sd for k in ("Max", "RMSE", "Mean", "Min"))),
                             "metrics:output_form", "%s(otype=%r) returned %r" % (metric, otype, type(res).__name__)):
                return None
            if not rec.check(all(math.isfinite(v) for v in sd.values()), "metrics:nonfinite:%s:%s" % (metric, etype),
                             "%s %s: non-finite statistics %s" % (metric, what, sd)):
                return None
            # documented ordering
            if otype == "All":
                mx, rm, me, mn = sd["Max"], sd["RMSE"], sd["Mean"], sd["Min"]
                slack = 1e-12 * max(abs(mx), abs(rm), abs(me)) + 1e-300
                rec.check(mx >= rm - slack and rm >= me - slack and me >= mn - slack and mn >= 0.0,
                          "metrics:ordering:%s" % metric,
                          "%s %s etype=%s: Max=%r RMSE=%r Mean=%r Min=%r violate Max>=RMSE>=Mean>=Min>=0"
                          % (metric, what, etype, mx, rm, me, mn))
            return sd

        # scale of the quantities each error is made of
        def escale(extra=1.0):
            if etype in ("translation", "pose"):
                return max(1.0, pos_scale, extra)
            return 180.0 / math.pi if etype == "degree" else 1.0

        def compare(a, b, S, bucket, what):
            at = 1e-9 * S
            worst = 0.0
            for key in a:
                va, vb = a[key], b[key]
                big = max(abs(va), abs(vb))
                if key == "SSE":
                    emax = math.sqrt(big) + at
                    tol = 2 * ne * emax * at + 1e-8 * big
                elif key == "STD":
                    tol = 2 * at + 1e-8 * big
                else:
                    tol = at + 1e-8 * big
                r = abs(va - vb) / tol
                worst = max(worst, r)
                if r > 1.0:
                    rec.fail(bucket, "%s: %s changes from %r to %r (tol %.3g); config %s" % (what, key, va, vb, tol, kw))
                    break
            return worst

        cfgl = "%s:%s:%s" % (metric, etype, "".join(f[0] for f, v in (("align", align), ("scale", scale), ("origin", origin)) if v) or "-")
        rec.label(metric, etype, "flags:" + cfgl.split(":")[2], "otype:" + otype, "noise:" + case["noise"],
                  "len:" + ("same" if len(ref) == len(est) else ("est_short" if len(est) < len(ref) else "ref_short")),
                  "stamps:" + case["stamps"], "n>40" if case["n"] > 40 else "n<=40")
        if case["offset"] != 0.0:
            rec.label("offset!=0")
        if tr["rstamp"] is not None:
            rec.label("jitter<%.2f*diff" % case.get("jit", 0.24), "assoc:rejects_unmatched" if rejects else "assoc:all_of_shorter")
        if metric == "rpe":
            rec.label("pair:%s:%s:%s" % (kw["associate"], "all" if case["all"] else "seq", "rpair" if case["rpair"] else "epair"))
        difflen = len(ref) != len(est) and case["stamps"] == "real"
        if not ident and (difflen or etype in ROT_E or s_t != 1.0):
            rec.nt(("m", cfgl, otype, case["stamps"], case["sub"], case["which"], case["noise"], case["disp"],
                    (kw["associate"], case["all"], case["rpair"]) if metric == "rpe" else None,
                    "sim" if s_t != 1.0 else "rigid", int(math.log2(M))))

        base = call(ref, est, "ref, est")
        if base is None:
            return

        # --- a single statistic is the entry of the full output, which obeys the documented ordering --------
        if otype != "All":
            full = call(ref, est, "ref, est; otype='All'", otype="All")
            if full is not None:
                v, w = base[otype], full.get(otype)
                rec.check(w is not None and abs(v - w) <= 1e-12 * max(abs(v), abs(w)) + 1e-300,
                          "metrics:otype_consistency:%s:%s" % (metric, otype),
                          "%s(otype=%r) returns %r but otype='All' reports %s=%r; config %s" % (metric, otype, v, otype, w, kw))

        # --- values: the documented statistics of the documented errors over the brute-force pair set ------
        # (associated pairs from T.associate, alignment by Umeyama / first pose, pairing rule of the documentation;
        # every reading the documentation leaves open is accepted: matrix 2-norm or Frobenius norm, the translation
        # error of rpe as |trans(Tr^-1 Te)| or as written, Median between the two middle samples, STD with n or n-1)
        Mr, Me0 = T.mats_v(ref_m), T.mats_v(est_m)
        Me2 = Me0
        if align or scale:
            s_u, R_u, t_u = T.umeyama(ep, rp, scale)[:3]
            Me2 = Me0.copy()
            Me2[:, :3, :3] = R_u @ Me0[:, :3, :3]
            Me2[:, :3, 3] = s_u * Me0[:, :3, 3] @ R_u.T + t_u
        elif origin:
            Me2 = (Mr[0] @ T.inv_mats(Me0[0])) @ Me0
        Sv = escale(float(np.abs(Me2[:, :3, 3]).max()))
        atv = 1e-9 * Sv
        best, passing = None, []
        for rname, errs in T.metric_errors(Mr, Me2, metric, etype, pairs):
            assert len(errs) == ne
            stats, worst, wmsg = T.statistics(errs), 0.0, ""
            for key, v in base.items():
                lo, hi = stats[key]
                big = max(abs(v), abs(lo), abs(hi))
                if key == "SSE":
                    tol = 2 * ne * (math.sqrt(big) + atv) * atv + 1e-8 * big
                elif key == "STD":
                    tol = 2 * atv + 1e-8 * big
                else:
                    tol = atv + 1e-8 * big
                r = max(lo - v, v - hi, 0.0) / tol
                if r > worst:
                    worst, wmsg = r, "%s = %r, brute force %s (tol %.3g)" % (key, v, ("%r" % lo) if lo == hi else "in [%r, %r]" % (lo, hi), tol)
            if worst <= 1.0:
                passing.append(rname)
            if best is None or worst < best[0]:
                best = (worst, rname, wmsg)
        _note(rec, "value/tol", best[0])
        rec.label("value_ref" + (":" + passing[0] if (len(passing) == 1 and passing[0]) else ""))
        rec.check(best[0] <= 1.0, "metrics:value:%s:%s:%s" % (metric, etype, cfgl.split(":")[2]),
                  lambda: "%s over %d associated poses (%d error samples): %s under the closest documented reading%s; config %s"
                  % (metric, M, ne, best[2], " (%s)" % best[1] if best[1] else "", kw))

        # --- identical trajectories: zero statistics ------------------------------------------------
        if ident:
            lim = 1e-12 * escale()
            worst = max(abs(v) for v in base.values())
            _note(rec, "zero/tol", worst / lim)
            rec.check(worst <= lim, "metrics:identical_nonzero:%s:%s" % (metric, etype),
                      "identical trajectories (%d associated poses), config %s: statistics %s" % (M, kw, base))

        # --- invariances ----------------------------------------------------------------------------
        if metric == "rpe":
            Gref, Gest = T.left_mul(G, ref), T.left_mul(G, est)
            S = escale(max(float(np.abs(Gref[:, :3]).max()), float(np.abs(Gest[:, :3]).max()) * max(1.0, s_al)))
            r1 = call(Gref, est, "G@ref, est")
            if r1 is not None:
                _note(rec, "rpe_Gref/tol", compare(base, r1, S, "metrics:rpe_left_ref:%s:%s" % (etype, cfgl.split(":")[2]),
                                                    "rpe(G@ref, est) vs rpe(ref, est)"))
            r2 = call(ref, Gest, "ref, G@est")
            if r2 is not None:
                _note(rec, "rpe_Gest/tol", compare(base, r2, S, "metrics:rpe_left_est:%s:%s" % (etype, cfgl.split(":")[2]),
                                                    "rpe(ref, G@est) vs rpe(ref, est)"))
        elif align or scale:
            Sest = T.sim_apply(s_t, G, est)
            # rounding of S@est is eps*|S est|; the alignment maps it back with the factor s_al/s_t
            amp = max(1.0, s_al / s_t)
            S = escale(max(float(np.abs(Sest[:, :3]).max()) * amp, float(np.abs(est[:, :3]).max()) * max(1.0, s_al)))
            r1 = call(ref, Sest, "ref, S@est")
            if r1 is not None:
                kind = "sim" if s_t != 1.0 else "rigid"
                rec.label("ape_transform:" + kind)
                _note(rec, "ape_%s/tol" % kind, compare(base, r1, S, "metrics:ape_align_%s:%s:%s" % (kind, etype, cfgl.split(":")[2]),
                                                        "ape(ref, S@est) vs ape(ref, est), S %s (s=%.6g)" % (kind, s_t)))

    def simplify(self, case):
        for nn in sorted({3, 4, 6, case["n"] // 2, case["n"] - 1}):
            if 3 <= nn < case["n"]:
                yield dict(case, n=nn)
        for key, val in (("sub", "same"), ("stamps", "none"), ("offset", 0.0), ("disp", "none"), ("noise", "small"),
                         ("otype", "All"), ("tkind", "rigid"), ("estep", 0), ("tes", 0), ("t0", 0.0), ("dt", 1.0), ("jit", 0.24),
                         ("origin", False), ("align", False), ("scale", False)):
            if case.get(key) != val and not (key == "stamps" and case["sub"] not in ("same", "prefix")) \
                    and not (key == "noise" and case["noise"] == "identical"):
                c = dict(case, **{key: val})
                if key == "stamps":
                    c["offset"] = 0.0
                yield c
        if case["metric"] == "rpe":
            for key, val in (("associate", "frame"), ("all", False), ("rpair", False), ("dfrac", 0.0)):
                if case.get(key) != val:
                    yield dict(case, **{key: val})
        if case["seed"]:
            yield dict(case, seed=0)

    def valid(self, case):
        if case["stamps"] == "none" and (case["sub"] not in ("same", "prefix") or case["offset"] != 0.0):
            return False
        if not (case["dt"] >= 0.01 and 0.0 < case["diff_frac"] <= 0.25 and 0.0 < case["keep"] <= 1.0
                and 0.0 <= case["t0"] <= 2e9 and abs(case["offset"]) <= 1e3 and case.get("rtol", 0.1) in (0.1, 0.3)):
            return False
        if not 0.0 <= case.get("jit", 0.24) <= 0.95 or case["sub"] not in ("same", "random", "prefix", "both"):
            return False
        return case["n"] >= 3 and -1.6 <= case["slog"] <= 1.6 and 0.0 <= case.get("dfrac", 0.0) <= 1.0


# =====================================================================================
# geodesic loss
ALL_LT = R.GROUPS + R.ALGEBRAS
REL_ANGLES = ("zero", "tiny", "eps", "sqrteps", "small", "one", "nearpi", "pi")


def _rot_ref(lt, v):
    """float64 reference rotation matrix and rotation-vector length of one element"""
    v = np.asarray(v, dtype=np.float64)
    if lt in R.GROUPS:
        return R.qrot(R.split_group(lt, v)[1]), 0.0
    phi = R.split_alg(lt, v)[1]
    return R.qrot(R.exp_np("so3", phi)), float(np.linalg.norm(phi))


def _embed(lt, q, rs, dtype, tmag=3.0):
    """an element of type lt whose rotation part is the unit quaternion q (other parts random)"""
    t, s = rs.randn(3) * tmag, float(np.exp(rs.uniform(-1, 1)))
    if lt in R.GROUPS:
        return gen.rnd_list(R.join_group(lt, t, q, s).tolist(), dtype)
    phi = R.log_np("SO3", q)
    return gen.rnd_list(R.join_alg(lt, t, phi, math.log(s)).tolist(), dtype)


class Geodesic(Sub):
    name = "geodesic"
    n = {"quick": 6000, "thorough": 100000}

    def strategy(self, tier):
        @st.composite
        def s(draw):
            lx, ly = draw(st.sampled_from(ALL_LT)), draw(st.sampled_from(ALL_LT))
            dtype = draw(st.sampled_from(gen.DTYPES))
            shape = draw(gen.lshape(2, (1, 2, 3), 6))
            cnt = int(np.prod(shape)) if shape else 1
            xs, regs = [], []
            for _ in range(cnt):
                v, reg = draw(gen.group(lx, dtype, tcap=1e2, slo=-3.0, shi=3.0) if lx in R.GROUPS
                              else gen.algebra(lx, dtype, tcap=1e2, scap=3.0))
                xs.append(v); regs.append(gen.regime_key(reg))
            mode = draw(st.sampled_from(("indep", "rel", "rel")))
            c = {"lx": lx, "ly": ly, "dtype": dtype, "shape": shape, "x": xs, "mode": mode,
                 "reduction": draw(st.sampled_from(("none", "mean", "sum"))), "api": draw(st.sampled_from(("function", "module"))),
                 "xreg": regs[0]}
            if mode == "indep":
                ys = []
                for _ in range(cnt):
                    v, _ = draw(gen.group(ly, dtype, tcap=1e2, slo=-3.0, shi=3.0) if ly in R.GROUPS
                                else gen.algebra(ly, dtype, tcap=1e2, scap=3.0))
                    ys.append(v)
                c["y"] = ys
            else:
                c["rel"] = [[draw(st.sampled_from(REL_ANGLES)), draw(st.floats(1.0, 2.0, exclude_max=True)),
                             draw(st.integers(-6, 6))] for _ in range(cnt)]
                c["seed"] = draw(st.integers(0, 2 ** 31 - 1))
            return c
        return s()

    def _ys(self, case):
        if case["mode"] == "indep":
            return case["y"]
        dtype, eps = case["dtype"], tu.EPS[case["dtype"]]
        rs = np.random.RandomState(case["seed"])
        ys = []
        for xv, (reg, m, kk) in zip(case["x"], case["rel"]):
            if case["lx"] in R.GROUPS:
                qx = np.array(R.split_group(case["lx"], xv)[1])
                qx = qx / np.linalg.norm(qx)
            else:
                qx = R.exp_np("so3", R.split_alg(case["lx"], xv)[1])
            ang = {"zero": 0.0, "tiny": m * 1e-20, "eps": eps * m * 2.0 ** kk, "sqrteps": math.sqrt(eps) * m * 2.0 ** kk,
                   "small": m * 1e-4, "one": m * 1.4, "nearpi": math.pi - m * 10.0 ** (-abs(kk) - 2), "pi": math.pi}[reg]
            ax = rs.randn(3)
            ax /= np.linalg.norm(ax)
            qd = np.concatenate([math.sin(ang / 2) * ax, [math.cos(ang / 2)]])
            qy = R.qmul(qd, qx) * (1.0 if rs.uniform() < 0.5 else -1.0)
            ys.append(_embed(case["ly"], qy, rs, dtype))
        return ys

    def valid(self, case):
        cnt = int(np.prod(case["shape"])) if case["shape"] else 1
        if len(case["x"]) != cnt:
            return False
        for lt, key in ((case["lx"], "x"), (case["ly"], "y")):
            if key not in case:
                continue
            if len(case[key]) != cnt:
                return False
            if lt in R.GROUPS and not gen.valid_groups(lt, case[key], case["dtype"]):
                return False
            if not gen.in_dtype(case[key], case["dtype"]):
                return False
        return True

    def oracle(self, case, rec):
        lx, ly, dtype, shape, red = case["lx"], case["ly"], case["dtype"], list(case["shape"]), case["reduction"]
        eps = tu.EPS[dtype]
        xs, ys = case["x"], self._ys(case)
        cnt = len(xs)
        X = tu.lie(lx, xs, dtype, shape=shape)
        Y = tu.lie(ly, ys, dtype, shape=shape)
        xin, yin = tu.npy(X).reshape(cnt, -1), tu.npy(Y).reshape(cnt, -1)
        ref, tol = np.zeros(cnt), np.zeros(cnt)
        for i in range(cnt):
            Rx, px = _rot_ref(lx, xin[i])
            Ry, py = _rot_ref(ly, yin[i])
            ref[i] = R.rot_angle(Rx @ Ry.T)
            tol[i] = 32 * eps * (1.0 + px + py)
        X0, Y0 = X.tensor().clone(), Y.tensor().clone()

        def f(a, b, r):
            if case["api"] == "module":
                return pp.module.GeodesicLoss(reduction=r)(a, b)
            return pp.geodesic_loss(a, b, reduction=r)

        with rec.sut("geodesic_loss"):
            none_xy = f(X, Y, "none")
            none_yx = f(Y, X, "none")
            red_xy = f(X, Y, red)
            red_yx = f(Y, X, red)
        rec.check(torch.equal(X.tensor(), X0) and torch.equal(Y.tensor(), Y0), "geodesic:mutates_input",
                  "geodesic_loss changed an argument")
        amax = float(ref.max())
        areg = "0" if amax == 0 else ("<1e-6" if amax <= 1e-6 else ("~pi" if amax > math.pi - 1e-3 else "mid"))
        rec.label(lx + "|" + ly, dtype, red, case["api"], "angle:" + areg, "rank%d" % len(shape))
        if amax > 1e-6 and not (lx == "SO3" and ly == "SO3"):
            rec.nt(("geo", lx, ly, dtype, red, case["api"], len(shape), areg))
        pair = "%s:%s" % (lx if lx != "SO3" else "SO3", dtype)
        if not rec.check(isinstance(none_xy, torch.Tensor) and tuple(none_xy.shape) == tuple(shape), "geodesic:shape",
                         "reduction='none' returned shape %s for batch shape %s" % (tuple(getattr(none_xy, "shape", ())), tuple(shape))):
            return
        a, b = tu.npy(none_xy).reshape(cnt), tu.npy(none_yx).reshape(cnt)
        if not rec.check(bool(np.all(np.isfinite(a)) and np.all(np.isfinite(b))), "geodesic:nonfinite:" + pair,
                         "non-finite loss %s for x=%s y=%s" % (a.tolist(), xs, ys)):
            return
        i = int(np.argmax(np.abs(a - ref) / tol))
        _note(rec, "angle/tol:" + dtype, abs(a[i] - ref[i]) / tol[i])
        rec.check(abs(a[i] - ref[i]) <= tol[i], "geodesic:value:%s|%s:%s" % (lx, ly, dtype),
                  lambda: "loss(%s, %s)=%r but the angle of R_x R_y^T is %r (tol %.3g); x=%s y=%s"
                  % (lx, ly, float(a[i]), float(ref[i]), tol[i], xs[i], ys[i]))
        lo, hi = float(min(a.min(), b.min())), float(max(a.max(), b.max()))
        rec.check(lo >= 0.0 and hi <= math.pi * (1 + 8 * eps), "geodesic:range:" + dtype,
                  "loss outside [0, pi]: min %r max %r" % (lo, hi))
        j = int(np.argmax(np.abs(a - b) / tol))
        _note(rec, "sym/tol:" + dtype, abs(a[j] - b[j]) / (2 * tol[j]))
        rec.check(abs(a[j] - b[j]) <= 2 * tol[j], "geodesic:symmetry:" + dtype,
                  lambda: "loss(x,y)=%r != loss(y,x)=%r; x=%s y=%s" % (float(a[j]), float(b[j]), xs[j], ys[j]))
        # reductions
        for nm, r, base in (("xy", red_xy, a), ("yx", red_yx, b)):
            if red == "none":
                ok = isinstance(r, torch.Tensor) and tuple(r.shape) == tuple(shape) and np.array_equal(tu.npy(r).reshape(cnt), base)
                rec.check(ok, "geodesic:reduction:none", "two evaluations with reduction='none' differ")
                continue
            if not rec.check(isinstance(r, torch.Tensor) and r.dim() == 0, "geodesic:reduction_shape",
                             "reduction=%r did not return a scalar" % red):
                continue
            want = float(base.sum()) / (cnt if red == "mean" else 1)
            rtol = 4 * eps * cnt * max(float(np.abs(base).sum()), 1e-300) / (cnt if red == "mean" else 1) + 1e-300
            _note(rec, "red/tol", abs(float(r) - want) / rtol)
            rec.check(abs(float(r) - want) <= rtol, "geodesic:reduction:" + red,
                      "reduction=%r gives %r but the %s of the unreduced losses is %r" % (red, float(r), red, want))
        # broadcasting batches: ONE element against all (both argument orders) - the loss is defined per broadcast pair and the
        # reductions run over the broadcast batch, not over the batch of either argument (seed C19g)
        if cnt > 1:
            dX, dY = X.shape[-1], Y.shape[-1]
            X1 = pp.LieTensor(X.tensor().reshape(cnt, dX)[:1].clone(), ltype=X.ltype)          # lshape (1,)
            Yf = pp.LieTensor(Y.tensor().reshape(cnt, dY).clone(), ltype=Y.ltype)              # lshape (cnt,)
            Rx0, px0 = _rot_ref(lx, xin[0])
            refb, tolb = np.zeros(cnt), np.zeros(cnt)
            for jj in range(cnt):
                Ryj, pyj = _rot_ref(ly, yin[jj])
                refb[jj] = R.rot_angle(Rx0 @ Ryj.T)
                tolb[jj] = 32 * eps * (1.0 + px0 + pyj)
            with rec.sut("geodesic_loss(broadcast)"):
                outs = [(f(X1, Yf, rr), f(Yf, X1, rr)) for rr in ("none", "mean", "sum")]
            rec.label("broadcast_one_vs_all")
            for rr, (o1, o2) in zip(("none", "mean", "sum"), outs):
                for o in (o1, o2):
                    if rr == "none":
                        ok = isinstance(o, torch.Tensor) and tuple(o.shape) == (cnt,) and bool(np.all(np.abs(tu.npy(o) - refb) <= tolb))
                        rec.check(ok, "geodesic:broadcast:none", lambda: "one element against %d: reduction='none' gives %s, the angles are %s"
                                  % (cnt, tu.npy(o).tolist() if isinstance(o, torch.Tensor) else o, refb.tolist()))
                    else:
                        wantb = float(refb.sum()) / (cnt if rr == "mean" else 1)
                        tb = float(tolb.sum()) / (cnt if rr == "mean" else 1) + 4 * eps * cnt * abs(wantb)
                        rec.check(isinstance(o, torch.Tensor) and o.dim() == 0 and abs(float(o) - wantb) <= tb, "geodesic:broadcast:" + rr,
                                  lambda: "one element against %d: reduction=%r gives %r, the %s of the %d pairwise angles is %r"
                                  % (cnt, rr, float(o) if isinstance(o, torch.Tensor) and o.dim() == 0 else o, rr, cnt, wantb))

    def simplify(self, case):
        cnt = len(case["x"])
        if cnt > 1 or case["shape"]:
            for i in range(cnt):
                c = dict(case, shape=[], x=[case["x"][i]])
                if "y" in case:
                    c["y"] = [case["y"][i]]
                else:
                    c["rel"] = [case["rel"][i]]
                yield c
        if case["mode"] == "rel":      # freeze the derived y so that float leaves can be simplified
            c = dict(case, mode="indep", y=self._ys(case))
            c.pop("rel", None); c.pop("seed", None)
            yield c
        if case["dtype"] != "float64" and case["mode"] == "indep":
            yield dict(case, dtype="float64")
        if case["reduction"] != "none":
            yield dict(case, reduction="none")
        if case["api"] != "function":
            yield dict(case, api="function")


SUBS = [ChSpline(), BSpline(), Metrics(), Geodesic()]


# =====================================================================================
def selftest():
    rs = np.random.RandomState(11)
    # exact counting of multiples against brute force
    for h in (0.5, 0.25, 0.3, 0.7, 0.1, 0.2, 0.37, 0.999, 1.0 / 3, 0.0123):
        brute = 0
        from fractions import Fraction
        while Fraction(h) * brute < 1:
            brute += 1
        assert T.multiples_in_unit(h) == brute, h
    assert T.multiples_in_unit(1.0 / 3) == 4 and not interval_ok(1.0 / 3)     # the ambiguous kind is excluded
    assert interval_ok(0.1) and interval_ok(0.3) and interval_ok(2.0 ** -5) and not interval_ok(1.0 / 7)
    # one-parameter subgroup: Exp(a xi) Exp(b xi) = Exp((a+b) xi)   (second formulation of the twist oracle)
    xi = T.rand_twist(rs, 2.0, 1.3)
    A = R.mat4("SE3", R.exp_np("se3", 0.7 * xi)) @ R.mat4("SE3", R.exp_np("se3", 1.9 * xi))
    assert np.allclose(A, R.mat4("SE3", R.exp_np("se3", 2.6 * xi)), atol=1e-13)
    assert np.allclose(R.expm_np(R.hat("se3", 2.6 * xi)), A, atol=1e-12)
    # vectorised helpers against the scalar reference / the mpmath closed form
    Xs = np.stack([T.rand_pose(rs, 3.0) for _ in range(5)], 0)
    assert np.allclose(T.mats_v(Xs), T.mats(Xs), atol=1e-15)
    for ang in (0.0, 1e-9, 1e-4, 0.7, 3.0):
        xi2 = T.rand_twist(rs, 2.0, ang) if ang > 0 else np.concatenate([rs.randn(3), np.zeros(3)])
        tsamp = np.array([0.0, 0.3, 1.0, 7.25, 59.0])
        L = T.exp_se3_line(tsamp, xi2)
        for tv, Lm in zip(tsamp, L):
            ref = R.mat4("SE3", R.exp_ref("se3", tv * xi2))
            assert np.abs(Lm - ref).max() <= 1e-13 * max(1.0, np.abs(ref).max()) * max(1.0, tv * ang), (ang, tv)
    # cumulative B-spline weights of the docstring sum to 1+u on a constant twist
    Mb = np.array([[5, 3, -3, 1], [1, 3, 3, -2], [0, 0, 0, 1]]) / 6.0
    for u in (0.0, 0.3, 1.0):
        assert abs((Mb @ np.array([1, u, u * u, u ** 3])).sum() - (1 + u)) < 1e-15
    # third-derivative bounds of one spline segment against finite differences of the segment formula, and the
    # third-difference inequality the continuity check relies on
    lam = lambda u: Mb @ np.array([1, u, u * u, u ** 3])
    for ang, tm in ((0.0, 1.0), (0.3, 2.0), (2.0, 0.5), (3.1, 1.0)):
        xis = [T.rand_twist(rs, tm, ang) if ang > 0 else np.concatenate([tm * rs.randn(3), np.zeros(3)]) for _ in range(3)]
        P0 = R.mat4("SE3", T.rand_pose(rs, 2.0))

        def seg(u):
            out = P0
            for lj, xj in zip(lam(u), xis):
                out = out @ R.mat4("SE3", R.exp_np("se3", lj * xj))
            return out
        th = max(np.linalg.norm(x[3:]) for x in xis)
        ta = max(np.linalg.norm(x[:3]) for x in xis)
        k_rot, k_tr = T.bspline_third_derivative_bounds(np.array(th), np.array(ta))
        hh = 1.0 / 64
        for u0 in (0.0, 0.4, 1.0 - 3 * hh):
            d3 = seg(u0 + 3 * hh) - 3 * seg(u0 + 2 * hh) + 3 * seg(u0 + hh) - seg(u0)
            assert np.linalg.norm(d3[:3, :3], 2) <= hh ** 3 * k_rot + 1e-13 and np.linalg.norm(d3[:3, 3]) <= hh ** 3 * k_tr + 1e-13
        assert np.linalg.norm(T.twist_norm_bound(np.array(ang), np.linalg.norm(R.mat4("SE3", R.exp_np("se3", xis[0]))[:3, 3]))) \
            >= np.linalg.norm(xis[0][:3]) * (1 - 1e-12)
    th, dd = T.rel_geometry(np.stack([np.stack([P0, seg(0.5)])]))
    assert abs(th[0, 0] - R.rot_angle(P0[:3, :3].T @ seg(0.5)[:3, :3])) < 1e-14 and abs(dd[0, 0] - np.linalg.norm(seg(0.5)[:3, 3] - P0[:3, 3])) < 1e-14
    for e_ in (tu.EPS["float32"], EPS64):
        nn = T.exp_translation_noise(np.array([0.0, e_, math.sqrt(e_), 1e-3, 1.0, 3.0]), e_)
        assert nn.max() <= math.sqrt(2 * e_) * (1 + 1e-12) and nn[0] <= 40 * e_ and nn[-1] <= e_
    # association and statistics of the metric reference
    prs, mg, un = T.associate([0.0, 1.0, 2.0, 3.0], [0.52, 2.49, 3.8], 0.05, 0.5)
    assert prs == [(1, 0), (3, 1)] and un and abs(mg - 0.03) < 1e-12
    stt = T.statistics([3.0, 1.0, 2.0, 6.0])
    assert stt["Median"] == (2.0, 3.0) and stt["Max"] == (6.0, 6.0) and stt["SSE"] == (50.0, 50.0) and stt["Mean"] == (3.0, 3.0)
    assert abs(stt["STD"][0] - math.sqrt(3.5)) < 1e-15 and abs(stt["STD"][1] - math.sqrt(14.0 / 3)) < 1e-15
    Ms = T.mats_v(np.stack([T.rand_pose(rs, 3.0) for _ in range(4)], 0))
    assert np.allclose(T.inv_mats(Ms) @ Ms, np.eye(4), atol=1e-14)
    (_, e1), (_, e2) = T.metric_errors(Ms, Ms[::-1].copy(), "ape", "pose")
    Ed = np.linalg.inv(Ms[3]) @ Ms[0] - np.eye(4)
    assert abs(e1[0] - np.linalg.norm(Ed)) < 1e-13 and abs(e2[0] - np.linalg.norm(Ed, 2)) < 1e-13
    assert abs(T.metric_errors(Ms, Ms[::-1].copy(), "ape", "radian")[0][1][1] - R.rot_angle(Ms[2][:3, :3].T @ Ms[1][:3, :3])) < 1e-14
    # Umeyama: recovers a known similarity and is a minimiser
    src = rs.randn(9, 3)
    q = T.rand_unit_quat(rs)
    dst = 1.7 * src @ R.qrot(q).T + np.array([1.0, -2.0, 0.5])
    s, Rm, t, d, s33 = T.umeyama(src, dst, True)
    assert abs(s - 1.7) < 1e-12 and np.allclose(Rm, R.qrot(q), atol=1e-12) and np.allclose(t, [1.0, -2.0, 0.5], atol=1e-12)
    dst2 = dst + 0.1 * rs.randn(9, 3)
    s, Rm, t, d, s33 = T.umeyama(src, dst2, False)
    cost = lambda Rr, tt: float(((dst2 - src @ Rr.T - tt) ** 2).sum())
    c0 = cost(Rm, t)
    for _ in range(20):
        dR = R.qrot(R.exp_np("so3", 1e-3 * rs.randn(3)))
        assert cost(dR @ Rm, t + 1e-3 * rs.randn(3)) >= c0 - 1e-12
    # angle of a rotation: matrix formula vs quaternion formula
    for ang in (0.0, 1e-9, 0.3, 3.0, math.pi - 1e-7, math.pi):
        ax = rs.randn(3); ax /= np.linalg.norm(ax)
        qq = np.concatenate([math.sin(ang / 2) * ax, [math.cos(ang / 2)]])
        assert abs(R.rot_angle(R.qrot(qq)) - ang) < 1e-9 and abs(R.quat_angle(qq) - ang) < 1e-9
    # documented pairings
    assert T.pairs_frames(7, 2, False) == [(0, 2), (2, 4), (4, 6)] and T.pairs_frames(4, 2, True) == [(0, 2), (1, 3)]
    pos = np.array([[0.0, 0, 0], [1, 0, 0], [2, 0, 0], [3.5, 0, 0], [4, 0, 0]])
    assert T.pairs_distance(pos, 1.9, 0.0, False)[0] == [(2, 4)] and T.pairs_distance(pos, 2.0, 0.2, True)[0] == [(0, 2), (2, 4)]
