"""C07 - a GN / LM step is the documented damped, weighted linear solve on the manifold."""
import math
import numpy as np
import torch
import pypose as pp
from torch import nn
from hypothesis import strategies as st

from ..core import Sub, _frame_of as core_frame_of
from ..ref import lie as R
from .. import tu, gen
from . import c04

PROPERTY = "C07"
RULE = ("models: Hypothesis draws an nn.Module whose 1..3 parameters are of kinds {group, algebra, 3-vector, 4-vector} of one Lie "
        "family with batch size 1..3 (some requires_grad=False), a residual program from C04's grammar (1..4 operator nodes), optionally "
        "coupling batch items (difference of neighbouring items) and a second residual output, optional targets, SPD weights in the "
        "documented shapes RxR / NxRxR per residual, kernel in {None, Huber, PseudoHuber, Cauchy, SoftLOne, Arctan} (single or one per "
        "residual), corrector {auto, FastTriggs, Triggs}, solver {PINV, LSTSQ} for GN and {Cholesky, PINV, LSTSQ, CG} for LM, strategy "
        "{Constant, Adaptive, TrustRegion} with damping 1e-9..1e3, min/max clamps incl. active ones, vectorize on/off.  Oracle: "
        "independent float64 reference: numerical (Richardson) Jacobian of the stacked residuals in tangent coordinates (left "
        "perturbation with the harness's own Exp for group parameters), own closed-form rho' for the corrector, own block-diagonal "
        "weight expansion; GN: delta_ref = pinv(W J)(-W R) (LSTSQ / ill-conditioned: normal-equation residual only); LM: a recording "
        "wrapper around the configured solver captures (A, b) of EVERY trial, which must equal A_0 = clamp_diag(J^T W J, min, max), "
        "A_k = A_(k-1) + lambda_k diag(A_(k-1)), b = -J^T W R; the applied update is the solver's answer RETRACTED with the reference "
        "Exp (group) / added (Euclidean, algebra) and compared as transformations; frozen parameters bitwise unchanged.  Tolerance 1e-6 "
        "relative.  Non-trivial: >= 2 parameters of different kinds, or a weight, or a kernel, or an active clamp, or a frozen parameter; "
        "distinct = (kinds, family, weights, kernel, corrector, optimizer, solver, strategy, vectorize).")
ASSUMPTIONS = ["weights are SPD; kernels are the built-in ones (rho'' <= 0, so Triggs and FastTriggs coincide; user kernels are C09's)",
               "float64 models; residual programs keep internal Log arguments away from pi (C04's pre-pass)",
               "W J delta = -W R is read literally as in the statement (pypose multiplies by W, not by its square root)"]

KERNELS = {"Huber": pp.optim.kernel.Huber, "PseudoHuber": pp.optim.kernel.PseudoHuber, "Cauchy": pp.optim.kernel.Cauchy,
           "SoftLOne": pp.optim.kernel.SoftLOne, "Arctan": pp.optim.kernel.Arctan}


def rho1(name, d, x):
    """closed-form rho'(x) of the documented kernels"""
    x = np.asarray(x, dtype=np.float64)
    if name is None:
        return np.ones_like(x)
    if name == "Huber":
        return np.where(np.sqrt(x) < d, 1.0, d / np.sqrt(np.maximum(x, 1e-300)))
    if name == "PseudoHuber":
        return 1.0 / np.sqrt(1 + x / d ** 2)
    if name == "Cauchy":
        return 1.0 / (1 + x / d ** 2)
    if name == "SoftLOne":
        return d / np.sqrt(1 / d ** 2 + x)
    if name == "Arctan":
        return 1.0 / (1 + (x / d ** 2) ** 2)
    raise ValueError(name)


def rho0(name, d, x):
    x = np.asarray(x, dtype=np.float64)
    if name is None:
        return x
    if name == "Huber":
        return np.where(np.sqrt(x) < d, x, 2 * d * np.sqrt(x) - d ** 2)
    if name == "PseudoHuber":
        return 2 * d ** 2 * (np.sqrt(1 + x / d ** 2) - 1)
    if name == "Cauchy":
        return d ** 2 * np.log1p(x / d ** 2)
    if name == "SoftLOne":
        return 2 * (d * np.sqrt(1 / d ** 2 + x) - 1)
    if name == "Arctan":
        return d ** 2 * np.arctan(x / d ** 2)
    raise ValueError(name)


class Model(nn.Module):
    def __init__(self, case):
        super().__init__()
        self.case = case
        glt = case["ltype"]
        ps = []
        for inp in case["inputs"]:
            t = torch.tensor(inp["val"], dtype=torch.float64)
            if inp["kind"] == "G":
                p = pp.Parameter(pp.LieTensor(t, ltype=tu.LT[glt]))
            elif inp["kind"] == "A":
                p = pp.Parameter(pp.LieTensor(t, ltype=tu.LT[c04.FAM[glt]]))
            else:
                p = nn.Parameter(t)
            if inp["frozen"]:
                p.requires_grad_(False)
            ps.append(p)
        self.ps = nn.ParameterList(ps)

    def forward(self, dummy):
        return forward_vals(self.case, list(self.ps))


def forward_vals(case, vals):
    """residual outputs (tuple) from parameter values of shape (..., B, d)"""
    out = c04.evalprog(case, vals)
    if case["mix"] and out.shape[-2] > 1:
        out = out - torch.roll(out, 1, dims=-2)
    outs = [out]
    if case["out2"]:
        # "alias": the second residual IS a (non-group, trainable) parameter - a prior pulling it to zero, written as `return err, self.b`:
        # no copy between the parameter's storage and what the corrector / solver get, so an in-place operation on the residual would
        # edit the parameter (seed C07f).  Otherwise: half of the first parameter (its Log for a group element).
        ai = next((k for k, i in enumerate(case["inputs"]) if i["kind"] != "G" and not i["frozen"]), None) if case.get("out2_alias") else None
        v = vals[0 if ai is None else ai]
        if ai is None and case["inputs"][0]["kind"] == "G":
            o2 = v.Log().tensor()
        else:
            o2 = v.tensor() if isinstance(v, pp.LieTensor) else v
        outs.append(o2 if ai is not None else o2 * 0.5)
    return tuple(outs)


def stacked_residual(case, vals_np):
    """numpy: run forward on (P,B,d) stacks -> (P, nres) stacked residuals (targets subtracted), per-residual shapes"""
    glt = case["ltype"]
    vals = []
    for inp, a in zip(case["inputs"], vals_np):
        t = torch.tensor(a, dtype=torch.float64)
        if inp["kind"] == "G":
            vals.append(pp.LieTensor(t, ltype=tu.LT[glt]))
        elif inp["kind"] == "A":
            vals.append(pp.LieTensor(t, ltype=tu.LT[c04.FAM[glt]]))
        else:
            vals.append(t)
    with torch.no_grad():
        outs = forward_vals(case, vals)
    res, shapes = [], []
    tg = targets(case, [tuple(o.shape[-2:]) for o in outs])
    for o, t in zip(outs, tg):
        o = o.numpy()
        if t is not None:
            o = o - t
        shapes.append(o.shape[-2:])
        res.append(o.reshape(o.shape[0], -1))
    return np.concatenate(res, 1), shapes


def targets(case, shapes):
    if not case["target"]:
        return [None] * len(shapes)
    rs = np.random.RandomState(case["cseed"] + 7)
    return [0.3 * rs.randn(*s) for s in shapes]


def weights(case, shapes):
    rs = np.random.RandomState(case["cseed"] + 11)
    out = []
    for w, (B, m) in zip(case["weights"], shapes):
        if w is None:
            out.append(None)
            continue
        n = 1 if w == "RR" else B
        Ws = []
        for _ in range(n):
            Q, _r = np.linalg.qr(rs.randn(m, m))
            lam = 10.0 ** rs.uniform(-1, 1, size=m)
            Ws.append(Q @ np.diag(lam) @ Q.T)
        out.append(Ws[0] if w == "RR" else np.stack(Ws, 0))
    return out


def tangent_layout(case):
    """list of (param index, item b, tangent dim, storage dim) for trainable parameters in storage order"""
    glt = case["ltype"]
    lay = []
    for k, inp in enumerate(case["inputs"]):
        if inp["frozen"]:
            continue
        td = {"G": R.MDIM[glt], "A": R.ADIM[c04.FAM[glt]], "P3": 3, "P4": 4}[inp["kind"]]
        sd = len(inp["val"][0])
        for b in range(len(inp["val"])):
            lay.append((k, b, td, sd))
    return lay


def perturb(case, base, k, b, i, h):
    glt = case["ltype"]
    alt = c04.FAM[glt]
    vals = [a.copy() for a in base]
    if case["inputs"][k]["kind"] == "G":
        e = np.zeros(R.ADIM[alt]); e[i] = h
        vals[k][b] = R.mul(glt, R.exp_np(alt, e), vals[k][b])
    else:
        vals[k][b, i] += h
    return vals


def numeric_J(case, base):
    lay = tangent_layout(case)
    hs = (2.0 ** -9, 2.0 ** -10)
    stacks = [[] for _ in base]
    index = []
    for (k, b, td, sd) in lay:
        for i in range(td):
            for h in hs:
                for sg in (1.0, -1.0):
                    v = perturb(case, base, k, b, i, sg * h)
                    for j in range(len(base)):
                        stacks[j].append(v[j])
                    index.append((k, b, i, h, sg))
    for j in range(len(base)):
        stacks[j].append(base[j])
    out, shapes = stacked_residual(case, [np.stack(s, 0) for s in stacks])
    r0 = out[-1]
    ncol = sum(td for (_, _, td, _) in lay)
    J = np.zeros((out.shape[1], ncol))
    col, p = 0, 0
    for (k, b, td, sd) in lay:
        for i in range(td):
            d = []
            for h in hs:
                d.append((out[p] - out[p + 1]) / (2 * h)); p += 2
            J[:, col] = (4 * d[1] - d[0]) / 3
            col += 1
    return J, r0, shapes


def to_storage(case, Jt):
    """insert zero columns for the slots beyond the manifold dimension (pypose works in storage coordinates)"""
    lay = tangent_layout(case)
    cols, c = [], 0
    for (k, b, td, sd) in lay:
        blk = np.zeros((Jt.shape[0], sd))
        blk[:, :td] = Jt[:, c:c + td]
        cols.append(blk); c += td
    return np.concatenate(cols, 1) if cols else np.zeros((Jt.shape[0], 0))


def from_storage(case, d):
    lay = tangent_layout(case)
    out, c = [], 0
    for (k, b, td, sd) in lay:
        out.append(d[c:c + td]); c += sd
    return np.concatenate(out) if out else np.zeros(0)


# "parameters == retraction of the solver's answer" is compared at the accuracy C01 grants Exp: the translation block of
# SE3/Sim3 Exp is only promised to a small multiple of sqrt(eps) (pypose evaluates (1-cos t)/t^2 in closed form down to
# t = eps, so for t ~ 1e-8 the term phi x tau / 2 is lost: 2.3e-9 relative was observed at VERIF_SEED=6).  A wrong update
# (other sign, missing / doubled step, wrong parameter) is off by O(|d|), eight orders above this.
RETR_TOL = 16 * float(np.sqrt(np.finfo(np.float64).eps))


STEP_LIMIT = 30.0


def step_outside_domain(case, rsol):
    """'' or the reason why the retraction of a recorded solver answer cannot be compared with the reference: an entry beyond
    STEP_LIMIT (exp of a log-scale of 700 overflows; everything is ill-conditioned long before), or for Sim3 a group step
    whose |ad| exceeds the range where pypose's truncated sim3 series is documented to hold (the same bound as C04's)"""
    glt = case["ltype"]
    for c in rsol.calls:
        if c[2] is None:
            continue
        x = np.asarray(c[2], dtype=np.float64).reshape(-1)
        if not np.all(np.isfinite(x)) or (x.size and float(np.abs(x).max()) > STEP_LIMIT):
            return "magnitude"
        if glt == "Sim3":
            o = 0
            for (k, b, td, sd) in tangent_layout(case):
                if case["inputs"][k]["kind"] == "G" and float(np.linalg.norm(R.ad("sim3", x[o:o + td]), 2)) > 0.2:
                    return "sim3_truncation"
                o += sd
    return ""


def retract(case, base, delta_t):
    """apply a tangent step with the reference retraction -> new parameter values"""
    glt = case["ltype"]
    alt = c04.FAM[glt]
    vals = [a.copy() for a in base]
    c = 0
    for (k, b, td, sd) in tangent_layout(case):
        d = delta_t[c:c + td]; c += td
        if case["inputs"][k]["kind"] == "G":
            vals[k][b] = R.mul(glt, R.exp_np(alt, d), vals[k][b])
        else:
            vals[k][b, :td] += d
    return vals


def param_distance(case, A, B):
    """max deviation between two parameter sets, group parameters compared as transformations"""
    glt = case["ltype"]
    worst = 0.0
    for k, inp in enumerate(case["inputs"]):
        for b in range(len(inp["val"])):
            if inp["kind"] == "G":
                Ma, Mb = R.mat4(glt, A[k][b]), R.mat4(glt, B[k][b])
                worst = max(worst, float(np.abs(Ma - Mb).max()) / max(1.0, float(np.abs(Ma).max())))
            else:
                worst = max(worst, float(np.abs(A[k][b] - B[k][b]).max()))
    return worst


class RecSolver(nn.Module):
    def __init__(self, inner):
        super().__init__()
        self.inner = inner
        self.calls = []

    def forward(self, A, b):
        rec = [A.detach().clone().numpy(), b.detach().clone().numpy(), None]
        self.calls.append(rec)
        x = self.inner(A, b)          # may raise (e.g. Cholesky on an indefinite clamped matrix): recorded with x = None
        rec[2] = x.detach().clone().numpy()
        return x


class RecStrategy:
    """delegates to the real strategy, records the damping in force at each update"""
    def __init__(self, inner):
        self.inner = inner
        self.defaults = inner.defaults
        self.before = []

    def update(self, pg, *a, **kw):
        self.before.append(pg["damping"])
        return self.inner.update(pg, *a, **kw)


@st.composite
def model_case(draw, tier):
    prog = draw(c04.program(tier))
    glt = prog["ltype"]
    B = draw(st.integers(1, 3))
    nodes = prog["nodes"][:4]
    # re-draw inputs as batches of B items (generic class only; thin regimes are C04's business)
    inputs = []
    for inp in prog["inputs"]:
        vals = [draw(c04._val_strategy(inp["kind"], glt, "generic", "float64")) for _ in range(B)]
        inputs.append({"kind": inp["kind"], "val": vals, "frozen": False})
    if len(inputs) > 1 and draw(st.integers(0, 3)) == 0:
        inputs[draw(st.integers(0, len(inputs) - 1))]["frozen"] = True
    opt = draw(st.sampled_from(("GN", "LM", "LM")))
    kern = draw(st.sampled_from((None, None, "Huber", "PseudoHuber", "Cauchy", "SoftLOne", "Arctan")))
    out2 = draw(st.booleans())
    nres = 2 if out2 else 1
    case = {"ltype": glt, "inputs": inputs, "nodes": nodes, "sink": prog["sink"], "cseed": prog["cseed"], "B": B,
            "mix": draw(st.booleans()), "out2": out2, "target": draw(st.booleans()),
            "weights": [draw(st.sampled_from((None, None, "RR", "NRR"))) for _ in range(nres)],
            "kernel": kern, "kdelta": draw(st.sampled_from((0.1, 0.5, 1.0, 3.0))), "kernel_list": draw(st.booleans()),
            # second residual of a kernel LIST: its own kernel class / delta (a list whose entries are all alike cannot tell
            # "corrector[i] for residual i" from "corrector[0] for all")
            "kernel2": draw(st.sampled_from((None, "Huber", "Cauchy", "SoftLOne"))) if kern else None,
            "kdelta2": draw(st.sampled_from((0.1, 0.5, 1.0, 3.0))),
            "corrector": draw(st.sampled_from(("auto", "Fast", "Triggs"))) if kern else "auto",
            "opt": opt, "solver": draw(st.sampled_from(("PINV", "LSTSQ") if opt == "GN" else ("Cholesky", "Cholesky", "PINV", "LSTSQ", "CG"))),
            "strategy": draw(st.sampled_from(("Constant", "Adaptive", "TrustRegion"))),
            "damping": 10.0 ** draw(st.integers(-9, 3)), "min": draw(st.sampled_from((1e-6, 1e-6, 1e-3, 0.5))),
            "max": draw(st.sampled_from((1e32, 1e32, 1e2, 5.0))), "vectorize": draw(st.booleans()), "reject": draw(st.sampled_from((0, 2, 16))),
            "weight_at_step": draw(st.booleans()),
            # an optimizer object with a past: an EARLIER step() on the same object, with another per-call weight ("weight") or without
            # arguments ("plain"); the judged step is the one after it.  The statement is about every step, not the first of an object.
            "prestep": draw(st.sampled_from((None, None, None, None, None, "weight", "plain"))),
            "out2_alias": draw(st.booleans())}
    if case["out2"] and case["out2_alias"] and any(i["kind"] != "G" and not i["frozen"] for i in case["inputs"]):
        case["target"] = False              # with a target the residual is `output - target`, a fresh tensor: no aliasing to speak of
        if case["kernel"] is None and draw(st.booleans()):
            case["kernel"], case["corrector"] = "Huber", draw(st.sampled_from(("auto", "Fast", "Triggs")))
    return case


def kernel_of(case, i):
    """(kernel name, delta) applied to residual i"""
    if i >= 1 and case.get("kernel_list") and case.get("kernel") and case.get("kernel2"):
        return case["kernel2"], case.get("kdelta2", case["kdelta"])
    return case["kernel"], case["kdelta"]


def build_optimizer(case, model, shapes):
    k = case["kernel"]
    kern = None
    if k:
        mk = lambda: KERNELS[k](case["kdelta"])
        kern = [KERNELS[kernel_of(case, i)[0]](kernel_of(case, i)[1]) for i in range(len(shapes))] if case["kernel_list"] else mk()
    corr = None
    if k and case["corrector"] != "auto":
        cls = pp.optim.corrector.FastTriggs if case["corrector"] == "Fast" else pp.optim.corrector.Triggs
        ks = kern if isinstance(kern, list) else [kern]
        corr = [cls(kk) for kk in ks]
        corr = corr if case["kernel_list"] else corr[0]
    Ws = weights(case, shapes)
    Wt = [None if w is None else torch.tensor(w) for w in Ws]
    wlist = None if all(w is None for w in Wt) else [w if w is not None else torch.eye(s[1], dtype=torch.float64) for w, s in zip(Wt, shapes)]
    if case["solver"] == "Cholesky" and (case["cseed"] + case["B"]) % 3 == 0:
        sol = pp.optim.solver.Cholesky(upper=True)          # the documented option of the solver: "all solvers" includes their options
    else:
        sol = {"PINV": pp.optim.solver.PINV, "LSTSQ": pp.optim.solver.LSTSQ, "Cholesky": pp.optim.solver.Cholesky, "CG": pp.optim.solver.CG}[case["solver"]]()
    rsol = RecSolver(sol)
    kw = {} if case["weight_at_step"] else {"weight": wlist}
    if case["opt"] == "GN":
        opt = pp.optim.GN(model, solver=rsol, kernel=kern, corrector=corr, vectorize=case["vectorize"], **kw)
        rstr = None
    else:
        if case["strategy"] == "Constant":
            s = pp.optim.strategy.Constant(damping=case["damping"])
        elif case["strategy"] == "Adaptive":
            s = pp.optim.strategy.Adaptive(damping=case["damping"])
        else:
            s = pp.optim.strategy.TrustRegion(radius=1.0 / case["damping"])
        rstr = RecStrategy(s)
        opt = pp.optim.LM(model, solver=rsol, strategy=rstr, kernel=kern, corrector=corr, vectorize=case["vectorize"],
                          min=case["min"], max=case["max"], reject=case["reject"], **kw)
    return opt, rsol, rstr, wlist, Ws


def check_model(case, rec, tol=1e-6):
    glt = case["ltype"]
    for b in range(case["B"]):
        ok, why = c04._inspect(dict(case, inputs=[{"kind": i["kind"], "val": i["val"][b]} for i in case["inputs"]], cls="generic", dtype="float64"))
        if not ok:
            rec.discard_case(why)
    if all(i["frozen"] for i in case["inputs"]):
        rec.discard_case("all_frozen")
    base = [np.array(i["val"], dtype=np.float64) for i in case["inputs"]]
    try:
        Jt, r0, shapes = numeric_J(case, base)
    except Exception as e:
        rec.discard_case("forward_failed:%s" % type(e).__name__)
    if not (np.all(np.isfinite(Jt)) and np.all(np.isfinite(r0))) or np.abs(r0).max() > 1e3:
        rec.discard_case("forward_nonfinite")
    kinds = tuple(i["kind"] for i in case["inputs"])
    frozen = any(i["frozen"] for i in case["inputs"])
    rec.label(glt, case["opt"], "solver:" + case["solver"], "kernel:%s" % case["kernel"], "corr:" + case["corrector"],
              "frozen" if frozen else "allfree", "vec" if case["vectorize"] else "novec")
    prebuilt = None
    if case.get("prestep"):
        # the optimizer's past: one earlier step on the same object (result not judged), then everything below is evaluated at the
        # parameters it left behind.  (State that leaks from one call into the next - a per-call weight stored on the object, a
        # cached Jacobian - is invisible to a single step on a fresh optimizer: seed C07e.)
        model = Model(case)
        prebuilt = (model,) + tuple(build_optimizer(case, model, shapes))
        opt0, rsol0, rstr0 = prebuilt[1], prebuilt[2], prebuilt[3]
        tg0 = targets(case, shapes)
        tgt0 = None if not case["target"] else tuple(torch.tensor(t) for t in tg0)
        kw0 = {}
        if case["prestep"] == "weight":
            kw0["weight"] = [torch.eye(m_, dtype=torch.float64) * (2.0 + ri_) + 0.25 * torch.ones(m_, m_, dtype=torch.float64) for ri_, (_, m_) in enumerate(shapes)]
        try:
            opt0.step(torch.zeros(1), target=tgt0, **kw0)
        except Exception:
            rec.discard_case("prestep_raised")
        if step_outside_domain(case, rsol0) or any(c[2] is not None and float(np.abs(c[2]).max()) > 2.0 for c in rsol0.calls if c[2] is not None and np.size(c[2])):
            rec.discard_case("prestep_too_large")
        base = [p.detach().clone().numpy() if not isinstance(p, pp.LieTensor) else p.tensor().detach().clone().numpy() for p in model.ps]
        for b in range(case["B"]):
            ok, why = c04._inspect(dict(case, inputs=[{"kind": i["kind"], "val": base[k_][b].tolist()} for k_, i in enumerate(case["inputs"])], cls="generic", dtype="float64"))
            if not ok:
                rec.discard_case("after_prestep:" + why)
        del rsol0.calls[:]
        if rstr0 is not None:
            del rstr0.before[:]
        try:
            Jt, r0, shapes = numeric_J(case, base)
        except Exception as e:
            rec.discard_case("forward_failed_after_prestep:%s" % type(e).__name__)
        if not (np.all(np.isfinite(Jt)) and np.all(np.isfinite(r0))) or np.abs(r0).max() > 1e3:
            rec.discard_case("forward_nonfinite")
        rec.label("prestep:" + case["prestep"])
    # ---- reference corrected residual / Jacobian / weight ---------------------------------
    kname, kd = case["kernel"], case["kdelta"]
    rows, Jc, rc, Wblocks = 0, [], [], []
    Ws = weights(case, shapes)
    for ri, ((Bn, m), W) in enumerate(zip(shapes, Ws)):
        n = Bn * m
        r = r0[rows:rows + n].reshape(Bn, m)
        J = Jt[rows:rows + n].reshape(Bn, m, -1)
        kname_i, kd_i = kernel_of(case, ri)
        if (kname_i, kd_i) != (kname, kd):
            rec.label("kernel_list:distinct")
        g1 = rho1(kname_i, kd_i, (r ** 2).sum(-1))
        s = np.sqrt(g1)[:, None]
        rc.append((s * r).reshape(-1))
        Jc.append((s[:, :, None] * J).reshape(n, -1))
        for b in range(Bn):
            Wblocks.append(np.eye(m) if W is None else (W if W.ndim == 2 else W[b]))
        rows += n
    rc, Jc = np.concatenate(rc), np.concatenate(Jc, 0)
    anyW = any(w is not None for w in Ws)
    Wfull = np.zeros((len(rc), len(rc)))
    o = 0
    for blk in Wblocks:
        Wfull[o:o + len(blk), o:o + len(blk)] = blk; o += len(blk)
    active_clamp = False
    if case["opt"] == "GN":
        # Gauss-Newton on a (numerically) rank-deficient system is ill-posed: the default pseudo-inverse keeps singular values of
        # round-off size and the step explodes (later NaN losses are a consequence, not a separate defect).  LM is regularised.
        sv0 = np.linalg.svd(Wfull @ Jc, compute_uv=False)
        # ... relative to the largest singular value AND absolutely: for a residual that is mathematically constant (X @ Inv(X),
        # Inv(Retr(Inv(Exp a), a)) ...) the true J is 0, pypose's autograd J is 1e-16 noise and this finite-difference J is 1e-13
        # noise - both look full rank with a harmless condition number and their pseudo-inverses have nothing in common (found by an
        # independent false-alarm audit).  Singular values below the noise floor of the reference are zeros.
        rmax = float(np.abs(r0).max()) if r0.size else 0.0
        floor = 1e-8 * (1.0 + rmax)
        if sv0.size and (sv0[0] < 10 * floor or sv0[-1] < max(1e-7 * sv0[0], floor)):
            rec.discard_case("gn_rank_deficient_system")
    # ---- run the optimizer ------------------------------------------------------------------
    if prebuilt is not None:
        model, opt, rsol, rstr, wlist, _ = prebuilt
    else:
        model = Model(case)
        opt, rsol, rstr, wlist, _ = build_optimizer(case, model, shapes)
    tg = targets(case, shapes)
    tgt = None if not case["target"] else tuple(torch.tensor(t) for t in tg)
    kw = {"weight": wlist} if case["weight_at_step"] else {}
    try:
        with rec.sut("%s.step" % case["opt"], allow=(Exception,)):
            loss = opt.step(torch.zeros(1), target=tgt, **kw)
    except Exception as e:
        if case["vectorize"] and isinstance(e, RuntimeError) and ("vmap" in str(e) or "batching rule" in str(e).lower()):
            # vectorize=True relies on torch.vmap, which pypose documents as only partially supported for its
            # autograd Functions: a loud refusal is not a wrong step
            rec.label("vectorize_unsupported")
            return
        if step_outside_domain(case, rsol):
            # a (nearly) singular system answered with an astronomically large step: Exp overflows (log-scale ~ 1e3), the
            # parameters become Inf/NaN and the next loss evaluation refuses them loudly.  Such steps are outside the stated
            # domain (bounded steps); the systems handed to the solver were still checked by other cases.
            rec.discard_case("huge_step_then_raise")
        rec.fail("raises:%s@%s" % (type(e).__name__, core_frame_of(e)), "%s.step raised %s: %s" % (case["opt"], type(e).__name__, str(e)[:300]))
        return
    huge = step_outside_domain(case, rsol)
    if huge:
        rec.label("huge_step:" + huge)
    after = [p.detach().clone().numpy() if not isinstance(p, pp.LieTensor) else p.tensor().detach().clone().numpy() for p in model.ps]
    for k, inp in enumerate(case["inputs"]):
        if inp["frozen"]:
            rec.check(np.array_equal(after[k], base[k]), "frozen_changed", "frozen parameter %d changed" % k)
    A_ref = Wfull @ Jc
    b_ref = -Wfull @ rc
    sv = np.linalg.svd(A_ref, compute_uv=False) if A_ref.size else np.zeros(0)
    cond = (sv[0] / sv[sv > sv[0] * 1e-13][-1]) if sv.size and sv[0] > 0 else 1.0
    rank_gap_ok = sv.size == 0 or not np.any((sv < sv[0] * 1e-4) & (sv > sv[0] * 1e-11))
    nt = (len(set(kinds)) >= 2) or anyW or kname is not None or frozen
    if case["opt"] == "GN":
        if not rec.check(len(rsol.calls) == 1, "gn_solver_calls", "GN made %d solver calls" % len(rsol.calls)):
            return
        A, b, x = rsol.calls[0]
        As = to_storage(case, A_ref)
        sc = max(1.0, float(np.abs(As).max()))
        eA = float(np.abs(A - As).max()) / sc
        rec.notes["gn_A"] = max(rec.notes.get("gn_A", 0), eA / tol)
        rec.check(eA <= tol, "gn_system_A", lambda: "GN: matrix handed to the solver differs from W J (reference) by %.3g relative" % eA)
        eb = float(np.abs(b.reshape(-1) - b_ref).max()) / max(1.0, float(np.abs(b_ref).max()))
        rec.check(eb <= tol, "gn_system_b", lambda: "GN: right-hand side differs from -W R by %.3g relative" % eb)
        # the applied step
        if case["solver"] == "PINV" and rank_gap_ok and cond < 1e6 and not huge:
            d_ref = np.linalg.pinv(A_ref, rcond=1e-12) @ b_ref
            if not np.all(np.isfinite(d_ref)) or (d_ref.size and float(np.abs(d_ref).max()) > STEP_LIMIT):
                rec.label("huge_step:reference")        # same domain limit as step_outside_domain(): Exp of it would overflow
                return
            want = retract(case, base, d_ref)
            e = param_distance(case, want, after)
            t_ = tol * cond * max(1.0, float(np.abs(d_ref).max()))
            rec.notes["gn_step"] = max(rec.notes.get("gn_step", 0), e / t_)
            rec.check(e <= t_, "gn_step:%s" % glt, lambda: "GN(PINV): parameters after the step differ from retract(p, pinv(WJ)(-WR)) by %.3g (tol %.3g, cond %.3g)" % (e, t_, cond))
        else:
            rec.label("gn:normal_eq_only")
            d = from_storage(case, x.reshape(-1))
            g = A_ref.T @ (A_ref @ d - b_ref)
            sc2 = max(1e-300, float(np.linalg.norm(A_ref, 2)) * (float(np.linalg.norm(A_ref, 2)) * float(np.linalg.norm(d)) + float(np.linalg.norm(b_ref))))
            fd_floor = 1e-8 * (1.0 + float(np.linalg.norm(A_ref, 2))) ** 2 * (1.0 + float(np.linalg.norm(d)))   # the reference J is a finite difference
            rec.check(float(np.linalg.norm(g)) <= 1e-6 * sc2 * max(1.0, cond * 1e-6) + fd_floor, "gn_normal_eq", lambda: "GN(%s): step is not a least-squares solution: |A^T(A d - b)| = %.3g" % (case["solver"], float(np.linalg.norm(g))))
            want = base if huge else retract(case, base, d)
            e = param_distance(case, want, after) if not huge else 0.0
            rec.check(e <= RETR_TOL * max(1.0, float(np.abs(d).max())), "gn_retraction:%s" % glt, lambda: "GN: parameters differ from the retraction of the solver's answer by %.3g" % e)
    else:
        if not rec.check(1 <= len(rsol.calls) <= case["reject"] + 1, "lm_trials", "LM made %d trials with reject=%d" % (len(rsol.calls), case["reject"])):
            return
        Js = to_storage(case, Jc)
        JTW = Js.T @ Wfull
        A0 = JTW @ Js
        dg = np.diag(A0).copy()
        cl = np.clip(dg, case["min"], case["max"])
        active_clamp = bool(np.any(cl != dg) and np.any((dg > 0) & (cl != dg)))
        A0[np.diag_indices_from(A0)] = cl
        b_lm = -(JTW @ rc)
        Ak = A0
        lam_seq = rstr.before if rstr.before else [None]
        for t_i, (A, b, x) in enumerate(rsol.calls):
            lam = lam_seq[t_i] if t_i < len(lam_seq) else lam_seq[-1]
            if lam is None:
                lam = opt.param_groups[0]["damping"]
            Ak = Ak + np.diag(np.diag(Ak) * float(lam))
            sc = max(1.0, float(np.abs(Ak).max()))
            eA = float(np.abs(A - Ak).max()) / sc
            rec.notes["lm_A"] = max(rec.notes.get("lm_A", 0), eA / tol)
            if not rec.check(eA <= tol, "lm_system_A", lambda: "LM trial %d: A differs from the damped recursion on clamp_diag(J^T W J) by %.3g relative (damping %.3g, min %.3g max %.3g)" % (t_i, eA, lam, case["min"], case["max"])):
                return
            eb = float(np.abs(b.reshape(-1) - b_lm).max()) / max(1.0, float(np.abs(b_lm).max()))
            if not rec.check(eb <= tol, "lm_system_b", lambda: "LM trial %d: b differs from -J^T W R by %.3g relative" % (t_i, eb)):
                return
        if rsol.calls[-1][2] is None:
            # the configured solver refused the system (loud): the call must end with the parameters untouched
            rec.label("solver_raised")
            e0 = param_distance(case, base, after)
            rec.check(e0 <= 1e-9, "lm_solver_raise_restores", "LM: solver raised but parameters moved by %.3g" % e0)
            if nt:
                rec.nt((kinds, glt, "solver_raised", case["solver"], case["strategy"]))
            return
        # final parameters: a call that did not raise always ends with the LAST trial's answer applied (a rejected trial is undone
        # and another one follows; the last one allowed is kept whatever its loss): "unchanged" is not an acceptable outcome -
        # an update that is never applied, or always undone, must be reported.  Every rejected trial contributes one
        # Exp(-D) Exp(D) pair, which pypose evaluates to the identity only at Exp's accuracy (RETR_TOL |D| each).
        d_last = from_storage(case, rsol.calls[-1][2].reshape(-1))
        stepped = base if huge else retract(case, base, d_last)      # (the reference Exp of a huge step overflows - it is not compared, below)
        e1, e0 = param_distance(case, stepped, after), param_distance(case, base, after)
        dmax = max(float(np.abs(c[2]).max()) if c[2] is not None and c[2].size else 0.0 for c in rsol.calls)
        t_ = RETR_TOL * max(1.0, dmax) * len(rsol.calls)
        if huge:
            e1 = 0.0        # not comparable: Exp of such a step overflows or (Sim3) leaves the documented truncation range
        rec.notes["lm_update"] = max(rec.notes.get("lm_update", 0), e1 / t_)
        rec.check(e1 <= t_, "lm_update:%s" % glt, lambda: "LM: parameters after the step differ from the retraction of the last solve by %.3g (tol %.3g; distance from the parameters before the call %.3g, %d trials)" % (e1, t_, e0, len(rsol.calls)))
        # the solver's answer itself must solve its system (checks the wrapper saw the real call)
        A, b, x = rsol.calls[-1]
        if case["solver"] in ("Cholesky", "PINV", "LSTSQ"):
            condA = float(np.linalg.cond(A))
            res = float(np.abs(A @ x - b).max()) / max(1e-300, float(np.abs(A).max()) * float(np.abs(x).max()) + float(np.abs(b).max()))
            # (this is torch's solver accuracy seen through pypose's wrapper, not a pypose claim: an explicit pinv(A) @ b leaves a
            # residual of ~2 eps cond(A), hence the generous constant above cond 1e7)
            rec.check(res <= 1e-8 * max(1.0, condA * 1e-7) or condA > 1e12, "lm_solve", lambda: "LM: solver answer has relative residual %.3g" % res)
        nt = nt or active_clamp
        if active_clamp:
            rec.label("active_clamp")
    if nt:
        rec.nt((kinds, glt, tuple(case["weights"]), kname, case["corrector"], case["opt"], case["solver"], case["strategy"], case["vectorize"], frozen, active_clamp))


class Models(Sub):
    name = "models"
    n = {"quick": 800, "thorough": 40000}
    budget_s = {"quick": 150.0, "thorough": 3000.0}

    def strategy(self, tier):
        return model_case(tier)

    def oracle(self, case, rec):
        check_model(case, rec)

    def valid(self, case):
        glt = case["ltype"]
        for i in case["inputs"]:
            if i["kind"] == "G" and not gen.valid_groups(glt, i["val"], "float64"):
                return False
            if len(i["val"]) != case["B"]:
                return False
        if not (1e-9 <= case["damping"] <= 1e3 and 0 < case["min"] <= case["max"] and 0.01 <= case["kdelta"] <= 10):
            return False
        for b in range(case["B"]):
            ok, _ = c04._inspect(dict(case, inputs=[{"kind": i["kind"], "val": i["val"][b]} for i in case["inputs"]], cls="generic", dtype="float64"))
            if not ok:
                return False
        return True

    def simplify(self, case):
        for k in range(len(case["nodes"]) - 1, 0, -1):
            yield dict(case, nodes=case["nodes"][:k])
        if case["kernel"]:
            yield dict(case, kernel=None, corrector="auto")
        if any(case["weights"]):
            yield dict(case, weights=[None] * len(case["weights"]))
        if case["out2"]:
            yield dict(case, out2=False, weights=case["weights"][:1])
        if case["mix"]:
            yield dict(case, mix=False)
        if case["target"]:
            yield dict(case, target=False)
        if case["B"] > 1:
            yield dict(case, B=1, inputs=[dict(i, val=i["val"][:1]) for i in case["inputs"]])


SUBS = [Models()]


def selftest():
    # closed-form rho' against a numerical derivative of rho
    for k in KERNELS:
        for x in (0.3, 2.0, 7.0):
            h = 1e-6
            fd = (rho0(k, 0.9, x + h) - rho0(k, 0.9, x - h)) / (2 * h)
            assert abs(fd - rho1(k, 0.9, x)) < 1e-7, (k, x)


# ------------------------------------------------------------------------------------
# weights in every documented broadcastable shape on residuals with several leading dimensions
class PosePoints(nn.Module):
    def __init__(self, X0, t0, pts, glt):
        super().__init__()
        self.X = pp.Parameter(pp.LieTensor(torch.tensor(X0), ltype=tu.LT[glt]))
        self.t = nn.Parameter(torch.tensor(t0))
        self.pts = torch.tensor(pts)

    def forward(self, dummy):
        B = self.X.shape[0]
        X = self.X.view(B, 1, 1, -1) if not isinstance(self.X, pp.LieTensor) else self.X.lview(B, 1, 1)
        return X.Act(self.pts) + self.t          # (B, M, N, 3)


class WeightShapes(Sub):
    """residual of shape B x M x N x R with weights R*R, N*R*R, M*N*R*R, B*M*N*R*R (distinct SPD slices): the system handed to the
    solver must be built with the weight broadcast trailing-aligned over the residual's leading dimensions"""
    name = "weight_shapes"
    n = {"quick": 400, "thorough": 12000}

    def strategy(self, tier):
        return st.fixed_dictionaries({"seed": st.integers(0, 10 ** 7), "glt": st.sampled_from(("SE3", "SO3")), "B": st.integers(1, 3), "M": st.integers(1, 3),
                                      "N": st.integers(1, 3), "wshape": st.sampled_from(("RR", "NRR", "MNRR", "BMNRR")), "opt": st.sampled_from(("GN", "LM")),
                                      "at_step": st.booleans(), "vectorize": st.booleans(), "kernel": st.sampled_from((None, None, "Huber", "Cauchy"))})

    def oracle(self, case, rec):
        glt, B, M, N = case["glt"], case["B"], case["M"], case["N"]
        rs = np.random.RandomState(case["seed"])
        q = rs.randn(B, 4); q /= np.linalg.norm(q, axis=1, keepdims=True)
        X0 = np.concatenate([rs.randn(B, 3), q], 1) if glt == "SE3" else q
        t0 = rs.randn(3)
        pts = rs.randn(M, N, 3)
        tgt = rs.randn(B, M, N, 3)
        lead = {"RR": (), "NRR": (N,), "MNRR": (M, N), "BMNRR": (B, M, N)}[case["wshape"]]
        nW = int(np.prod(lead)) if lead else 1
        Ws = []
        for _ in range(nW):
            Q, _r = np.linalg.qr(rs.randn(3, 3))
            Ws.append(Q @ np.diag(10.0 ** rs.uniform(-1, 1, size=3)) @ Q.T)
        W = np.stack(Ws).reshape(lead + (3, 3))
        Wfull_blocks = np.broadcast_to(W, (B, M, N, 3, 3)).reshape(-1, 3, 3)
        # reference residual and analytic left-perturbation Jacobian (numpy only)
        td = 6 if glt == "SE3" else 3
        sd = 7 if glt == "SE3" else 4
        nres = B * M * N * 3
        r = np.zeros((B, M, N, 3)); Jt = np.zeros((nres, B * td + 3))
        row = 0
        for b in range(B):
            Rm = R.qrot(X0[b, -4:]); tb = X0[b, :3] if glt == "SE3" else np.zeros(3)
            for m in range(M):
                for n_ in range(N):
                    y = Rm @ pts[m, n_] + tb
                    r[b, m, n_] = y + t0 - tgt[b, m, n_]
                    blk = np.concatenate([np.eye(3), -R.skew(y)], 1) if glt == "SE3" else -R.skew(y)
                    Jt[row:row + 3, b * td:(b + 1) * td] = blk
                    Jt[row:row + 3, B * td:] = np.eye(3)
                    row += 3
        kname, kd = case["kernel"], 1.0
        g1 = rho1(kname, kd, (r ** 2).sum(-1)).reshape(-1)
        s = np.repeat(np.sqrt(g1), 3)
        rc = s * r.reshape(-1)
        Jc = s[:, None] * Jt
        Wfull = np.zeros((nres, nres))
        for i, blk in enumerate(Wfull_blocks):
            Wfull[3 * i:3 * i + 3, 3 * i:3 * i + 3] = blk
        # storage coordinates: zero column after every group item's tangent block
        Js = np.zeros((nres, B * sd + 3))
        for b in range(B):
            Js[:, b * sd:b * sd + td] = Jc[:, b * td:(b + 1) * td]
        Js[:, B * sd:] = Jc[:, B * td:]
        model = PosePoints(X0, t0, pts, glt)
        rsol = RecSolver(pp.optim.solver.PINV() if case["opt"] == "GN" else pp.optim.solver.Cholesky())
        kobj = KERNELS[kname](kd) if kname else None
        Wt = torch.tensor(W)
        kw0 = {} if case["at_step"] else {"weight": Wt}
        if case["opt"] == "GN":
            opt = pp.optim.GN(model, solver=rsol, kernel=kobj, vectorize=case["vectorize"], **kw0)
        else:
            opt = pp.optim.LM(model, solver=rsol, strategy=pp.optim.strategy.Constant(damping=1e-3), kernel=kobj, vectorize=case["vectorize"], reject=0, min=1e-9, max=1e32, **kw0)
        try:
            with rec.sut("%s.step(weight %s)" % (case["opt"], case["wshape"]), allow=(RuntimeError,) if case["vectorize"] else ()):
                opt.step(torch.zeros(1), target=torch.tensor(tgt), **({"weight": Wt} if case["at_step"] else {}))
        except RuntimeError as e:
            if "vmap" in str(e):
                rec.label("vectorize_unsupported")
                return
            rec.fail("raises:RuntimeError:step", str(e)[:300])
            return
        rec.label(glt, case["opt"], "w:" + case["wshape"], "B%dM%dN%d" % (B, M, N))
        distinct = nW > 1
        if distinct and case["wshape"] in ("NRR", "MNRR") and B * M > 1:
            rec.nt(("wshape", glt, case["opt"], case["wshape"], B, M, N, kname, case["at_step"]))
        if not rec.check(len(rsol.calls) >= 1, "no_solve", "no solver call recorded"):
            return
        A, b_, x = rsol.calls[0]
        if case["opt"] == "GN":
            Aref, bref = Wfull @ Js, -Wfull @ rc
        else:
            JTW = Js.T @ Wfull
            A0 = JTW @ Js
            A0[np.diag_indices_from(A0)] = np.clip(np.diag(A0), 1e-9, 1e32)
            Aref, bref = A0 + np.diag(np.diag(A0) * 1e-3), -(JTW @ rc)
        eA = float(np.abs(A - Aref).max()) / max(1.0, float(np.abs(Aref).max()))
        eb = float(np.abs(b_.reshape(-1) - bref).max()) / max(1.0, float(np.abs(bref).max()))
        rec.notes["ws_A"] = max(rec.notes.get("ws_A", 0), eA / 1e-9)
        rec.check(eA <= 1e-9, "weighted_system_A:%s" % case["wshape"], lambda: "%s with weight shape %s on a %dx%dx%dx3 residual: solver matrix differs from the reference (trailing-aligned weight broadcast) by %.3g" % (case["opt"], case["wshape"], B, M, N, eA))
        rec.check(eb <= 1e-9, "weighted_system_b:%s" % case["wshape"], lambda: "%s with weight shape %s: right-hand side differs from the reference by %.3g" % (case["opt"], case["wshape"], eb))


SUBS.append(WeightShapes())
