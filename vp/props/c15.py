"""C15 - dynamics follow their equations; the NLS linearisation is exact at the reference point."""
import functools
import math
import json

import numpy as np
import sympy as sp
import torch
import pypose as pp
from hypothesis import strategies as st

from ..core import Sub
from ..ref import dynamics as RD
from .. import tu

PROPERTY = "C15"
RULE = (
    "lti_ltv: pp.module.LTI and an LTV subclass with time-indexed stacks (the LTV docstring recipe "
    "self._A[..., self._t % T, :, :], also for c1/c2), dims n,m,p in 1..6, a full batch shape of rank 0..3 (extents 1..3; "
    "rank >= 2 has about a quarter of the quick budget) and for each of A,B,C,D,c1,c2,x,u its own batch shape: modes "
    "all / mats only / vecs only / mix (each operand independently full or unbatched) / bcast (each operand independently "
    "full, unbatched, a trailing part of the full shape, or the full shape with extents replaced by 1); c1/c2 optionally "
    "None, float64/float32 data expanded from a drawn integer seed, start time set by reset/systime, 1..4 consecutive "
    "calls; outputs must equal A x + B u + c1 and C x + D u + c2 of the harness's own numpy einsum (broadcast over the "
    "batch axes; LTV: matrices indexed by the reference clock at call time) within 8 (n+m+2) eps (|A||x|+|B||u|+|c1|) "
    "componentwise, and the clock must read +1 after each call (the reference clock starts from the value a new system "
    "shows: only the NLS docstring states 0). clock: one LTI / LTV / NLS object driven by a Hypothesis-generated JSON op "
    "list (1..24 ops, thorough 1..60) over the rules forward(x,u), reset(t) (int or caller-held int64 tensor), reset(), "
    "systime = t (int and 0-D tensor), set_refpoint with every None-combination of (state,input,t) for all three kinds, "
    "plus the observation 'lin' (read A,B,C,D,c1,c2); the NLS is one of 6 hand-written systems or (1/6 of the NLS cases "
    "quick, 1/3 thorough) a random expression tree as in 'nls' with n,m,p <= 3; LTI/LTV unbatched, or batch (2,) / (3,2) "
    "on all operands / on the matrices only / on x,u only; reference = integer clock (+1 per call, reset/assignment set "
    "it); after every op int(systime) must equal the model; after set_refpoint(t given) both readings 'time unchanged' "
    "and 'time = t' are accepted (undocumented) and the model resynchronises to the observed one, with t=None the time "
    "must be unchanged; forward outputs are compared with the reference equations evaluated at the model time; LTI/LTV: "
    "after set_refpoint and at 'lin' the properties A..c2 are the matrices of the OBSERVED clock value; NLS: after "
    "set_refpoint and at every 'lin' (also after the clock moved on) the linearisation is compared with sympy Jacobians "
    "at the tracked reference point (x*, u*, t* or the time at which set_refpoint(t=None) was called). set_refpoint must "
    "return the module (documented); reset must return the system or an instance of its class showing the time set (the "
    "NLS docstring example chains it). nls: random f,g as sympy expression trees (sums of <=3 products of powers "
    "x^k,u^k (k<=3), sin/cos(w x), sin/cos(w u), t/8, sin/cos(w t)), n,m,p in 1..4, lambdified to torch "
    "shape-agnostically in t; float64 (2/3) or float32 (1/3) states; reference points incl. zero state / zero input, t* "
    "an integer value as int64 or float64 tensor, current time set through reset/systime/forward calls, every "
    "None-combination of set_refpoint arguments, optional forward between set_refpoint and reading; float64: A,B,C,D "
    "must equal the symbolic partial Jacobians (|err| <= 1e-9 max(1,|J|)), A x*+B u*+c1 = f(x*,u*,t*) and C x*+D u*+c2 = g "
    "within 64 eps (sum|terms| + |A||x*|+|B||u*|+|c1|); float32: derived componentwise tolerances 2 eps S with S the "
    "first-order round-off scale of the term list / of its product-rule derivative paths (vp/ref/dynamics.py: powers "
    "k+1, sin/cos |argument|+2 relative to the bound 1, one eps per product and per addend) plus 8 (n+m+2) eps "
    "(|A||x*|+|B||u*|+|c1|) for c1 = f* - A x* - B u*; the affine model's error E(d) along a random unit direction obeys "
    "the Taylor bound E(d) <= 1.1 (d^2/2)(sup|phi''| + d sup|phi'''|/32) + round-off for d = delta, delta/4 (delta in "
    "{0.1,0.05,0.02,0.01}) and E(dr/4)/E(dr) <= 0.13 for dr = min(delta, 0.75 |phi''(0)|/sup|phi'''|) (regime in which "
    "2nd order provably dominates; skipped when E(dr) < 1e-9, phi''(0) = 0, or in float32 E(dr) < 64 x round-off). "
    "linalg: bmv/bvv/bvmv on broadcastable batch shapes (rank <= 3, extents 1..3, dims 1..5, float64/float32) equal "
    "numpy einsum within 8 (n+m) eps |.||.|, shapes as documented. "
    "Non-trivial: clock histories mixing >= 3 different rule families; NLS with time-dependent f or g and "
    "t* != current system time; LTI/LTV with at least one batched matrix (or LTV started at t0 > 0); linalg with "
    "differing operand batch shapes. Distinct = (sub-check, kind, dims, per-operand batch shapes / rule set and None "
    "patterns / system (library index or tree dims + atom-kind set), argument pattern, dtype).")
ASSUMPTIONS = [
    "time values are non-negative integers: int or 0-D int64 tensor; the NLS reference time is a 0-D int64 or float64 tensor "
    "holding an integer value (documented: 'Tensor', 'the reference time step'; the cart-pole test passes a float tensor). "
    "Non-integer reference times are not documented and are not generated",
    "set_refpoint(state=None / input=None) on an NLS only after at least one forward call (there is no 'most recent' state before)",
    "NLS state/input unbatched 1-D: the NLS docs say nothing about batches and the autograd Jacobian of a batched state "
    "is not the documented linearisation",
    "LTI/LTV operands: 'a single matrix or batched matrices ... dimensions must be consistent so that they can be multiplied "
    "for each channel' is read as: batch shapes that broadcast together (the equations are evaluated with pp.bmv, "
    "documented as broadcasting)",
    "the effect of set_refpoint(t given) on systime is undocumented: 'unchanged' and 'set to t' are both accepted, and an "
    "LTV's matrices are compared at whichever clock value is observed",
    "the start value of the clock is documented for NLS only ('starting from 0'); for LTI/LTV the reference clock starts "
    "from the value read after construction",
    "LTV.set_refpoint(t=None) and reading the NLS linearisation after the clock moved following set_refpoint(t=None) "
    "(findings F17 / F18, fixed in /repo) are generated and asserted unconditionally",
]

LTV_NONE_KEY = "ltv_set_refpoint_t_none"
ALIAS_KEY = "nls_ref_t_alias"


def _t(a, dtype):
    return torch.tensor(np.asarray(a), dtype=tu.TD[dtype])


def _rnd(rs, shape, dtype):
    a = rs.randn(*shape) if len(shape) else np.array(rs.randn())
    return a.astype(np.float32).astype(np.float64) if dtype == "float32" else a.astype(np.float64)


def _close(rec, got, exp, tol, bucket, what):
    """componentwise |got-exp| <= tol ; returns worst ratio"""
    got = np.asarray(got, dtype=np.float64)
    if not rec.check(tuple(got.shape) == tuple(exp.shape), bucket + ":shape",
                     "%s has shape %s, expected %s" % (what, tuple(got.shape), tuple(exp.shape))):
        return None
    if not rec.check(bool(np.all(np.isfinite(got))), bucket + ":nonfinite", "%s is not finite" % what):
        return None
    err = np.abs(got - exp)
    tol = np.broadcast_to(np.asarray(tol, dtype=np.float64), err.shape)
    ratio = float(np.max(err / tol)) if err.size else 0.0
    rec.check(ratio <= 1.0, bucket, lambda: "%s deviates from the reference by %.3g (tolerance %.3g) at flat index %d"
              % (what, float(err.flat[int(np.argmax(err / tol))]), float(tol.flat[int(np.argmax(err / tol))]),
                 int(np.argmax(err / tol))))
    return ratio


def _note(rec, key, v):
    if v is not None:
        rec.notes[key] = max(rec.notes.get(key, 0.0), float(v))


def _read_time(rec, system, what):
    with rec.sut("systime after " + what):
        t = system.systime
        v = int(t)
        ok = float(t) == v
    rec.check(ok, "clock:nonint", "systime %r is not an integer after %s" % (t, what))
    return v


# =====================================================================================================
# linear systems
class TimeIndexedLTV(pp.module.LTV):
    """the LTV docstring recipe (periodic time-indexed stacks), extended to c1 / c2"""

    def __init__(self, A, B, C, D, c1, c2, T):
        super().__init__(A, B, C, D, c1, c2)
        self.T = T

    @property
    def A(self):
        return self._A[..., self._t % self.T, :, :]

    @property
    def B(self):
        return self._B[..., self._t % self.T, :, :]

    @property
    def C(self):
        return self._C[..., self._t % self.T, :, :]

    @property
    def D(self):
        return self._D[..., self._t % self.T, :, :]

    @property
    def c1(self):
        return None if self._c1 is None else self._c1[..., self._t % self.T, :]

    @property
    def c2(self):
        return None if self._c2 is None else self._c2[..., self._t % self.T, :]


LIN_NAMES = ("A", "B", "C", "D", "c1", "c2")


class LinSys:
    """data + system under test + reference access for one LTI / LTV configuration"""

    def __init__(self, kind, n, m, p, shapes, has_c1, has_c2, T, dtype, seed):
        """shapes: batch shape of each of A, B, C, D, c1, c2, x, u (missing = unbatched); they must broadcast together"""
        self.kind, self.n, self.m, self.p, self.T, self.dtype = kind, n, m, p, T, dtype
        self.shapes = {k: tuple(shapes.get(k, ())) for k in LIN_NAMES + ("x", "u")}
        rs = np.random.RandomState(seed % (2 ** 31))
        tdim = (T,) if kind == "ltv" else ()
        dims = {"A": (n, n), "B": (n, m), "C": (p, n), "D": (p, m), "c1": (n,), "c2": (p,)}
        self.np = {}
        for k in LIN_NAMES:
            b = self.shapes[k]
            a = _rnd(rs, b + tdim + dims[k], dtype)
            if (k == "c1" and not has_c1) or (k == "c2" and not has_c2):
                a = None
            self.np[k] = a
        tt = {k: (None if v is None else _t(v, dtype)) for k, v in self.np.items()}
        if kind == "ltv":
            self.sys = TimeIndexedLTV(tt["A"], tt["B"], tt["C"], tt["D"], tt["c1"], tt["c2"], T)
        else:
            self.sys = pp.module.LTI(tt["A"], tt["B"], tt["C"], tt["D"], tt["c1"], tt["c2"])

    def at(self, k, t):
        """reference value of matrix k at integer time t"""
        a = self.np[k]
        if a is None or self.kind != "ltv":
            return a
        ax = a.ndim - (3 if k in "ABCD" else 2)
        return np.take(a, t % self.T, axis=ax)

    def draw_xu(self, rs):
        x = _rnd(rs, self.shapes["x"] + (self.n,), self.dtype)
        u = _rnd(rs, self.shapes["u"] + (self.m,), self.dtype)
        return x, u

    def check_step(self, rec, x, u, t, z, y, tag):
        eps = tu.EPS[self.dtype]
        A, B, C, D, c1, c2 = (self.at(k, t) for k in LIN_NAMES)
        c = 8 * (self.n + self.m + 2) * eps
        ze, zm = RD.affine(A, x, B, u, c1), RD.affine_mag(A, x, B, u, c1)
        ye, ym = RD.affine(C, x, D, u, c2), RD.affine_mag(C, x, D, u, c2)
        r1 = _close(rec, tu.npy(z), ze, c * zm + 1e-300, "state_eq:%s:%s" % (self.kind, self.dtype),
                    "%s next state at t=%d" % (tag, t))
        r2 = _close(rec, tu.npy(y), ye, c * ym + 1e-300, "obs_eq:%s:%s" % (self.kind, self.dtype),
                    "%s observation at t=%d" % (tag, t))
        _note(rec, "lin_err/tol", r1)
        _note(rec, "lin_err/tol", r2)

    def check_matrices(self, rec, t, tag):
        """sys.A ... sys.c2 are the matrices of time t"""
        for k in LIN_NAMES:
            with rec.sut("%s.%s" % (self.kind, k)):
                got = getattr(self.sys, k)
            exp = self.at(k, t)
            if exp is None:
                rec.check(got is None, "matrices:%s" % self.kind, "%s: %s should be None" % (tag, k))
                continue
            if not rec.check(got is not None, "matrices:%s" % self.kind, "%s: %s is None" % (tag, k)):
                continue
            g = tu.npy(got)
            rec.check(g.shape == exp.shape and np.array_equal(g, exp), "matrices:%s" % self.kind,
                      "%s: property %s is not the matrix of time %d" % (tag, k, t))


ALL_NAMES = LIN_NAMES + ("x", "u")
BATCHES = {   # full batch shape of a case; rank >= 2 and rank 3 get a small share of the quick budget
    "quick": ([], [1], [2], [3], [2], [3], [2], [3], [2, 3], [3, 1], [1, 2], [2, 2, 2]),
    "thorough": ([], [1], [2], [3], [2], [3], [2, 3], [3, 2], [3, 1], [1, 2], [2, 2], [2, 1, 3], [1, 3, 2], [2, 2, 2])}


def _shapes_from_mask(batch, mask):
    return {k: (list(batch) if mask.get(k) else []) for k in ALL_NAMES}


def _batch_shapes(draw, tier):
    """(full batch shape, mode, batch shape of each of A..c2, x, u).  The LTI / LTV docs: every operand is 'a single
    matrix or batched matrices', batch dimensions 'consistent so that they can be multiplied for each channel'; the
    equations are evaluated with pp.bmv, documented as broadcasting.  modes: all / mats / vecs = that group carries
    the full batch shape, the rest is unbatched; mix = each operand independently full or unbatched; bcast = each
    operand independently full / unbatched / a trailing part of the full shape / the full shape with some extents
    replaced by 1 (all broadcast to the full shape or a part of it)."""
    batch = list(draw(st.sampled_from(BATCHES[tier])))
    if not batch:
        return batch, "none", {k: [] for k in ALL_NAMES}
    mode = draw(st.sampled_from(("all", "mats", "vecs", "mix", "mix", "bcast")))
    if mode == "all":
        mask = {k: True for k in ALL_NAMES}
    elif mode == "mats":
        mask = {k: k not in ("x", "u") for k in ALL_NAMES}
    elif mode == "vecs":
        mask = {k: k in ("x", "u") for k in ALL_NAMES}
    elif mode == "mix":
        mask = {k: draw(st.booleans()) for k in ALL_NAMES}
    else:
        shapes = {}
        for k in ALL_NAMES:
            how = draw(st.sampled_from(("full", "none", "tail", "ones")))
            if how == "full":
                shapes[k] = list(batch)
            elif how == "none":
                shapes[k] = []
            elif how == "tail":
                shapes[k] = list(batch[draw(st.integers(0, len(batch))):])
            else:
                shapes[k] = [e if draw(st.booleans()) else 1 for e in batch]
        return batch, mode, shapes
    return batch, mode, _shapes_from_mask(batch, mask)


def _case_shapes(case):
    """batch shapes of a lti_ltv case (cases written before 'bshape' existed carry batch + mask only)"""
    if "bshape" in case:
        return {k: list(case["bshape"].get(k, [])) for k in ALL_NAMES}
    return _shapes_from_mask(case["batch"], case["mask"])


class LtiLtv(Sub):
    name = "lti_ltv"
    n = {"quick": 4000, "thorough": 120000}

    def strategy(self, tier):
        @st.composite
        def s(draw):
            kind = draw(st.sampled_from(("lti", "ltv")))
            batch, bmode, shapes = _batch_shapes(draw, tier)
            return {"kind": kind, "n": draw(st.integers(1, 6)), "m": draw(st.integers(1, 6)), "p": draw(st.integers(1, 6)),
                    "batch": batch, "bmode": bmode, "bshape": shapes, "mask": {k: bool(v) for k, v in shapes.items()},
                    "c1": draw(st.booleans()), "c2": draw(st.booleans()),
                    "T": draw(st.integers(1, 5)) if kind == "ltv" else 1,
                    "t0": draw(st.one_of(st.just(0), st.integers(0, 12))),
                    "t0how": draw(st.sampled_from(("reset", "systime", "systime_tensor"))),
                    "steps": draw(st.integers(1, 4)), "dtype": draw(st.sampled_from(("float64", "float64", "float32"))),
                    "seed": draw(st.integers(0, 2 ** 31 - 1))}
        return s()

    def valid(self, case):
        sh = list(_case_shapes(case).values())
        return (all(1 <= case[k] <= 6 for k in "nmp") and case["T"] >= 1 and case["t0"] >= 0 and case["steps"] >= 1
                and (case["kind"] == "ltv" or case["T"] == 1)
                and all(len(b) <= 3 and all(1 <= e <= 3 for e in b) for b in sh) and _bcast_ok(*sh))

    def oracle(self, case, rec):
        shapes = _case_shapes(case)
        L = LinSys(case["kind"], case["n"], case["m"], case["p"], shapes, case["c1"], case["c2"],
                   case["T"], case["dtype"], case["seed"])
        ck = RD.Clock()
        # the start value of the clock of an LTI / LTV is not documented (only the NLS docstring says "starting from 0"):
        # the reference clock starts from the value the new system shows
        ck.set(_read_time(rec, L.sys, "construction"))
        if ck.t != 0:
            rec.label("initial_clock_nonzero")
        t0 = case["t0"]
        if t0 or case["t0how"] != "reset":
            with rec.sut("set start time"):
                if case["t0how"] == "reset":
                    L.sys.reset(t0)
                elif case["t0how"] == "systime":
                    L.sys.systime = t0
                else:
                    L.sys.systime = torch.tensor(t0)
            ck.set(t0)
        rs = np.random.RandomState((case["seed"] // 7 + 13) % (2 ** 31))
        for i in range(case["steps"]):
            x, u = L.draw_xu(rs)
            tnow = ck.call()
            with rec.sut("%s forward" % case["kind"]):
                z, y = L.sys(_t(x, case["dtype"]), _t(u, case["dtype"]))
            L.check_step(rec, x, u, tnow, z, y, "step %d:" % i)
            got = _read_time(rec, L.sys, "call %d" % i)
            if not rec.check(got == ck.t, "clock:forward:%s" % case["kind"],
                             "after call %d started at t=%d the system time is %d, expected %d" % (i, tnow, got, ck.t)):
                return
        present = {k: tuple(v) for k, v in shapes.items()
                   if not ((k == "c1" and not case["c1"]) or (k == "c2" and not case["c2"]))}
        mats_b = any(present[k] for k in "ABCD")
        vecs_b = bool(present["x"] or present["u"])
        distinct = {v for v in present.values() if v}
        rec.label(case["kind"], case["dtype"], "batch%s" % case["batch"], "mats_batched" if mats_b else "mats_single",
                  "c1" if case["c1"] else "no_c1", "bmode:%s" % case.get("bmode", "mask"),
                  "batch_rank%d" % max(len(v) for v in present.values()),
                  "mats%s_vecs%s" % ("B" if mats_b else "-", "B" if vecs_b else "-"))
        if len({bool(present[k]) for k in "ABCD"}) > 1:
            rec.label("mats_mixed(batched+unbatched)")
        if len(distinct) > 1:
            rec.label("bcast:differing_batch_shapes")
        if mats_b or (case["kind"] == "ltv" and t0 > 0):
            rec.nt(("lin", case["kind"], case["n"], case["m"], case["p"], tuple(case["batch"]),
                    tuple(sorted((k, v) for k, v in present.items() if v)), case["c1"], case["c2"], case["dtype"],
                    case["T"], t0 % case["T"]))

    def simplify(self, case):
        for k in ("n", "m", "p", "steps", "T"):
            if case[k] > 1 and not (k == "T" and case["kind"] == "lti"):
                yield dict(case, **{k: 1})
                yield dict(case, **{k: case[k] - 1})
        if case["t0"] > 0:
            yield dict(case, t0=0)
            yield dict(case, t0=case["t0"] - 1)
        shapes = _case_shapes(case)
        if any(shapes.values()):
            def with_shapes(sh):
                return dict(case, bshape=sh, mask={k: bool(v) for k, v in sh.items()})
            yield dict(with_shapes({k: [] for k in shapes}), batch=[], bmode="none")
            yield with_shapes({k: v[1:] if len(v) == max(len(w) for w in shapes.values()) else v for k, v in shapes.items()})
            for k, v in shapes.items():
                if v:
                    yield with_shapes(dict(shapes, **{k: []}))
                    yield with_shapes(dict(shapes, **{k: v[1:]}))
        for k in ("c1", "c2"):
            if case[k]:
                yield dict(case, **{k: False})
        if case["kind"] == "ltv" and case["T"] == 1:
            yield dict(case, kind="lti")
        if case["dtype"] != "float64":
            yield dict(case, dtype="float64")
        if case["seed"]:
            yield dict(case, seed=0)


# =====================================================================================================
# batched mat-vec helpers
def _bcast_ok(*shapes):
    try:
        np.broadcast_shapes(*[tuple(s) for s in shapes])
        return True
    except ValueError:
        return False


class Linalg(Sub):
    name = "linalg"
    n = {"quick": 4000, "thorough": 120000}

    def strategy(self, tier):
        @st.composite
        def s(draw):
            full = draw(st.lists(st.integers(1, 3), min_size=0, max_size=3))

            def sub():
                mode = draw(st.sampled_from(("full", "full", "drop", "ones", "none")))
                if mode == "full":
                    return list(full)
                if mode == "none":
                    return []
                if mode == "drop":
                    return list(full[draw(st.integers(0, len(full))):])
                return [e if draw(st.booleans()) else 1 for e in full]
            return {"fn": draw(st.sampled_from(("bmv", "bvv", "bvmv"))), "n": draw(st.integers(1, 5)), "m": draw(st.integers(1, 5)),
                    "b": [sub(), sub(), sub()], "dtype": draw(st.sampled_from(("float64", "float32"))),
                    "seed": draw(st.integers(0, 2 ** 31 - 1))}
        return s()

    def valid(self, case):
        nb = {"bmv": 2, "bvv": 2, "bvmv": 3}[case["fn"]]
        return (_bcast_ok(*case["b"][:nb]) and 1 <= case["n"] <= 5 and 1 <= case["m"] <= 5
                and all(1 <= e <= 3 for b in case["b"] for e in b))

    def oracle(self, case, rec):
        fn, n, m, dtype = case["fn"], case["n"], case["m"], case["dtype"]
        b = [tuple(x) for x in case["b"]]
        rs = np.random.RandomState(case["seed"] % (2 ** 31))
        eps = tu.EPS[dtype]
        c = 8 * (n + m) * eps
        if fn == "bmv":
            M, v = _rnd(rs, b[0] + (n, m), dtype), _rnd(rs, b[1] + (m,), dtype)
            with rec.sut("bmv"):
                got = pp.bmv(_t(M, dtype), _t(v, dtype))
            exp = np.einsum("...ij,...j->...i", M, v)
            mag = np.einsum("...ij,...j->...i", np.abs(M), np.abs(v))
            used = b[:2]
        elif fn == "bvv":
            l, r = _rnd(rs, b[0] + (n,), dtype), _rnd(rs, b[1] + (m,), dtype)
            with rec.sut("bvv"):
                got = pp.bvv(_t(l, dtype), _t(r, dtype))
            exp = np.einsum("...i,...j->...ij", l, r)
            mag = np.abs(exp)
            used = b[:2]
        else:
            l, M, r = _rnd(rs, b[0] + (n,), dtype), _rnd(rs, b[1] + (n, m), dtype), _rnd(rs, b[2] + (m,), dtype)
            with rec.sut("bvmv"):
                got = pp.bvmv(_t(l, dtype), _t(M, dtype), _t(r, dtype))
            exp = np.einsum("...i,...ij,...j->...", l, M, r)
            mag = np.einsum("...i,...ij,...j->...", np.abs(l), np.abs(M), np.abs(r))
            if exp.ndim == 0:          # documented: "(...) or at least a 1D tensor"
                exp, mag = exp.reshape(1), mag.reshape(1)
            used = b[:3]
        r_ = _close(rec, tu.npy(got), exp, c * mag + 1e-300, "linalg:%s:%s" % (fn, dtype), fn)
        _note(rec, "linalg_err/tol", r_)
        rec.label(fn, dtype, "rank%d" % max(len(x) for x in used))
        if len(set(used)) > 1:
            rec.nt(("linalg", fn, dtype, n, m, tuple(used)))

    def simplify(self, case):
        for k in ("n", "m"):
            if case[k] > 1:
                yield dict(case, **{k: 1})
                yield dict(case, **{k: case[k] - 1})
        bs = case["b"]
        if any(bs):
            yield dict(case, b=[[], [], []])
        for i in range(3):
            if bs[i]:
                yield dict(case, b=[(x[1:] if j == i else x) for j, x in enumerate(bs)])
                yield dict(case, b=[x[1:] if x else x for x in bs])
        if case["dtype"] != "float64":
            yield dict(case, dtype="float64")
        if case["seed"]:
            yield dict(case, seed=0)


# =====================================================================================================
# non-linear systems from expression trees
TORCH_NS = {"sin": torch.sin, "cos": torch.cos}


@functools.lru_cache(maxsize=256)
def _torch_fn(key, light=False):
    M = RD._model_cached(key, light)
    return sp.lambdify(list(M.xs) + list(M.us) + [M.t], list(M.F) + list(M.G), modules=[TORCH_NS], cse=False)


class GenNLS(pp.module.NLS):
    """user system: f, g are the lambdified sympy expressions.  NLS hands the time over as the 0-D int64 buffer in
    forward and as a 1-element 1-D tensor (or the buffer) in set_refpoint / A / B / C / D: t is reduced to a 0-D
    tensor of the state's dtype first (DESIGN 2.6 trap 11)."""

    def __init__(self, spec, light=False):
        super().__init__()
        key = json.dumps(spec, sort_keys=True)
        self._M = RD._model_cached(key, light)
        self._fn = _torch_fn(key, light)

    def _ev(self, state, input, t):
        tt = t.reshape(()).to(state.dtype)
        out = self._fn(*[state[..., i] for i in range(self._M.n)], *[input[..., j] for j in range(self._M.m)], tt)
        return [o if isinstance(o, torch.Tensor) else state.new_tensor(float(o)) for o in out]

    def state_transition(self, state, input, t=None):
        return torch.stack(self._ev(state, input, t)[:self._M.n], -1)

    def observation(self, state, input, t=None):
        return torch.stack(self._ev(state, input, t)[self._M.n:], -1)


def _vec(v, dtype="float64"):
    return torch.tensor([float(z) for z in v], dtype=tu.TD[dtype])


def _r(a, dtype):
    """the values as representable in dtype (float64 array)"""
    a = np.asarray(a, dtype=np.float64)
    return a.astype(np.float32).astype(np.float64) if dtype == "float32" else a


def _sfx(dtype):
    return "" if dtype == "float64" else ":" + dtype


def _time_tensor(t, kind):
    return torch.tensor(float(t), dtype=torch.float64) if kind in ("f64", "frac") else torch.tensor(int(t), dtype=torch.int64)


def check_nls_forward(rec, spec, M, x, u, tnow, z, y, tag, dtype="float64"):
    eps = tu.EPS[dtype]
    fe, ge = M.fg(x, u, tnow)
    if dtype == "float64":
        fs = RD.eval_components(spec["f"], x, u, tnow, absolute=True)
        gs = RD.eval_components(spec["g"], x, u, tnow, absolute=True)
        tf, tg = 64 * eps * (fs + 1.0), 64 * eps * (gs + 1.0)
    else:   # derived: 2 eps * first-order round-off scale of the term list (RD.roundoff_scale)
        tf = 2 * eps * RD.roundoff_scale(spec["f"], x, u, tnow) + 1e-30
        tg = 2 * eps * RD.roundoff_scale(spec["g"], x, u, tnow) + 1e-30
    r1 = _close(rec, tu.npy(z), fe, tf, "nls:forward:f" + _sfx(dtype), "%s next state at t=%d" % (tag, tnow))
    r2 = _close(rec, tu.npy(y), ge, tg, "nls:forward:g" + _sfx(dtype), "%s observation at t=%d" % (tag, tnow))
    _note(rec, "fwd_err/tol" + _sfx(dtype), r1)
    _note(rec, "fwd_err/tol" + _sfx(dtype), r2)


def read_linearisation(rec, system):
    out = {}
    for k in LIN_NAMES:
        with rec.sut("NLS.%s" % k):
            out[k] = tu.npy(getattr(system, k))
    return out


def check_linearisation(rec, spec, M, lin, xs, us, ts, bucket="nls", taylor=None, dtype="float64"):
    """lin = matrices read from pypose; (xs, us, ts) the reference point the harness tracked.
    float64: Jacobians within 1e-9 max(1,|J|), affine identity within 64 eps (sum|terms| + |A||x*|+|B||u*|+|c1| + 1).
    float32 (derived): Jacobian entries within 2 eps S_jac (RD.jac_roundoff_scale: product-rule paths as
    back-propagation multiplies them); f*, g* within 2 eps S (RD.roundoff_scale), and c1 = f* - A x* - B u* followed
    by the harness's exact A x* + B u* + c1 adds at most 8 (n+m+2) eps (|A||x*|+|B||u*|+|c1|)."""
    eps = tu.EPS[dtype]
    f32 = dtype != "float64"
    n, m, p = M.n, M.m, M.p
    bucket = bucket + _sfx(dtype)
    o = M.values(xs, us, ts)
    shapes = {"A": (n, n), "B": (n, m), "C": (p, n), "D": (p, m), "c1": (n,), "c2": (p,)}
    for k in LIN_NAMES:
        if not rec.check(lin[k].shape == shapes[k], bucket + ":shape:" + k,
                         "%s has shape %s, expected %s" % (k, lin[k].shape, shapes[k])):
            return False
    ok = True
    xs, us = np.asarray(xs, dtype=np.float64), np.asarray(us, dtype=np.float64)
    jtol = {}
    if f32:
        jtol["A"], jtol["B"] = RD.jac_roundoff_scale(spec["f"], n, m, xs, us, ts)
        jtol["C"], jtol["D"] = RD.jac_roundoff_scale(spec["g"], n, m, xs, us, ts)
        jtol = {k: 2 * eps * v + 1e-30 for k, v in jtol.items()}
    for k in "ABCD":
        tol = jtol[k] if f32 else 1e-9 * max(1.0, float(np.abs(o[k]).max()))
        r = _close(rec, lin[k], o[k], tol, bucket + ":jac:" + k,
                   "%s vs symbolic Jacobian at x*=%s u*=%s t*=%s" % (k, [float(v) for v in xs], [float(v) for v in us], ts))
        _note(rec, "jac_err/tol" + _sfx(dtype), r)
        ok = ok and r is not None and r <= 1
    if f32:
        c = 8 * (n + m + 2) * eps
        tol_f = 2 * eps * RD.roundoff_scale(spec["f"], xs, us, ts) + c * RD.affine_mag(lin["A"], xs, lin["B"], us, lin["c1"]) + 1e-30
        tol_g = 2 * eps * RD.roundoff_scale(spec["g"], xs, us, ts) + c * RD.affine_mag(lin["C"], xs, lin["D"], us, lin["c2"]) + 1e-30
    else:
        fs = RD.eval_components(spec["f"], xs, us, ts, absolute=True)
        gs = RD.eval_components(spec["g"], xs, us, ts, absolute=True)
        tol_f = 64 * eps * (fs + RD.affine_mag(lin["A"], xs, lin["B"], us, lin["c1"]) + 1.0)
        tol_g = 64 * eps * (gs + RD.affine_mag(lin["C"], xs, lin["D"], us, lin["c2"]) + 1.0)
    r = _close(rec, RD.affine(lin["A"], xs, lin["B"], us, lin["c1"]), o["f"], tol_f, bucket + ":affine_at_ref:f",
               "A x* + B u* + c1 vs f(x*,u*,t*) at x*=%s u*=%s t*=%s" % ([float(v) for v in xs], [float(v) for v in us], ts))
    _note(rec, "ref_err/tol" + _sfx(dtype), r)
    ok = ok and r is not None and r <= 1
    r = _close(rec, RD.affine(lin["C"], xs, lin["D"], us, lin["c2"]), o["g"], tol_g, bucket + ":affine_at_ref:g",
               "C x* + D u* + c2 vs g(x*,u*,t*) at x*=%s u*=%s t*=%s" % ([float(v) for v in xs], [float(v) for v in us], ts))
    _note(rec, "ref_err/tol" + _sfx(dtype), r)
    ok = ok and r is not None and r <= 1
    if taylor is None:
        return ok
    # --- second-order behaviour along a unit direction -------------------------------------------------
    delta, seed = taylor
    rs = np.random.RandomState(seed % (2 ** 31))
    d = rs.randn(n + m)
    d /= np.linalg.norm(d)
    dx, du = d[:n], d[n:]
    lb = M.line_bounds(xs, us, ts, dx, du, delta)

    def err(w, dd):
        fe, ge = M.fg(xs + dd * dx, us + dd * du, ts)
        if w == "f":
            return float(np.linalg.norm(fe - RD.affine(lin["A"], xs + dd * dx, lin["B"], us + dd * du, lin["c1"])))
        return float(np.linalg.norm(ge - RD.affine(lin["C"], xs + dd * dx, lin["D"], us + dd * du, lin["c2"])))
    for w, tolv, jx, ju in (("f", tol_f, "A", "B"), ("g", tol_g, "C", "D")):
        b = lb[w]
        ro0 = 4.0 * float(np.linalg.norm(tolv))
        # float32: the matrices read carry round-off dJ (|dJ| <= jtol); at distance dd it shifts the affine model by
        # at most dd (|dJx| |dx| + |dJu| |du|) <= dd (|jtol_x|_F + |jtol_u|_F)   (|dx|, |du| <= 1)
        jro = float(np.linalg.norm(jtol[jx]) + np.linalg.norm(jtol[ju])) if f32 else 0.0
        for dd in (delta, delta / 4):
            ro = ro0 + dd * jro
            bound = 1.1 * 0.5 * dd * dd * (b["m2"] + b["m3"] * delta / 32) + ro
            e = err(w, dd)
            _note(rec, "taylor_E/bound(rigorous;0.909=equality)", e / bound)
            rec.check(e <= bound, bucket + ":taylor:" + w,
                      "affine model error %.3g at distance %.3g from the reference point exceeds the second-order "
                      "bound %.3g (sup|phi''|=%.3g) for %s" % (e, dd, bound, b["m2"], w))
        if b["m2_0"] <= 1e-6:
            rec.label("ratio:%s:flat" % w)
            continue
        dr = delta if b["m3"] <= 0 else min(delta, 0.75 * b["m2_0"] / b["m3"])
        e1 = err(w, dr)
        # in this regime the exact ratio is <= 1.0625 / (16 * 0.75) < 0.089; with both errors known to +-r (r = round-off
        # of the affine model) the measured one is <= (0.089 + 1/63) / (1 - 1/63) < 0.107 when r <= E/64: float32 cases
        # with a smaller E are skipped (float64: r ~ 1e-14 << 1e-9)
        if e1 < 1e-9 or (f32 and e1 < 64.0 * (ro0 + dr * jro)):
            rec.label("ratio:%s:skipped_small" % w)
            continue
        ratio = err(w, dr / 4) / e1
        rec.label("ratio:%s:tested" % w)
        _note(rec, "ratio/0.13" + _sfx(dtype), ratio / 0.13)
        rec.check(ratio <= 0.13, bucket + ":second_order:" + w,
                  "affine model error is not second order for %s: E(%.3g)=%.3g, E(%.3g)=%.3g, ratio %.3g > 1/8"
                  % (w, dr, e1, dr / 4, ratio * e1, ratio))
    return ok


# ---- strategies for expression trees ---------------------------------------------------------------
COEFS = [k / 8.0 for k in range(-16, 17) if k != 0]
WS = [0.25, 0.5, 1.0, 1.5, 2.0]
WT = [0.125, 0.25, 0.5, 0.75, 1.25]


def _atom(draw, n, m, time_only=False):
    kind = draw(st.sampled_from(("tl", "ts", "tc") if time_only else
                                ("x", "x", "u", "u", "sx", "cx", "su", "cu", "tl", "ts", "tc")))
    if kind == "x":
        return ["x", draw(st.integers(0, n - 1)), draw(st.integers(1, 3))]
    if kind == "u":
        return ["u", draw(st.integers(0, m - 1)), draw(st.integers(1, 3))]
    if kind in ("sx", "cx"):
        return [kind, draw(st.integers(0, n - 1)), draw(st.sampled_from(WS))]
    if kind in ("su", "cu"):
        return [kind, draw(st.integers(0, m - 1)), draw(st.sampled_from(WS))]
    if kind == "tl":
        return ["tl"]
    return [kind, draw(st.sampled_from(WT))]


def _components(draw, k, n, m, tdep):
    comps = []
    for _ in range(k):
        terms = []
        for _ in range(draw(st.integers(1, 3))):
            atoms = [_atom(draw, n, m) for _ in range(draw(st.integers(0, 3)))]
            terms.append([draw(st.sampled_from(COEFS)), atoms])
        comps.append(terms)
    if tdep and not RD.has_time(comps):
        i = draw(st.integers(0, k - 1))
        comps[i][0][1].append(_atom(draw, n, m, time_only=True))
        if not comps[i][0][1][:-1]:            # make the time factor multiply something state dependent
            comps[i][0][1].insert(0, ["x", draw(st.integers(0, n - 1)), draw(st.integers(1, 2))])
    return comps


def _spec(draw, maxdim=4):
    n, m, p = draw(st.integers(1, maxdim)), draw(st.integers(1, maxdim)), draw(st.integers(1, maxdim))
    tdep = draw(st.sampled_from((True, True, True, True, True, False)))
    return {"n": n, "m": m, "f": _components(draw, n, n, m, tdep), "g": _components(draw, p, n, m, tdep)}


def _point(draw, k):
    mode = draw(st.sampled_from(("zero", "mixed", "free", "free", "free")))
    if mode == "zero":
        return [0.0] * k
    el = st.floats(-2.0, 2.0, allow_nan=False, allow_infinity=False, width=64)
    if mode == "mixed":
        el = st.one_of(st.just(0.0), st.just(1.0), el)
    return [draw(el) for _ in range(k)]


def _atom_kinds(spec):
    return tuple(sorted({a[0] for comp in spec["f"] + spec["g"] for _, atoms in comp for a in atoms}))


def _simplify_spec(spec):
    for part in ("f", "g"):
        comps = spec[part]
        for i, comp in enumerate(comps):
            for j, (coef, atoms) in enumerate(comp):
                yield dict(spec, **{part: comps[:i] + [comp[:j] + comp[j + 1:]] + comps[i + 1:]})
                for k in range(len(atoms)):
                    yield dict(spec, **{part: comps[:i] + [comp[:j] + [[coef, atoms[:k] + atoms[k + 1:]]] + comp[j + 1:]] + comps[i + 1:]})
    if len(spec["g"]) > 1:
        for i in range(len(spec["g"])):
            yield dict(spec, g=spec["g"][:i] + spec["g"][i + 1:])


class Nls(Sub):
    name = "nls"
    n = {"quick": 300, "thorough": 10000}
    budget_s = {"quick": 150.0, "thorough": 3000.0}

    def strategy(self, tier):
        @st.composite
        def s(draw):
            spec = _spec(draw)
            has = [draw(st.sampled_from((1, 1, 0))), draw(st.sampled_from((1, 1, 0))), draw(st.sampled_from((1, 1, 1, 0)))]
            pre = draw(st.integers(0, 2))
            if not (has[0] and has[1]):
                pre = max(pre, 1)
            post = draw(st.sampled_from((0, 0, 1)))
            tc = draw(st.integers(0, 30))
            tkind = draw(st.sampled_from(("i64", "i64", "f64", "frac")))
            tfrac = draw(st.sampled_from((0.5, 0.25, 0.75, 0.125)))
            tstar = tc + pre                      # the system time at which set_refpoint will be called
            if draw(st.sampled_from((True, True, True, False))):
                off = draw(st.integers(1, 15))
                tstar = tstar - off if (draw(st.booleans()) and tstar - off >= 0) else tstar + off
            # tkind "f64": the same integer value handed over as a float64 tensor; "frac": a NON-integral reference time t* + tfrac as
            # a float64 tensor - the statement says A..D are the Jacobians and c1, c2 reproduce f, g "at that point" for the t* given,
            # and pypose's own LQR / MPC pass t = k dt with a fractional dt (a t* truncated to the integer clock dtype would be
            # invisible otherwise - seed C15e).  Only the linearisation is asserted for it; for the clock any of unchanged / floor /
            # ceil is accepted.
            if tkind == "frac":
                tstar = tstar + tfrac
            return {"spec": spec, "dtype": draw(st.sampled_from(("float64", "float64", "float32"))),
                    "xs": _point(draw, spec["n"]), "us": _point(draw, spec["m"]), "tstar": tstar, "tkind": tkind,
                    "tc": tc, "tc_how": draw(st.sampled_from(("reset", "systime", "systime_tensor"))), "pre": pre, "has": has,
                    "post": post, "delta": draw(st.sampled_from((0.1, 0.05, 0.02, 0.01))),
                    "seed": draw(st.integers(0, 2 ** 31 - 1))}
        return s()

    def valid(self, case):
        sp_ = case["spec"]
        return (RD.spec_ok(sp_) and len(case["xs"]) == sp_["n"] and len(case["us"]) == sp_["m"]
                and all(abs(v) <= 4 for v in case["xs"] + case["us"])
                and (case["pre"] >= 1 or (case["has"][0] and case["has"][1])) and 0 <= case["tstar"] <= 64
                and (float(case["tstar"]).is_integer() or case.get("tkind") == "frac") and 0 <= case["tc"] <= 64
                and case["delta"] in (0.1, 0.05, 0.02, 0.01) and case.get("dtype", "float64") in tu.TD)

    def oracle(self, case, rec):
        spec = case["spec"]
        dtype = case.get("dtype", "float64")
        M = RD.model(spec)
        n, m = M.n, M.m
        system = GenNLS(spec)
        ck = RD.Clock()
        rs = np.random.RandomState(case["seed"] % (2 ** 31))
        got = _read_time(rec, system, "construction")       # NLS docstring: "The system timestamp (starting from **0**)"
        if not rec.check(got == 0, "clock:initial:nls", "a new NLS starts at time %d" % got):
            return
        if case["tc"] or case["tc_how"] != "reset":
            with rec.sut("set current time"):
                if case["tc_how"] == "reset":
                    system.reset(case["tc"])
                elif case["tc_how"] == "systime":
                    system.systime = case["tc"]
                else:
                    system.systime = torch.tensor(case["tc"])
            ck.set(case["tc"])
        last = None

        def forward(tag):
            nonlocal last
            x, u = _r(rs.uniform(-2, 2, n), dtype), _r(rs.uniform(-2, 2, m), dtype)
            tnow = ck.call()
            with rec.sut("NLS forward"):
                z, y = system(_vec(x, dtype), _vec(u, dtype))
            check_nls_forward(rec, spec, M, x, u, tnow, z, y, tag, dtype)
            got = _read_time(rec, system, tag)
            rec.check(got == ck.t, "clock:forward:nls", "%s started at t=%d: system time is %d, expected %d" % (tag, tnow, got, ck.t))
            last = (x, u)
        for i in range(case["pre"]):
            forward("pre-call %d" % i)
        hs, hi, ht = case["has"]
        xs = _r(case["xs"], dtype) if hs else last[0]
        us = _r(case["us"], dtype) if hi else last[1]
        ts = (float(case["tstar"]) if case["tkind"] in ("f64", "frac") else int(case["tstar"])) if ht else ck.t
        tcur = ck.t
        with rec.sut("NLS.set_refpoint"):
            r = system.set_refpoint(state=_vec(xs, dtype) if hs else None, input=_vec(us, dtype) if hi else None,
                                    t=_time_tensor(case["tstar"], case["tkind"]) if ht else None)
        rec.check(r is system, "refpoint:return", "set_refpoint did not return the module")   # documented: "Returns: The self module"
        got = _read_time(rec, system, "set_refpoint")
        accept = {tcur} | ({int(math.floor(ts)), int(math.ceil(ts))} if ht else set())
        if not rec.check(got in accept, "clock:refpoint:nls", "system time %d after set_refpoint at time %d with t=%s"
                         % (got, tcur, ts if ht else None)):
            return
        ck.set(got)
        for i in range(case["post"]):
            forward("post-call %d" % i)
        lin = read_linearisation(rec, system)
        stale = (not ht) and ck.t != tcur
        check_linearisation(rec, spec, M, lin, xs, us, ts, bucket="nls:stale_ref_time" if stale else "nls",
                            taylor=(case["delta"], case["seed"] // 3 + 1), dtype=dtype)
        tdep = M.f_tdep or M.g_tdep
        rec.label(dtype, "stale_ref_time(t=None,clock moved)" if stale else "ref_time_fresh")
        rec.label("tdep" if tdep else "autonomous", "has%d%d%d" % (hs, hi, ht), "t*:" + case["tkind"], "post%d" % case["post"],
                  "zero_state" if not np.any(xs) else "state", "zero_input" if not np.any(us) else "input",
                  "t*!=t" if ts != tcur else "t*==t")
        if tdep and ts != tcur:
            rec.nt(("nls", n, m, M.p, hs, hi, ht, case["tkind"], bool(np.any(xs)), bool(np.any(us)), case["post"],
                    _atom_kinds(spec), case["pre"], dtype))

    def simplify(self, case):
        for k in ("pre", "post"):
            if case[k] > 0:
                yield dict(case, **{k: case[k] - 1})
        if case["has"] != [1, 1, 1]:
            yield dict(case, has=[1, 1, 1])
        for sp_ in _simplify_spec(case["spec"]):
            yield dict(case, spec=sp_)
        if case["tc"]:
            yield dict(case, tc=0, tc_how="reset")
        if case.get("dtype", "float64") != "float64":
            yield dict(case, dtype="float64")
        if case["tkind"] == "f64":
            yield dict(case, tkind="i64", tstar=int(case["tstar"]))
        if case["tkind"] == "frac":
            yield dict(case, tkind="f64", tstar=float(int(case["tstar"])))
        if case["tstar"]:
            yield dict(case, tstar=0)
        if any(case["xs"]):
            yield dict(case, xs=[0.0] * len(case["xs"]))
        if any(case["us"]):
            yield dict(case, us=[0.0] * len(case["us"]))
        if case["seed"]:
            yield dict(case, seed=0)

    def size(self, case):
        return len(json.dumps(case["spec"])) * 4 + len(json.dumps(case))


# =====================================================================================================
# call histories against the reference clock
NLS_LIB = [
    {"n": 1, "m": 1, "f": [[[0.5, [["x", 0, 2], ["ts", 0.5]]], [1.0, [["u", 0, 1]]]]],
     "g": [[[1.0, [["x", 0, 1]]], [1.0, [["tl"]]]]]},
    {"n": 2, "m": 1, "f": [[[1.0, [["x", 0, 1]]], [0.125, [["x", 1, 1], ["tc", 0.25]]]],
                           [[0.125, [["x", 0, 1], ["tc", 0.25]]], [1.0, [["x", 1, 1]]], [1.0, [["u", 0, 1], ["ts", 0.25]]]]],
     "g": [[[1.0, [["x", 0, 1]]], [1.0, [["tl"]]]], [[1.0, [["x", 1, 1]]], [1.0, [["tl"]]]]]},       # Floquet-like
    {"n": 2, "m": 2, "f": [[[0.75, [["sx", 1, 1.0], ["u", 0, 1]]], [-0.5, [["x", 0, 3], ["tl"]]]],
                           [[1.25, [["cx", 0, 0.5], ["cu", 1, 2.0], ["ts", 0.75]]], [0.25, []]]],
     "g": [[[1.5, [["x", 0, 1], ["x", 1, 1], ["tc", 0.5]]], [-1.0, [["su", 0, 1.5]]]]]},
    {"n": 3, "m": 1, "f": [[[1.0, [["x", 1, 1]]], [0.25, [["u", 0, 2], ["ts", 1.25]]]],
                           [[-1.0, [["sx", 0, 1.0]]], [0.5, [["x", 2, 2], ["tl"]]]],
                           [[0.875, [["x", 0, 1], ["x", 1, 1], ["x", 2, 1]]], [1.0, [["u", 0, 1]]]]],
     "g": [[[1.0, [["x", 0, 2]]], [1.0, [["x", 2, 1], ["tc", 0.125]]]], [[2.0, [["cu", 0, 0.5], ["tl"]]]]]},
    {"n": 1, "m": 3, "f": [[[1.0, [["u", 0, 1], ["u", 1, 1], ["ts", 0.5]]], [-0.75, [["x", 0, 1], ["cu", 2, 1.0]]]]],
     "g": [[[1.0, [["x", 0, 3]]]], [[1.0, [["u", 2, 2], ["tc", 0.75]]]], [[0.5, [["tl"], ["x", 0, 1]]]]]},
    {"n": 2, "m": 2, "f": [[[1.0, [["x", 0, 1]]], [0.5, [["u", 0, 1]]]], [[1.0, [["x", 1, 1]]], [-0.5, [["u", 1, 1]]]]],
     "g": [[[1.0, [["x", 0, 1]]]], [[1.0, [["u", 1, 1]]]]]},                                     # time-invariant, linear
]
RULE_FAMILY = {"fwd": "forward", "reset": "reset(t)", "reset0": "reset()", "systime": "systime=", "refpoint": "set_refpoint", "copy": "deepcopy"}


def _ops_valid(kind, ops):
    """domain of the op language (used for generation-by-construction and by the shrinker)"""
    forwarded = refset = False
    for op in ops:
        k = op[0]
        if k == "fwd":
            forwarded = True
        elif k in ("reset", "systime"):
            if not (isinstance(op[1], int) and 0 <= op[1] <= 64):
                return False
            if k == "systime" and op[2] not in ("int", "tensor"):
                return False
        elif k in ("reset0", "copy"):
            pass
        elif k == "refpoint":
            hs, hi, t = op[1], op[2], op[3]
            if kind == "nls" and not forwarded and not (hs and hi):
                return False
            if t is not None and not (isinstance(t, int) and 0 <= t <= 64):
                return False
            refset = True
        elif k == "lin":
            if kind == "nls" and not refset:
                return False
        else:
            return False
    return True


class ClockHist(Sub):
    fuzz_runs = 6000     # thorough tier: additional coverage-guided (atheris) campaign, same strategy / oracle
    name = "clock"
    n = {"quick": 2400, "thorough": 40000}
    budget_s = {"quick": 150.0, "thorough": 3000.0}

    def strategy(self, tier):
        maxlen = 24 if tier == "quick" else 60
        tree_share = (0, 0, 0, 0, 0, 1) if tier == "quick" else (0, 0, 1)      # NLS cases on a random expression tree

        @st.composite
        def s(draw):
            kind = draw(st.sampled_from(("lti", "ltv", "nls", "nls")))
            case = {"kind": kind, "seed": draw(st.integers(0, 2 ** 31 - 1))}
            if kind == "nls":
                if draw(st.sampled_from(tree_share)):
                    case["spec"] = _spec(draw, maxdim=3)
                else:
                    case["fn"] = draw(st.integers(0, len(NLS_LIB) - 1))
            else:
                case.update(n=draw(st.integers(1, 3)), m=draw(st.integers(1, 3)), p=draw(st.integers(1, 3)),
                            batch=draw(st.sampled_from(([], [], [], [2], [2], [3, 2]))),
                            bmode=draw(st.sampled_from(("all", "all", "mats", "vecs"))),
                            T=draw(st.integers(1, 4)) if kind == "ltv" else 1, c=draw(st.booleans()))
            tval = st.one_of(st.integers(0, 5), st.integers(0, 40))
            ops, forwarded, refset = [], False, False
            for _ in range(draw(st.integers(1, maxlen))):
                k = draw(st.sampled_from(("fwd", "fwd", "fwd", "fwd", "reset", "reset0", "systime", "systime", "refpoint", "refpoint", "lin", "copy")))
                if k == "lin" and kind == "nls" and not refset:
                    k = "refpoint"
                if k == "copy":
                    # the history continues on a copy.deepcopy of the system (nn.Module semantics: an independent module with the same
                    # state).  A clock or reference point captured in a closure / hook of the ORIGINAL would be invisible otherwise.
                    ops.append(["copy"])
                elif k == "fwd":
                    ops.append(["fwd", draw(st.integers(0, 9999))])
                    forwarded = True
                elif k == "reset":
                    ops.append(["reset", draw(tval)] + (["tensor"] if draw(st.integers(0, 2)) == 0 else []))
                elif k == "reset0":
                    ops.append(["reset0"])
                elif k == "systime":
                    ops.append(["systime", draw(tval), draw(st.sampled_from(("int", "tensor")))])
                elif k == "refpoint":
                    hs, hi = draw(st.integers(0, 1)), draw(st.integers(0, 1))
                    t = draw(st.one_of(st.none(), tval, tval))
                    if kind == "nls" and not forwarded:
                        hs = hi = 1
                    ops.append(["refpoint", hs, hi, t, draw(st.integers(0, 9999))])
                    refset = True
                else:
                    ops.append(["lin"])
            case["ops"] = ops
            return case
        return s()

    def valid(self, case):
        if case["kind"] == "nls":
            if "spec" in case:
                if not RD.spec_ok(case["spec"]):
                    return False
            elif not 0 <= case.get("fn", -1) < len(NLS_LIB):
                return False
        elif not (all(1 <= case[k] <= 3 for k in "nmp") and case["T"] >= 1 and len(case["batch"]) <= 3
                  and all(1 <= e <= 3 for e in case["batch"]) and case.get("bmode", "all") in ("all", "mats", "vecs")):
            return False
        return len(case["ops"]) >= 1 and _ops_valid(case["kind"], case["ops"])

    def oracle(self, case, rec):
        kind = case["kind"]
        if kind == "nls":
            tree = "spec" in case
            spec = case["spec"] if tree else NLS_LIB[case["fn"]]
            M = RD.model(spec, light=True)           # values and Jacobians only (no Taylor test in this sub-check)
            system = GenNLS(spec, light=True)
            n, m = M.n, M.m
            L = None
        else:
            bmode = case.get("bmode", "all")
            mask = {k: bool(case["batch"]) and (bmode == "all" or (bmode == "vecs") == (k in ("x", "u"))) for k in ALL_NAMES}
            L = LinSys(kind, case["n"], case["m"], case["p"], _shapes_from_mask(case["batch"], mask), case["c"], case["c"],
                       case["T"], "float64", case["seed"])
            system = L.sys
            n, m = case["n"], case["m"]
        ck = RD.Clock()
        held = {}              # caller-held time tensors (value -> tensor), reused across ops; must never be changed by the system
        last = None            # most recent (state, input) of a call
        ref = None             # NLS: tracked reference point (x*, u*, t*, time_was_none, clock_at_set)
        used, patterns = set(), set()
        got = _read_time(rec, system, "construction")
        if kind == "nls":      # NLS docstring: "The system timestamp (starting from **0**)"; not stated for LTI / LTV
            if not rec.check(got == 0, "clock:initial", "a new NLS starts at time %d" % got):
                return
        else:
            if got != 0:
                rec.label("initial_clock_nonzero")
            ck.set(got)

        def check_reset_return(r, tset, what):
            # the NLS docstring example chains it (`system = Floquet().reset(t = step)` and then uses `system`): the value
            # returned must be usable as the system at that time; identity is what pypose does, not more is documented
            ok = r is system
            if not ok and isinstance(r, type(system)):
                with rec.sut("systime of the object returned by " + what):
                    ok = int(r.systime) == tset
            rec.check(ok, "reset:return", "%s did not return the system (the NLS docstring example chains it): %s"
                      % (what, type(r).__name__))
        originals = []
        prev_ref = None
        for idx, op in enumerate(case["ops"]):
            k = op[0]
            tag = "op %d %s" % (idx, op)
            for osys, ot in originals:
                if not rec.check(_read_time(rec, osys, "original after deepcopy") == ot, "clock:original_moved_by_copy",
                                 "before %s: the ORIGINAL system, untouched since it was deep-copied at time %d, now reads another time" % (tag, ot)):
                    return
            for hv, ht in held.items():
                if not rec.check(int(ht) == hv, "clock:caller_tensor_changed", "before %s: the int64 tensor the caller passed as time %d now reads %d "
                                 "(the system kept and advanced the caller's tensor)" % (tag, hv, int(ht))):
                    return
            before = ck.t
            if k == "copy":
                import copy as _copy
                t_orig = _read_time(rec, system, "before deepcopy")
                originals.append((system, t_orig))
                with rec.sut("copy.deepcopy(system)"):
                    system = _copy.deepcopy(system)
                if kind != "nls":
                    L.sys = system                     # the reference helper reads the matrices of "the system under test"
                rec.label("deepcopied")
                got = _read_time(rec, system, "deepcopy")
                if not rec.check(got == ck.t, "clock:deepcopy", "a deep copy of a system at time %d reads time %d" % (ck.t, got)):
                    return
                continue
            if k == "fwd":
                rs = np.random.RandomState(op[1])
                tnow = ck.call()
                if kind == "nls":
                    x, u = rs.uniform(-2, 2, n), rs.uniform(-2, 2, m)
                    with rec.sut("NLS forward"):
                        z, y = system(_vec(x), _vec(u))
                    check_nls_forward(rec, spec, M, x, u, tnow, z, y, tag)
                else:
                    x, u = L.draw_xu(rs)
                    with rec.sut("%s forward" % kind):
                        z, y = system(_t(x, "float64"), _t(u, "float64"))
                    L.check_step(rec, x, u, tnow, z, y, tag)
                last = (x, u)
            elif k == "reset":
                if len(op) > 2 and op[2] == "tensor":
                    # a caller-held int64 tensor, REUSED for later resets to the same time: the system must copy the value,
                    # not keep (and later advance) the caller's tensor
                    targ = held.setdefault(op[1], torch.tensor(op[1]))
                else:
                    targ = op[1]
                with rec.sut("reset(t)"):
                    r = system.reset(targ)
                check_reset_return(r, op[1], "reset(t)")
                ck.set(op[1])
            elif k == "reset0":
                with rec.sut("reset()"):
                    r = system.reset()
                check_reset_return(r, 0, "reset()")
                ck.set(0)
            elif k == "systime":
                with rec.sut("systime = t"):
                    system.systime = op[1] if op[2] == "int" else held.setdefault(op[1], torch.tensor(op[1]))
                ck.set(op[1])
            elif k == "refpoint":
                hs, hi, t = op[1], op[2], op[3]
                rs = np.random.RandomState(op[4] + 77)
                if kind == "nls":
                    xs, us = rs.uniform(-2, 2, n), rs.uniform(-2, 2, m)
                    if rs.rand() < 0.2:
                        xs = np.zeros(n)
                    if rs.rand() < 0.2:
                        us = np.zeros(m)
                    sa, ia = _vec(xs), _vec(us)
                    if hs and hi and prev_ref is not None and op[4] % 3 == 0:
                        # set_refpoint AGAIN with the tensor objects of the previous reference point: same values (only the time may
                        # differ) or the state updated in place by the caller - the linearisation must be that of the point passed NOW
                        # (a "nothing changed" shortcut keyed on the stored reference, which aliases the caller's tensor, is invisible
                        # when every call gets fresh tensors)
                        sa, ia, xs, us = prev_ref
                        if op[4] % 2 == 0:
                            with torch.no_grad():
                                sa.add_(0.25)
                            xs = xs + 0.25
                            rec.label("refpoint:same_tensor_updated_in_place")
                        else:
                            rec.label("refpoint:same_tensors_again")
                    if hs and hi:
                        prev_ref = (sa, ia, xs, us)
                else:
                    xs, us = L.draw_xu(rs)
                    sa, ia = _t(xs, "float64"), _t(us, "float64")
                with rec.sut("%s.set_refpoint" % kind.upper()):
                    r = system.set_refpoint(state=sa if hs else None, input=ia if hi else None,
                                            t=None if t is None else torch.tensor(t))
                rec.check(r is system, "refpoint:return", "set_refpoint did not return the module")   # documented: "Returns: The self module"
                patterns.add((hs, hi, int(t is not None)))
                got = _read_time(rec, system, tag)
                accept = {ck.t} if t is None else {ck.t, t}
                if not rec.check(got in accept, "clock:refpoint:%s" % kind,
                                 "%s: system time is %d after set_refpoint at time %d" % (tag, got, ck.t)):
                    return
                ck.set(got)
                if t is not None:
                    rec.label("refpoint_t:%s:%s" % (kind, "same" if t == before else ("clock=t" if got == t else "clock_unchanged")))
                if kind != "nls":
                    # the matrices an LTV shows are those of its clock; which of the two accepted clock readings holds
                    # is undocumented, so they are compared at the clock value actually observed
                    L.check_matrices(rec, got, tag + " (after set_refpoint)")
                if kind == "nls":
                    ref = (xs if hs else last[0], us if hi else last[1], before if t is None else t, t is None, before)
                    check_linearisation(rec, spec, M, read_linearisation(rec, system), ref[0], ref[1], ref[2],
                                        bucket="nls")
            else:   # "lin": observe the linear(ised) model
                if kind == "nls":
                    stale = ref[3] and ck.t != ref[4]
                    rec.label("lin:stale_ref_time(t=None,clock moved)" if stale else "lin:ref_time_fresh")
                    check_linearisation(rec, spec, M, read_linearisation(rec, system), ref[0], ref[1], ref[2],
                                        bucket="nls:stale_ref_time" if stale else "nls")
                else:
                    L.check_matrices(rec, ck.t, tag)
            if k in RULE_FAMILY:
                used.add(RULE_FAMILY[k])
            if k != "refpoint":
                got = _read_time(rec, system, tag)
                what = "forward" if k == "fwd" else ("observe" if k == "lin" else "set")
                if not rec.check(got == ck.t, "clock:%s:%s" % (what, kind),
                                 "%s at time %d: system time is %d, reference clock says %d" % (tag, before, got, ck.t)):
                    return
        rec.label(kind, "rules%d" % len(used), "len%d" % (8 * (len(case["ops"]) // 8)))
        if kind == "nls":
            rec.label("nls:tree" if tree else "nls:lib", "nls:" + ("tdep" if (M.f_tdep or M.g_tdep) else "autonomous"))
            src = ("tree", M.n, M.m, M.p, _atom_kinds(spec)) if tree else case.get("fn")
        else:
            rec.label("batch%s:%s" % (case["batch"], case.get("bmode", "all") if case["batch"] else "none"))
            src = (tuple(case["batch"]), case.get("bmode", "all") if case["batch"] else "none")
        for p_ in patterns:
            rec.label("refpoint%d%d%d" % p_)
        if len(used) >= 3:
            rec.nt(("clock", kind, src, tuple(sorted(used)), tuple(sorted(patterns)),
                    min(len(case["ops"]), 24) // 4, any(o[0] == "lin" for o in case["ops"])))

    def simplify(self, case):
        ops = case["ops"]
        for i in range(len(ops)):
            if len(ops) > 1:
                yield dict(case, ops=ops[:i] + ops[i + 1:])
        for i, op in enumerate(ops):
            if op[0] in ("reset", "systime") and op[1] > 0:
                yield dict(case, ops=ops[:i] + [[op[0], v] + op[2:] for v in (0,)] + ops[i + 1:])
                yield dict(case, ops=ops[:i] + [[op[0], op[1] - 1] + op[2:]] + ops[i + 1:])
            if op[0] == "refpoint":
                if op[3]:
                    yield dict(case, ops=ops[:i] + [op[:3] + [0] + op[4:]] + ops[i + 1:])
                if not (op[1] and op[2]):
                    yield dict(case, ops=ops[:i] + [["refpoint", 1, 1] + op[3:]] + ops[i + 1:])
            if op[0] in ("fwd",) and op[1]:
                yield dict(case, ops=ops[:i] + [["fwd", 0]] + ops[i + 1:])
        if case["kind"] == "nls":
            if "spec" in case:
                for sp_ in _simplify_spec(case["spec"]):
                    yield dict(case, spec=sp_)
            elif case["fn"] != 0:
                yield dict(case, fn=0)
        else:
            for k in "nmp":
                if case[k] > 1:
                    yield dict(case, **{k: 1})
            if case["batch"]:
                yield dict(case, batch=[])
                yield dict(case, batch=case["batch"][1:])
                if case.get("bmode", "all") != "all":
                    yield dict(case, bmode="all")
            if case["kind"] == "ltv" and case["T"] > 1:
                yield dict(case, T=case["T"] - 1)
        if case["seed"]:
            yield dict(case, seed=0)

    def size(self, case):
        return len(case["ops"]) * 1000 + len(json.dumps(case)) + (4 * len(json.dumps(case["spec"])) if "spec" in case else 0)


SUBS = [LtiLtv(), ClockHist(), Nls(), Linalg()]


# =====================================================================================================
# the two findings of this check (F17, F18; fixed in /repo, probes in replays/C15/regress).  The regions are generated and
# asserted unconditionally; these predicates only matter if the lead re-opens an entry in known_findings.json (the
# harness then reports matching failures as KNOWN-FINDING instead of VIOLATION).
KNOWN = {
    LTV_NONE_KEY: {
        "probe": ("clock", {"kind": "ltv", "seed": 0, "n": 1, "m": 1, "p": 1, "batch": [], "T": 1, "c": False,
                            "ops": [["refpoint", 0, 0, None, 0]]}),
        "match": lambda sub, case, bucket: sub == "clock" and case.get("kind") == "ltv"
        and bucket == "raises:RuntimeError@dynamics.py:systime"
        and any(o[0] == "refpoint" and o[3] is None for o in case["ops"])},
    ALIAS_KEY: {
        "probe": ("clock", {"kind": "nls", "seed": 0, "fn": 0,
                            "ops": [["fwd", 0], ["refpoint", 0, 0, None, 0], ["fwd", 0], ["lin"]]}),
        "match": lambda sub, case, bucket: bucket.startswith("nls:stale_ref_time")},
}


def selftest():
    RD.selftest()
    # the torch user functions are the functions the reference describes, for both shapes of t (trap 11)
    for spec in NLS_LIB:
        assert RD.spec_ok(spec)
        M = RD.model(spec)
        s = GenNLS(spec)
        rs = np.random.RandomState(5)
        x, u = rs.uniform(-2, 2, M.n), rs.uniform(-2, 2, M.m)
        fe, ge = M.fg(x, u, 7)
        for tt in (torch.tensor(7), torch.tensor([7]), torch.tensor(7.0, dtype=torch.float64)):
            assert np.allclose(tu.npy(s.state_transition(_vec(x), _vec(u), tt)), fe, rtol=0, atol=1e-12)
            assert np.allclose(tu.npy(s.observation(_vec(x), _vec(u), tt)), ge, rtol=0, atol=1e-12)
        assert np.allclose(fe, RD.eval_components(spec["f"], x, u, 7), rtol=0, atol=1e-12)
    # float32 states: same functions, same dtype out, within the derived round-off tolerance
    for spec in NLS_LIB[:3]:
        M, s32 = RD.model(spec, light=True), GenNLS(spec, light=True)
        rs = np.random.RandomState(6)
        x, u = _r(rs.uniform(-2, 2, M.n), "float32"), _r(rs.uniform(-2, 2, M.m), "float32")
        z = s32.state_transition(_vec(x, "float32"), _vec(u, "float32"), torch.tensor(37))
        assert z.dtype == torch.float32
        assert np.all(np.abs(tu.npy(z) - M.fg(x, u, 37)[0]) <= 2 * tu.EPS["float32"] * RD.roundoff_scale(spec["f"], x, u, 37))
    # the time-indexed reference picks the right slice
    L = LinSys("ltv", 2, 1, 1, {k: (2,) for k in ALL_NAMES}, True, True, 3, "float64", 1)
    assert np.array_equal(L.at("A", 4), L.np["A"][:, 1]) and np.array_equal(L.at("c1", 5), L.np["c1"][:, 2])
    # the ratio criterion separates first- from second-order models: E = a d^2 gives 1/16, E = c d gives 1/4
    assert (0.25 ** 2) <= 0.13 < 0.25
