"""C05 - Adj, AdjT, Retr, +, Jinvp, Jr satisfy their defining tangent-space identities."""
import math
import numpy as np
import torch
import pypose as pp
from hypothesis import strategies as st

from ..core import Sub
from ..ref import lie as R
from .. import tu, gen

PROPERTY = "C05"
RULE = ("adjoint: generated X (C02 generators) and algebra a (regime table incl. 0, tiny, large norm), both dtypes, "
        "broadcastable batch shapes: Adj(X,a) == Ad(M(X)) a and AdjT(X,a) == Ad(M(X)^-1) a with Ad built from the matrix "
        "Lie algebra (hat(Ad a) = M hat(a) M^-1), tolerance 128 eps rowmax|Ad| |a|_1; plus the defining identities X@Exp(a) == "
        "Exp(Adj(X,a))@X and Exp(a)@X == X@Exp(AdjT(X,a)) as matrices.  retract: Retr(X,a), X+a, X.add(a), pp.add, add_ "
        "(tensor or LieTensor increment, manifold / embedding / longer last dimension with junk in the extra slots, alpha) "
        "all equal reference-Exp(a) * M(X) (C01 tolerances) and each other; algebra + tensor is vector addition on the "
        "first dim components; add_ mutates in place, add does not.  jinvp: Jinvp(X,p) == phi1(ad(Log X))^-1 p (float64 "
        "reference from the matrix exponential of the augmented ad matrix; Sim3: documented Bernoulli truncation allowed: "
        "1.5*|ad|^6/30240/(1-(|ad|/2pi)^2)).  jr: so3.Jr(x) == phi1(-ad x) (closed form cancellation bound 64 eps (1+1/theta) "
        "capped at 8 sqrt(eps)), Jr(0)==I exactly, SO3.Jr(X)==Jr(Log X), and Exp(x+d) ~ Exp(x)Exp(Jr d).  Non-trivial: a/p "
        "not parallel to the rotation axis of X and X not the identity, or zero / tiny / large a; distinct = (sub, ltype, "
        "dtype, regimes, api).")
ASSUMPTIONS = ["valid group inputs; |a| translation <= 1e2, rotation <= 2pi+1, |log-scale| <= 2 for the identities",
               "Jinvp away from the zero rotation is not required by the statement but is checked there too (finite)",
               "Sim3 Jinvp: |ad(Log X)|_2 <= 4 (documented series truncation)"]


def _inf(M):
    return float(np.abs(M).sum(axis=1).max())


@st.composite
def bpair(draw):
    """two batch shapes broadcastable to a common one (rank <= 2, <= 4 items)"""
    common = draw(gen.lshape(max_rank=2, extents=(1, 2, 3), max_items=4))
    def variant():
        s = list(common)
        for i in range(len(s)):
            if draw(st.integers(0, 3)) == 0:
                s[i] = 1
        k = draw(st.integers(0, len(s)))
        return s[k:] if draw(st.integers(0, 2)) == 0 else s
    return variant(), variant(), common


def _bshape(a, b):
    return list(np.broadcast_shapes(tuple(a), tuple(b)))


def _items(draw, strat, shape):
    n = int(np.prod(shape)) if shape else 1
    vals, regs = [], []
    for _ in range(n):
        v, r = draw(strat)
        vals.append(v); regs.append(r)
    return vals, regs


def _expand(vals, shape, out, d):
    arr = np.array(vals, dtype=np.float64).reshape(tuple(shape) + (d,))
    return np.broadcast_to(arr, tuple(out) + (d,)).reshape(-1, d)


def _nontrivial(rec, sub, lt, dtype, Xn, an, regX, rega, extra=()):
    t, q, s = R.split_group(lt, Xn)
    ang = R.quat_angle(q)
    tau, phi, sg = R.split_alg(R.ALG_OF[lt], an)
    axis = q[:3]
    cross = np.linalg.norm(np.cross(axis, phi)) if np.linalg.norm(axis) > 0 else 0.0
    thin = any(v in ("zero", "tiny", "large", "wide", "pi1", "pi2") for v in rega.values())
    if (ang > 1e-6 and cross > 1e-9 * np.linalg.norm(phi)) or thin:
        rec.nt((sub, lt, dtype, gen.regime_key(regX), gen.regime_key(rega)) + tuple(extra))


class Adjoint(Sub):
    name = "adjoint"

    def valid(self, case):
        return gen.valid_groups(case["ltype"], case["X"], case["dtype"]) and all(
            gen.in_dtype(case[k], case["dtype"]) for k in ("X", "a", "p") if k in case)
    n = {"quick": 8000, "thorough": 200000}

    def strategy(self, tier):
        @st.composite
        def s(draw):
            lt = draw(st.sampled_from(R.GROUPS))
            dtype = draw(st.sampled_from(gen.DTYPES))
            sx, sa, _ = draw(bpair())
            X, rX = _items(draw, gen.group(lt, dtype, tcap=1e2, slo=-3, shi=3), sx)
            a, ra = _items(draw, gen.algebra(R.ALG_OF[lt], dtype, tcap=1e2, maxk=2, scap=2.0), sa)
            return {"ltype": lt, "dtype": dtype, "sx": sx, "sa": sa, "X": X, "a": a, "rX": rX, "ra": ra,
                    "lie_a": draw(st.booleans())}
        return s()

    def oracle(self, case, rec):
        lt, dtype = case["ltype"], case["dtype"]
        alt = R.ALG_OF[lt]
        eps = tu.EPS[dtype]
        X = tu.lie(lt, case["X"], dtype, shape=case["sx"], view=tu.view_of(case, "X"))
        a = tu.lie(alt, case["a"], dtype, shape=case["sa"], view=tu.view_of(case, "a"))
        rec.label("layout:" + ("contiguous" if X.tensor().is_contiguous() and a.tensor().is_contiguous() else "noncontiguous_operand"))
        at = a if case["lie_a"] else a.tensor()
        out = _bshape(case["sx"], case["sa"])
        with rec.sut("Adj/AdjT"):
            if len(case["X"]) % 2 == 0 and hasattr(pp, "Adj") and hasattr(pp, "AdjT"):     # functional forms for half of the shapes
                y1, y2 = pp.Adj(X, at), pp.AdjT(X, at)
                rec.label("form:function")
            else:
                y1, y2 = X.Adj(at), X.AdjT(at)
            L1, R1 = X @ a.Exp(), y1.Exp() @ X
            L2, R2 = a.Exp() @ X, X @ y2.Exp()
        rec.label(lt, dtype)
        for nm, y in (("Adj", y1), ("AdjT", y2)):
            if not rec.check(isinstance(y, pp.LieTensor) and y.ltype == tu.LT[alt] and list(y.shape[:-1]) == out,
                             "type:" + nm, "%s returned %s lshape %s (expected %s %s)" % (nm, getattr(y, "ltype", None), list(y.shape[:-1]), alt, out)):
                return
        Xs = _expand(case["X"], case["sx"], out, R.GDIM[lt])
        As = _expand(case["a"], case["sa"], out, R.ADIM[alt])
        rX = np.broadcast_to(np.array(case["rX"], dtype=object).reshape(case["sx"] or ()), out).reshape(-1)
        ra = np.broadcast_to(np.array(case["ra"], dtype=object).reshape(case["sa"] or ()), out).reshape(-1)
        y1n, y2n = tu.npy(y1).reshape(-1, R.ADIM[alt]), tu.npy(y2).reshape(-1, R.ADIM[alt])
        mats = [tu.npy(v).reshape(-1, R.GDIM[lt]) for v in (L1, R1, L2, R2)]
        for i in range(Xs.shape[0]):
            _nontrivial(rec, "adj", lt, dtype, Xs[i], As[i], rX[i], ra[i])
            Ad = R.Ad(lt, Xs[i])
            Adi = R.Ad(lt, R.inv(lt, Xs[i]))
            Xi_inv = R.inv(lt, Xs[i])
            for nm, y, A, Xa in (("Adj", y1n[i], Ad, Xs[i]), ("AdjT", y2n[i], Adi, Xi_inv)):
                want = A @ As[i]
                # row-wise normwise bound: entries of Ad that vanish by cancellation still carry eps*rowmax error
                tolv = 128 * eps * np.abs(A).max(axis=1) * float(np.abs(As[i]).sum()) + 1e-300
                if lt in ("SE3", "Sim3"):
                    # translation rows are R tau + t x (R phi) (- sigma t): an eps-level rounding of the rotation (the
                    # quaternion is unit only to eps) moves them by eps |t| |a| even where the row of t^R is exactly zero
                    # (t along an axis) - the reference M hat(a) M^-1 itself carries that error (seen at |t| = 50, thorough tier)
                    tolv[:3] += 16 * eps * float(np.abs(Xa[:3]).max()) * float(np.abs(As[i]).sum())
                errv = np.abs(y - want)
                err, tol = float(errv.max()), float(tolv[int(np.argmax(errv / tolv))])
                rec.notes["adj"] = max(rec.notes.get("adj", 0), float((errv / tolv).max()))
                rec.check(bool(np.all(errv <= tolv)) and np.all(np.isfinite(y)), "%s:%s:%s" % (nm, lt, dtype),
                          lambda: "%s(X,a) = %s, reference Ad*a = %s (err %.3g tol %.3g) X=%s a=%s" % (nm, y.tolist(), want.tolist(), err, tol, Xs[i].tolist(), As[i].tolist()))
            # defining identities through pypose's own Exp/@ (Exp's translation is only sqrt(eps)-accurate by C01)
            MX = R.mat4(lt, Xs[i]); Ma = R.mat4(lt, R.exp_np(alt, As[i]))
            sc = _inf(MX) * _inf(Ma) * max(1.0, _inf(np.linalg.inv(MX)))
            tolI = (16 * math.sqrt(eps) + 64 * eps * max(1.0, np.linalg.norm(As[i]))) * sc
            for nm, A_, B_ in (("X@Exp(a)=Exp(Adj)@X", mats[0][i], mats[1][i]), ("Exp(a)@X=X@Exp(AdjT)", mats[2][i], mats[3][i])):
                e = float(np.abs(R.mat4(lt, A_) - R.mat4(lt, B_)).max())
                rec.notes["ident"] = max(rec.notes.get("ident", 0), e / tolI)
                rec.check(e <= tolI, "identity:%s:%s" % (lt, dtype), lambda: "%s violated by %.3g (tol %.3g) X=%s a=%s" % (nm, e, tolI, Xs[i].tolist(), As[i].tolist()))
        # the same OBJECT again after its values changed in place (what add_ / an optimiser step does): must equal the operation on a
        # fresh tensor holding the new values.  (A matrix cached on the object and never invalidated is invisible to every single
        # call - seeds C01d, C05e.)
        _reuse(rec, lt, X, lambda Z: (Z.Adj(at), Z.AdjT(at)), "Adj/AdjT")

    def simplify(self, case):
        if case["sx"] or case["sa"]:
            yield dict(case, sx=[], sa=[], X=case["X"][:1], a=case["a"][:1], rX=case["rX"][:1], ra=case["ra"][:1])


APIS = ("Retr", "plus", "add", "pp.add", "add_", "pp.add_", "pp.Retr")


class Retract(Sub):
    name = "retract"

    def valid(self, case):
        return gen.valid_groups(case["ltype"], case["X"], case["dtype"]) and all(
            gen.in_dtype(case[k], case["dtype"]) for k in ("X", "a", "p") if k in case)
    n = {"quick": 8000, "thorough": 200000}

    def strategy(self, tier):
        @st.composite
        def s(draw):
            lt = draw(st.sampled_from(R.GROUPS))
            dtype = draw(st.sampled_from(gen.DTYPES))
            sx, sa, _ = draw(bpair())
            X, rX = _items(draw, gen.group(lt, dtype, tcap=1e2, slo=-3, shi=3), sx)
            a, ra = _items(draw, gen.algebra(R.ALG_OF[lt], dtype, tcap=1e2, maxk=2, scap=2.0), sa)
            api = draw(st.sampled_from(APIS))
            return {"ltype": lt, "dtype": dtype, "sx": sx, "sa": sa, "X": X, "a": a, "rX": rX, "ra": ra, "api": api,
                    "extra": draw(st.sampled_from((0, 0, 1, 3))), "junk": draw(st.floats(-1e3, 1e3)),
                    "lie_a": draw(st.booleans()), "alpha": draw(st.sampled_from((1, 1, 2, -1, 0.5)))}
        return s()

    def oracle(self, case, rec):
        lt, dtype, api = case["ltype"], case["dtype"], case["api"]
        alt = R.ALG_OF[lt]
        eps = tu.EPS[dtype]
        out = _bshape(case["sx"], case["sa"])
        inplace = api.endswith("_")
        sx = out if inplace else case["sx"]      # in-place: only `other` may broadcast
        Xvals = case["X"] if not inplace else _expand(case["X"], case["sx"], out, R.GDIM[lt]).tolist()
        X = tu.lie(lt, Xvals, dtype, shape=sx)
        X0 = X.tensor().clone()
        a = tu.lie(alt, case["a"], dtype, shape=case["sa"])
        alpha = case["alpha"] if api in ("add", "pp.add", "add_", "pp.add_") else 1
        if api in ("Retr", "pp.Retr"):
            other = a                                # Retr takes an algebra LieTensor
        else:
            t = a.tensor()
            if case["extra"]:
                junk = torch.full(t.shape[:-1] + (case["extra"],), case["junk"], dtype=t.dtype)
                t = torch.cat([t, junk], -1)
                other = t
            else:
                other = a if case["lie_a"] else t
        o0 = (other.tensor() if isinstance(other, pp.LieTensor) else other).clone()
        with rec.sut(api):
            if api == "Retr":
                Y = X.Retr(other)
            elif api == "pp.Retr":
                Y = pp.Retr(X, other)
            elif api == "plus":
                Y = X + other
            elif api == "add":
                Y = X.add(other, alpha=alpha)
            elif api == "pp.add":
                Y = pp.add(X, other, alpha=alpha)
            elif api == "add_":
                Y = X.add_(other, alpha=alpha)
            else:
                Y = pp.add_(X, other, alpha=alpha)
        rec.label(lt, dtype, api, "extra%d" % case["extra"])
        if not rec.check(isinstance(Y, pp.LieTensor) and Y.ltype == tu.LT[lt] and list(Y.shape[:-1]) == out,
                         "type:" + api, "%s returned %s lshape %s (expected %s %s)" % (api, getattr(Y, "ltype", None), list(Y.shape[:-1]), lt, out)):
            return
        ob = (other.tensor() if isinstance(other, pp.LieTensor) else other)
        rec.check(torch.equal(ob, o0), "mutates_other", "%s changed its `other` argument" % api)
        if inplace:
            rec.check(Y is X, "inplace_identity", "%s did not return self" % api)
        else:
            rec.check(torch.equal(X.tensor(), X0), "mutates_input", "%s changed its input" % api)
        Xs = _expand(Xvals, sx, out, R.GDIM[lt])
        As = _expand(case["a"], case["sa"], out, R.ADIM[alt]) * float(alpha)
        rX = np.broadcast_to(np.array(case["rX"], dtype=object).reshape(case["sx"] or ()), out).reshape(-1)
        ra = np.broadcast_to(np.array(case["ra"], dtype=object).reshape(case["sa"] or ()), out).reshape(-1)
        Yn = tu.npy(Y).reshape(-1, R.GDIM[lt])
        for i in range(Xs.shape[0]):
            _nontrivial(rec, "retr", lt, dtype, Xs[i], As[i], rX[i], ra[i], (api, case["extra"]))
            if not rec.check(bool(np.all(np.isfinite(Yn[i]))), "nonfinite:" + lt, "%s gave %s" % (api, Yn[i].tolist())):
                continue
            a_eff = np.array(gen.rnd_list(As[i].tolist(), dtype))       # alpha*a is rounded to the dtype by pypose
            e = R.exp_ref_parts(alt, a_eff)
            Ma = np.eye(4); Ma[:3, :3] = e["s"] * e["R"]; Ma[:3, 3] = e["t"]
            MX = R.mat4(lt, Xs[i])
            want = Ma @ MX
            got = R.mat4(lt, Yn[i])
            th = float(np.linalg.norm(R.split_alg(alt, a_eff)[1]))
            tolB = 64 * eps * max(1.0, th) * _inf(Ma[:3, :3]) * _inf(MX[:3, :3])
            eB = float(np.abs(got[:3, :3] - want[:3, :3]).max())
            rec.notes["retr_rot"] = max(rec.notes.get("retr_rot", 0), eB / tolB)
            rec.check(eB <= tolB, "retr:rot:%s:%s" % (lt, dtype), lambda: "%s: rotation/scale block off by %.3g (tol %.3g) X=%s a=%s" % (api, eB, tolB, Xs[i].tolist(), a_eff.tolist()))
            if lt in ("SE3", "Sim3"):
                tX = MX[:3, 3]
                tolT = (8 * math.sqrt(eps) * float(np.linalg.norm(e["t"])) + 64 * eps * float(np.linalg.norm(e["absWtau"]))
                        + 64 * eps * max(1.0, th) * _inf(Ma[:3, :3]) * float(np.linalg.norm(tX)))
                eT = float(np.linalg.norm(got[:3, 3] - want[:3, 3]))
                if tolT > 0:
                    rec.notes["retr_tr"] = max(rec.notes.get("retr_tr", 0), eT / tolT)
                rec.check(eT <= tolT, "retr:trans:%s:%s" % (lt, dtype), lambda: "%s: translation off by %.3g (tol %.3g) X=%s a=%s" % (api, eT, tolT, Xs[i].tolist(), a_eff.tolist()))

    def simplify(self, case):
        if case["sx"] or case["sa"]:
            yield dict(case, sx=[], sa=[], X=case["X"][:1], a=case["a"][:1], rX=case["rX"][:1], ra=case["ra"][:1])
        if case["extra"]:
            yield dict(case, extra=0)
        if case["alpha"] != 1:
            yield dict(case, alpha=1)


class AlgebraAdd(Sub):
    """algebra + tensor is plain vector addition on the first `dim` components"""
    name = "algebra_add"
    n = {"quick": 3000, "thorough": 60000}

    def strategy(self, tier):
        @st.composite
        def s(draw):
            lt = draw(st.sampled_from(R.ALGEBRAS))
            dtype = draw(st.sampled_from(gen.DTYPES))
            sx, sa, _ = draw(bpair())
            x, _ = _items(draw, gen.algebra(lt, dtype, tcap=1e2), sx)
            a, _ = _items(draw, gen.algebra(lt, dtype, tcap=1e2), sa)
            return {"ltype": lt, "dtype": dtype, "sx": sx, "sa": sa, "x": x, "a": a,
                    "api": draw(st.sampled_from(("plus", "add", "pp.add", "add_"))),
                    "extra": draw(st.sampled_from((0, 0, 1, 2))), "alpha": draw(st.sampled_from((1, 1, 2, -1, 0.5)))}
        return s()

    def oracle(self, case, rec):
        lt, dtype, api = case["ltype"], case["dtype"], case["api"]
        d = R.ADIM[lt]
        out = _bshape(case["sx"], case["sa"])
        inplace = api == "add_"
        sx = out if inplace else case["sx"]
        xv = case["x"] if not inplace else _expand(case["x"], case["sx"], out, d).tolist()
        x = tu.lie(lt, xv, dtype, shape=sx)
        x0 = x.tensor().clone()
        t = tu.tens(case["a"], dtype).reshape(tuple(case["sa"]) + (d,))
        if case["extra"]:
            t = torch.cat([t, torch.full(t.shape[:-1] + (case["extra"],), 123.0, dtype=t.dtype)], -1)
        alpha = case["alpha"] if api != "plus" else 1
        with rec.sut(api):
            if api == "plus":
                y = x + t
            elif api == "add":
                y = x.add(t, alpha=alpha)
            elif api == "pp.add":
                y = pp.add(x, t, alpha=alpha)
            else:
                y = x.add_(t, alpha=alpha)
        rec.label(lt, dtype, api)
        if sx != out or case["extra"] or alpha != 1:
            rec.nt(("algadd", lt, dtype, api, case["extra"], alpha, len(out)))
        if not rec.check(isinstance(y, pp.LieTensor) and y.ltype == tu.LT[lt] and list(y.shape) == out + [d],
                         "algadd:type", "%s returned %s shape %s" % (api, getattr(y, "ltype", None), list(y.shape))):
            return
        want = (x0.expand(tuple(out) + (d,)) + (alpha * t)[..., :d].expand(tuple(out) + (d,)))
        err = float((y.tensor() - want).abs().max()) if want.numel() else 0.0
        tol = 4 * tu.EPS[dtype] * float(want.abs().max()) if want.numel() else 0.0
        rec.check(err <= tol, "algadd:value:" + lt, lambda: "%s: algebra + tensor differs from vector addition by %.3g" % (api, err))
        if not inplace:
            rec.check(torch.equal(x.tensor(), x0), "mutates_input", "%s changed its input" % api)
        else:
            rec.check(y is x, "inplace_identity", "add_ did not return self")


def _reuse(rec, lt, X, op, name):
    """op(X) was just evaluated; overwrite X in place with other valid elements (the inverses, from the reference algebra), evaluate
    again on the same object and on a fresh tensor with the same values: both must agree to the last bit (same code, same data)"""
    if X.numel() == 0:
        return
    d = R.GDIM[lt]
    new = np.stack([R.inv(lt, row) for row in tu.npy(X.tensor()).reshape(-1, d)], 0).reshape(tuple(X.shape))
    newt = torch.tensor(new, dtype=X.dtype)
    with rec.sut(name + " after an in-place change of X"):
        with torch.no_grad():
            X.tensor().copy_(newt)
        again = op(X)
        fresh = op(pp.LieTensor(newt.clone(), ltype=X.ltype))
    rec.label("reuse:" + name)
    for g, f in zip(again, fresh):
        gt, ft = (g.tensor() if isinstance(g, pp.LieTensor) else g), (f.tensor() if isinstance(f, pp.LieTensor) else f)
        rec.check(gt.shape == ft.shape and bool(torch.allclose(gt, ft, rtol=0, atol=0, equal_nan=True)), "reuse:" + name.split("/")[0] + ":" + lt,
                  lambda: "%s of an element whose values were changed in place differs from %s of a fresh element with the same values (max diff %.3g): a result "
                  "cached on the object?" % (name, name, float((gt - ft).abs().max()) if gt.shape == ft.shape and gt.numel() else float("nan")))


class Jinvp(Sub):
    name = "jinvp"

    def valid(self, case):
        return gen.valid_groups(case["ltype"], case["X"], case["dtype"]) and all(
            gen.in_dtype(case[k], case["dtype"]) for k in ("X", "a", "p") if k in case)
    n = {"quick": 6000, "thorough": 150000}

    def strategy(self, tier):
        @st.composite
        def s(draw):
            lt = draw(st.sampled_from(R.GROUPS))
            dtype = draw(st.sampled_from(gen.DTYPES))
            sx, sp, _ = draw(bpair())
            tc = 3.0 if lt == "Sim3" else 1e2
            # Jl^-1 has a pole at 2 pi and Log flips branch at pi: rotations within 1e-3 of pi are only checked for finiteness, so
            # only one quaternion kind in seven sits there (the default table spends three of seven on pi)
            X, rX = _items(draw, gen.group(lt, dtype, tcap=tc, slo=-1.5, shi=1.5, qkinds=("angle", "angle", "angle", "rand", "rand", "v0", "ident", "pi")), sx)
            p, rp = _items(draw, gen.algebra(R.ALG_OF[lt], dtype, tcap=1e2, maxk=1, scap=4.0), sp)
            return {"ltype": lt, "dtype": dtype, "sx": sx, "sp": sp, "X": X, "p": p, "rX": rX, "rp": rp,
                    "lie_p": draw(st.booleans()), "form": draw(st.sampled_from(("method", "function")))}
        return s()

    def oracle(self, case, rec):
        lt, dtype = case["ltype"], case["dtype"]
        alt = R.ALG_OF[lt]
        eps = tu.EPS[dtype]
        X = tu.lie(lt, case["X"], dtype, shape=case["sx"], view=tu.view_of(case, "X"))
        p = tu.lie(alt, case["p"], dtype, shape=case["sp"], view=tu.view_of(case, "p"))
        rec.label("layout:" + ("contiguous" if X.tensor().is_contiguous() and p.tensor().is_contiguous() else "noncontiguous_operand"))
        out = _bshape(case["sx"], case["sp"])
        with rec.sut("Jinvp"):
            arg = p if case["lie_p"] else p.tensor()
            y = pp.Jinvp(X, arg) if case.get("form") == "function" else X.Jinvp(arg)
        rec.label(lt, dtype, "form:" + case.get("form", "method"))
        if not rec.check(isinstance(y, pp.LieTensor) and y.ltype == tu.LT[alt] and list(y.shape[:-1]) == out, "type:Jinvp",
                         "Jinvp returned %s lshape %s" % (getattr(y, "ltype", None), list(y.shape[:-1]))):
            return
        Xs = _expand(case["X"], case["sx"], out, R.GDIM[lt])
        Ps = _expand(case["p"], case["sp"], out, R.ADIM[alt])
        rX = np.broadcast_to(np.array(case["rX"], dtype=object).reshape(case["sx"] or ()), out).reshape(-1)
        rp = np.broadcast_to(np.array(case["rp"], dtype=object).reshape(case["sp"] or ()), out).reshape(-1)
        yn = tu.npy(y).reshape(-1, R.ADIM[alt])
        for i in range(Xs.shape[0]):
            t, q, s = R.split_group(lt, Xs[i])
            ang = R.quat_angle(q)
            if not rec.check(bool(np.all(np.isfinite(yn[i]))), "nonfinite:" + lt, "Jinvp(%s,%s) = %s" % (Xs[i].tolist(), Ps[i].tolist(), yn[i].tolist())):
                continue
            if ang > math.pi - 1e-3:
                rec.label("near_pi_skipped")     # Log is discontinuous at pi: Jl^-1 blows up, conditioning unbounded
                continue
            x = R.log_np(lt, Xs[i])
            A = R.ad(alt, x)
            J = R.phi1(A)
            want = np.linalg.solve(J, Ps[i])
            Ji = np.linalg.inv(J)
            kap = float(np.linalg.cond(J))
            tol = 64 * eps * kap * float((np.abs(Ji) @ np.abs(Ps[i])).max()) * max(1.0, 1.0 / max(math.pi - ang, 1e-3))
            # the SO3 closed form cancels for small angles (like Jr): allow its forward error
            th = float(np.linalg.norm(R.split_alg(alt, x)[1]))
            tol += min(8 * math.sqrt(eps), 64 * eps / max(th, 1e-300)) * float(np.abs(Ps[i]).max()) * (1 + float(np.linalg.norm(R.split_alg(alt, x)[0])))
            if lt == "SE3":     # closed-form Q above its series threshold: error ~ eps |tau| / theta^2, theta >= 0.1
                tol += 256 * eps * float(np.linalg.norm(R.split_alg(alt, x)[0])) * float(np.abs(Ps[i]).max())
            if lt == "Sim3":
                na = float(np.linalg.norm(A, 2))
                if na > 4.0:
                    rec.label("sim3_ad>4_skipped")
                    continue
                tol += 1.5 * na ** 6 / 30240.0 / (1 - (na / (2 * math.pi)) ** 2) * float(np.linalg.norm(Ps[i]))
            _nontrivial(rec, "jinvp", lt, dtype, Xs[i], Ps[i], rX[i], rp[i])
            err = float(np.abs(yn[i] - want).max())
            if tol > 0:
                rec.notes["jinvp:" + lt] = max(rec.notes.get("jinvp:" + lt, 0), err / tol)
            rec.check(err <= tol, "jinvp:%s:%s" % (lt, dtype), lambda: "Jinvp(X,p) = %s vs Jl(Log X)^-1 p = %s (err %.3g tol %.3g) X=%s p=%s"
                      % (yn[i].tolist(), want.tolist(), err, tol, Xs[i].tolist(), Ps[i].tolist()))
        arg_ = p if case["lie_p"] else p.tensor()
        _reuse(rec, lt, X, lambda Z: (Z.Jinvp(arg_),), "Jinvp")

    def simplify(self, case):
        if case["sx"] or case["sp"]:
            yield dict(case, sx=[], sp=[], X=case["X"][:1], p=case["p"][:1], rX=case["rX"][:1], rp=case["rp"][:1])


class Jr(Sub):
    name = "jr"
    n = {"quick": 6000, "thorough": 150000}

    def strategy(self, tier):
        @st.composite
        def s(draw):
            dtype = draw(st.sampled_from(gen.DTYPES))
            shape = draw(gen.lshape(max_rank=2, extents=(1, 2, 3), max_items=3))
            x, rx = _items(draw, gen.algebra("so3", dtype, maxk=1), shape)
            return {"dtype": dtype, "lshape": shape, "x": x, "rx": rx, "group": draw(st.booleans()),
                    "dseed": draw(st.integers(0, 10 ** 6))}
        return s()

    def oracle(self, case, rec):
        dtype = case["dtype"]
        eps = tu.EPS[dtype]
        x = tu.lie("so3", case["x"], dtype, shape=case["lshape"], view=tu.view_of(case, "x"))
        rec.label("layout:" + ("contiguous" if x.tensor().is_contiguous() else "noncontiguous_operand"))
        with rec.sut("Jr"):
            fn = case["dseed"] % 2 == 1          # functional form pp.Jr(.) for every other case
            if case["group"]:
                Xg = x.Exp()
                J = pp.Jr(Xg) if fn else Xg.Jr()
                xin = tu.npy(Xg.Log()).reshape(-1, 3)
            else:
                J = pp.Jr(x) if fn else x.Jr()
                xin = np.array(case["x"], dtype=np.float64).reshape(-1, 3)
        rec.label(dtype, "SO3.Jr" if case["group"] else "so3.Jr")
        if not rec.check(tuple(J.shape) == tuple(case["lshape"]) + (3, 3), "jr:shape", "Jr shape %s" % (tuple(J.shape),)):
            return
        Jn = tu.npy(J).reshape(-1, 3, 3)
        rs = np.random.RandomState(case["dseed"])
        for i, xi in enumerate(xin):
            th = float(np.linalg.norm(xi))
            if case["group"] and np.linalg.norm(np.array(case["x"][i])) > math.pi - 1e-2:
                # SO3.Jr(X) is Jr(Log X) and Log flips branch at pi: only finiteness is asserted there
                rec.label("jr:group_near_pi_finite_only")
                rec.check(bool(np.all(np.isfinite(Jn[i]))), "jr:nonfinite", "Jr(%s) = %s" % (xi.tolist(), Jn[i].tolist()))
                continue
            reg = case["rx"][i]
            if any(v in ("zero", "tiny", "eps", "sqrteps", "pi1", "wide") for v in reg.values()) or th > 1:
                rec.nt(("jr", dtype, case["group"], gen.regime_key(reg), math.frexp(th)[1] if th else 0))
            if not rec.check(bool(np.all(np.isfinite(Jn[i]))), "jr:nonfinite", "Jr(%s) = %s" % (xi.tolist(), Jn[i].tolist())):
                continue
            if th == 0:
                rec.check(np.array_equal(Jn[i], np.eye(3)), "jr:identity_at_zero", "Jr(0) = %s is not exactly I" % Jn[i].tolist())
                continue
            want = R.phi1(-R.ad("so3", xi))
            tol = min(8 * math.sqrt(eps), 64 * eps * (1 + 1 / th)) * (1.0 + th)
            err = float(np.abs(Jn[i] - want).max())
            rec.notes["jr"] = max(rec.notes.get("jr", 0), err / tol)
            rec.check(err <= tol, "jr:value:%s" % dtype, lambda: "Jr(%s) deviates from the right Jacobian by %.3g (tol %.3g)" % (xi.tolist(), err, tol))
            # defining property with pypose's own Jr but the harness's Exp: Exp(x+d) ~ Exp(x) Exp(Jr d)
            if dtype == "float64" and 1e-3 < th < math.pi - 0.1:
                d = 1e-5 * rs.randn(3)
                lhs = R.qrot(R.exp_np("so3", xi + d))
                rhs = R.qrot(R.exp_np("so3", xi)) @ R.qrot(R.exp_np("so3", Jn[i] @ d))
                e2 = float(np.abs(lhs - rhs).max())
                rec.check(e2 <= 1e-8, "jr:defining", lambda: "Exp(x+d) vs Exp(x)Exp(Jr d): %.3g at x=%s" % (e2, xi.tolist()))

    def simplify(self, case):
        if case["lshape"]:
            for i in range(len(case["x"])):
                yield dict(case, lshape=[], x=[case["x"][i]], rx=[case["rx"][i]])


SUBS = [Adjoint(), Retract(), AlgebraAdd(), Jinvp(), Jr()]


def selftest():
    rs = np.random.RandomState(0)
    for glt in R.GROUPS:
        alt = R.ALG_OF[glt]
        x = rs.randn(R.ADIM[alt]) * 0.7
        X = R.exp_np(alt, x)
        assert np.abs(R.log_np(glt, X) - x).max() < 1e-13
        d = 1e-6 * rs.randn(R.ADIM[alt])
        lhs = R.mat4(glt, R.exp_np(alt, x + d))
        rhs = R.mat4(glt, R.exp_np(alt, R.Jl(alt, x) @ d)) @ R.mat4(glt, X)
        assert np.abs(lhs - rhs).max() < 1e-10
        a = rs.randn(R.ADIM[alt]) * 0.5
        lhs = R.mat4(glt, X) @ R.mat4(glt, R.exp_np(alt, a))
        rhs = R.mat4(glt, R.exp_np(alt, R.Ad(glt, X) @ a)) @ R.mat4(glt, X)
        assert np.abs(lhs - rhs).max() < 1e-13
        # Jinvp = derivative of eps -> Log(Exp(eps p) X)
        p = rs.randn(R.ADIM[alt])
        h = 1e-5
        fd = (R.log_np(glt, R.mul(glt, R.exp_np(alt, h * p), X)) - R.log_np(glt, R.mul(glt, R.exp_np(alt, -h * p), X))) / (2 * h)
        assert np.abs(fd - np.linalg.solve(R.Jl(alt, x), p)).max() < 1e-8
