"""C10 - linear solvers return correct solutions or fail loudly; block-sparse products are exact."""
import math, itertools
import numpy as np
import torch
from hypothesis import strategies as st

from pypose.optim import solver as ppos
from pypose.sparse import ops as spops

from ..core import Sub
from ..ref import linsys as LS
from .. import tu

PROPERTY = "C10"

# frozen tolerance constants (calibrated on the unchanged tree, worst ratio <= ~0.2 over seeds 1..5)
C_PINV = 256.0      # |x - x*|            <= C_PINV eps cond |b| / sigma_r
C_LSTSQ = 32.0      # |A^T (A x - b)|     <= C_LSTSQ eps (max(m,n)+8) |A| (|A||x| + |b|)
C_CHOL = 32.0       # |x - A^-1 b|        <= C_CHOL eps (n+4) cond |x*|
C_CHOL_BE = 4.0     # |b - A x|           <= C_CHOL_BE eps (n+4) (|A||x| + |b|)   (backward stability, no cond factor)
C_CG = 8.0          # |b - A x|           <= tol|b| + C_CG eps sqrt(n) |A| (|x| + |x0|)   (no cond factor, see CGSub)
GAP = 16.0          # explicit rtol/atol/rcond cut-offs are placed in a spectral gap s_j / s_{j+1} >= GAP, a factor >= 4 from both
NONPD_RES = 1e-6    # failure clause: a returned x must satisfy |Ax-b| <= 1e-6 (|A||x| + |b|)
AMBIG = 0.5         # rank-deficient items: sigma_{r+1}(fl(A)) must be <= AMBIG * max(m,n) eps sigma_1

RULE = (
    "pinv / lstsq: Hypothesis draws (m, n in 1..40, batch shape up to (3,2), dtype, rank mode, cond=10^k k<=8 "
    "(float32: clipped to 0.1/(max(m,n) eps), i.e. 2e4 at size 40 .. 3e5 at size 2), spectrum shape, rhs kind, scales, "
    "structure, seed); the oracle expands the seed with "
    "np.random.RandomState into A = U_r diag(s) V_r^T (orthogonal factors = QR of a seeded Gaussian or Householder "
    "products; structures: plain, symmetric indefinite, duplicated / zero-padded columns or rows, zero matrix) and b "
    "(in range, mixed, orthogonal to range, b = A x_true, zero), so x* = V_r S_r^-1 U_r^T b is known by construction. "
    "PINV (default arguments 60 %; hermitian=True on the symmetric structure; explicit rtol / atol 40 %: a float, or a "
    "Tensor with one value per batch item, either sigma_r/4 = only rounding noise is cut, or inside a spectral gap "
    "sigma_j/sigma_j+1 >= 16 a factor >= 4 from both = x* is the minimum-norm solution of the rank-j truncation): "
    "|x - x*| <= 256 eps (sigma_1/sigma_j) |b| / sigma_j with sigma_j the smallest singular value kept "
    "(x = 0 exactly for A = 0).  LSTSQ (driver None/gelsy/gelsd/gelss on everything, gels on full-rank A only; rcond "
    "default, or explicit far below sigma_r/sigma_1): "
    "|A^T(Ax-b)| <= 32 eps (max(m,n)+8) |A| (|A||x|+|b|) (any least-squares solution; no condition-number factor); "
    "rcond inside a spectral gap of every batch item with the SVD drivers gelsd / gelss: the PINV bound against the "
    "truncated minimum-norm solution. "
    "cholesky: SPD Q diag(lam) Q^T, cond <= 1e8 (float32: <= 0.1/(n eps)), batches, upper/lower: "
    "|x - Q lam^-1 Q^T b| <= 32 eps (n+4) cond |x*| and the backward-stability residual |Ax-b| <= 4 (n+4) eps (|A||x|+|b|) "
    "(no cond factor); "
    "failure clause (indefinite with lam_min <= -1e-3 lam_max; weakly indefinite: 1-2 eigenvalues -10^-d lam_max, "
    "d = 3..17 (float32 3..9), i.e. down to below the rounding level; rank-deficient PSD with exact zero eigenvalues; "
    "exactly singular integer L0 L0^T (any n <= 40) with a zero on the "
    "diagonal of L0 = exact zero pivot; zero matrix; one non-PD item of any of these kinds inside an SPD batch): the "
    "call must raise or "
    "return x with |Ax-b| <= max(1e-6, 32 (n+4) eps) (|A||x|+|b|) (never a silently wrong vector; the evidence labels "
    "chol:raised:<kind> / chol:returned:<kind> show that returns happen only at the rounding level).  "
    "cg: SPD with prescribed spectrum (dense Q lam Q^T or permuted "
    "block-diagonal = genuinely sparse), n <= 40, cond <= 1e3 (both dtypes: measured attainable), layouts "
    "dense/CSR/COO/BSR for A and M (probed once at "
    "import), x0 in {none, random, near, exact, zero} (shape (n,1), with b of shape (n,1) or (n,)), M in {none, Jacobi, "
    "perturbed exact inverse}, tol in "
    "{1e-3,1e-5,1e-8}, |b| = 10^-4..10^4, b = eigenvector, b = 0: |b - Ax| <= tol |b| + 8 eps sqrt(n) "
    "|A| (|x|+|x0|) (the gap between CG's recursive residual and the true one; no condition-number factor, see CGSub); "
    "b = 0 -> x = 0 exactly; x0, A, b, M unchanged (side check).  sparse: block matrices (1..40/blocksize block "
    "rows/cols, block sizes 1..4 rectangular, pattern styles random density 0..1 / full / empty / diag / band / "
    "first / last / empty row / empty column, explicitly stored zero blocks), integer-valued (torch.equal with the "
    "numpy product) or real-valued (|err| <= 4 eps K max|a| max|b|), all 36 ordered layout pairs of "
    "{dense,COO,CSR,CSC,BSR,BSC} through _sparse_csr_mm plus bsr_bsc_matmul directly (BSR x BSC: must return; the "
    "CSR/CSC operand variants its asserts admit: may raise): the pairs the dispatcher handles - 5 of the 16 "
    "sparse x sparse pairs of {CSR,CSC,BSR,BSC} (CSR/CSC x CSR/CSC, BSR x BSC) and CSR/CSC/BSR x dense - must return "
    "the product (a raise is excused only when "
    "plain torch.matmul raises for the same operands); every other pair (the remaining 11 sparse x sparse pairs, "
    "everything with COO or a dense first operand, and BSR/BSC operands blocked differently "
    "along the inner dimension) may raise - on the current tree they all do, loudly, which is the 'or fail loudly' "
    "side of the statement (labels sparse:raised:<pair> / sparse:returned:<pair> give the counts per pair) - but must "
    "not return a wrong or structurally inconsistent product.  "
    "patterns: ALL sparsity patterns of (1 x k)(k x 1) 1 <= k <= 6, (2 x k)(k x 2) k <= 3, (3 x 2)(2 x 1), (1 x 2)(2 x 3) "
    "block matrices with an injective power-of-two value encoding (the result identifies the exact set of matched "
    "block pairs and their position).  "
    "Non-trivial: rank-deficient or rectangular A, or cond >= 1e4 (pinv/lstsq/cholesky), a failure-clause case "
    "(cholesky), CG with x0 or M, sparse pair with an empty block row/column or stored-block density < 0.3; "
    "distinct = (sub-check, shape class, rank class, cond decade, spectrum, rhs kind, batch, dtype, driver / options / "
    "layouts / pattern styles).")
ASSUMPTIONS = [
    "A, b real float64 / float32 on CPU; b has one right-hand-side column (the documented M x 1 shape; CG also the 1-D "
    "b its code unsqueezes); batch dims of A and b equal; no multi-column b (not documented for any solver)",
    "float32 cannot resolve the statement's cond 1e8: float32 systems have cond <= 0.1 / (max(m,n) eps) (2.1e4 at size "
    "40, 8.4e5 at size 1), which keeps sigma_min a factor 10 above the documented default rank cut-off max(m,n) eps "
    "sigma_1 of pinv / lstsq and n eps cond <= 0.1 for the Cholesky factorisation; float64 goes to 1e8",
    "rank-deficient float matrices whose (r+1)-th computed singular value exceeds 0.5 * max(m,n) * eps * sigma_1 are "
    "discarded: there the rank of the float matrix under the documented default rcond/rtol is ambiguous",
    "explicit rtol / atol / rcond values are only placed a factor >= 4 away from every singular value (no ambiguous "
    "rank decisions); a truncating rcond is only given to the SVD drivers gelsd / gelss (gelsy's rank estimate is not "
    "the singular-value cut-off, gels ignores rcond)",
    "LSTSQ(driver='gels') is only given full-rank A (its docstring: 'If A is full-rank')",
    "LSTSQ is only required to return SOME least-squares solution (normal-equation residual), as the statement says",
    "Cholesky failure clause: symmetric input only; non-PD = at least one eigenvalue <= 0 by construction (from "
    "-lam_max down to -1e-17 lam_max and exactly 0) or an exact zero pivot; close to the PD boundary the float "
    "factorisation may succeed, so everywhere the assertion is 'raises OR returns x with a small residual'",
    "CG: single systems, SPD A and SPD M, cond <= 1e3, default maxiter, |x0| comparable with |x*|; x0 has the shape "
    "(n,1) of the returned solution (also with b of shape (n,)); dense b",
    "sparse operands are canonical (sorted, duplicate-free indices) and have no zero dimension (sizes 1..40); torch's "
    "own constructors / to_dense are trusted",
]

LAYOUTS = ("dense", "coo", "csr", "csc", "bsr", "bsc")
MUST_RETURN = ({(a, b) for a in ("csr", "csc") for b in ("csr", "csc")} | {("bsr", "bsc")} |
               {(a, "dense") for a in ("csr", "csc", "bsr")})
# bsr_bsc_matmul called directly: besides (bsr, bsc) its asserts also let these through (may raise, must not be wrong)
DIRECT_EXTRA = {("csr", "csc"), ("bsr", "csc"), ("csr", "bsc")}


# ----------------------------------------------------------------------------------------------
# helpers
def _nrm(v):
    return float(np.linalg.norm(np.asarray(v, dtype=np.float64).ravel()))


def _cast(a, dtype):
    """round a float64 numpy array to the dtype; returns (numpy float64 view of rounded values, torch tensor)"""
    t = torch.tensor(np.ascontiguousarray(a), dtype=tu.TD[dtype])
    return t.to(torch.float64).numpy(), t


def _note(rec, key, v):
    if v == v and v > rec.notes.get(key, -1.0):
        rec.notes[key] = float(v)


def _cond_cap(dtype, k):
    """largest condition number generated for a k x k (max(m,n) = k) system of the dtype: the statement's 1e8, but
    the smallest singular value must stay a factor 10 above the documented default rank cut-off max(m,n) eps sigma_1
    of pinv / lstsq (cond * k * eps <= 0.1); the same bound keeps the Cholesky factorisation of the rounded SPD
    matrix safely away from breakdown (k eps cond << 1).  float64: always 1e8; float32: 2.1e4 (k=40) .. 8.4e5 (k=1)"""
    return min(1e8, 0.1 / (max(k, 1) * tu.EPS[dtype]))


def _decade(c):
    return int(math.floor(math.log10(max(c, 1.0)) + 1e-9))


def _cls(k):
    return "1" if k == 1 else "2-4" if k <= 4 else "5-12" if k <= 12 else "13-40"


SIZES = (1, 2, 2, 3, 3, 4, 4, 5, 5, 6, 6, 7, 8, 9, 10, 11, 12, 13, 15, 16, 17, 20, 24, 25, 28, 31, 32, 33, 36, 39, 40)


def _size_st():
    # (a table instead of st.integers: Hypothesis' integer strategies over-sample the lower bound heavily)
    return st.sampled_from(SIZES)


def _batch_st():
    return st.sampled_from(([], [], [], [1], [2], [3], [1, 1], [2, 1], [1, 2], [3, 2], [2, 2], [3, 1]))


def _to_layout(D, layout, bs=None):
    if layout == "dense":
        return D
    if layout == "coo":
        return D.to_sparse()
    if layout == "csr":
        return D.to_sparse_csr()
    if layout == "csc":
        return D.to_sparse_csc()
    if layout == "bsr":
        return D.to_sparse_bsr(bs)
    if layout == "bsc":
        return D.to_sparse_bsc(bs)
    raise ValueError(layout)


def _probe_cg_layouts():
    """which layouts support `S @ dense` and `torch.matmul(S, dense, out=...)` on this CPU build"""
    ok = {}
    for dt in ("float64", "float32"):
        D = torch.tensor([[2.0, 1.0], [1.0, 3.0]], dtype=tu.TD[dt])
        v = torch.tensor([[1.0], [2.0]], dtype=tu.TD[dt])
        for lay in ("dense", "csr", "coo", "bsr"):
            try:
                S = _to_layout(D, lay, (1, 1))
                out = torch.empty_like(v)
                torch.matmul(S, v, out=out)
                ok[(lay, dt)] = bool(torch.equal(S @ v, D @ v) and torch.equal(out, D @ v))
            except Exception:
                ok[(lay, dt)] = False
    return ok


CG_LAYOUT_OK = _probe_cg_layouts()


# ----------------------------------------------------------------------------------------------
# least-squares systems with known minimum-norm solution
STRUCTS = ("svd", "svd", "svd", "sym", "dupcols", "duprows", "zerocols", "zerorows")
SMODES = ("geom", "one_small", "one_large", "equal_pairs", "rand")
BKINDS = ("range", "mixed", "orth", "random", "xtrue", "zero")
RANKMODES = ("full", "full", "full", "def", "def", "def", "def1", "def1", "mixed", "mixed", "zero")


class _Item:
    """one system: A (float64 numpy), U_r, s, V_r such that A = U_r diag(s) V_r^T exactly up to rounding"""
    pass


def _make_item(rs, m, n, struct, rankmode, cond, smode, ascale, factor, idx):
    it = _Item()
    if struct == "sym":
        n = m
    # core block dimensions
    cm, cn = m, n
    if struct == "dupcols" and n >= 2:
        cn = n // 2
    elif struct == "duprows" and m >= 2:
        cm = m // 2
    elif struct == "zerocols" and n >= 2:
        cn = n - max(1, n // 3)
    elif struct == "zerorows" and m >= 2:
        cm = m - max(1, m // 3)
    k = min(cm, cn)
    if rankmode == "full":
        r = k
    elif rankmode == "def":
        r = int(rs.randint(0, k)) if k > 1 else 0
        r = max(r, 1) if k > 1 else 0
    elif rankmode == "def1":
        r = k - 1
    elif rankmode == "mixed":
        r = k if idx % 2 == 0 else max(0, k - 1 - int(rs.randint(0, max(1, k // 2))))
    else:
        r = 0
    if struct == "sym":
        Q = LS.orth(rs, m) if factor == "qr" else LS.householder_orth(rs, m)
        s = LS.spectrum(rs, r, cond, smode) * ascale
        sign = np.where(rs.rand(r) < 0.5, -1.0, 1.0)
        Ur, Vr = Q[:, :r] * sign, Q[:, :r]
        A = (Ur * s) @ Vr.T
        A = 0.5 * (A + A.T)
    else:
        S = LS.SVDSystem(rs, cm, cn, r, cond, smode, ascale, factor)
        Ur, Vr, s, A = S.U[:, :r], S.V[:, :r], S.s, S.A
        if struct == "dupcols" and n >= 2:         # A = [B B 0]: A = U_r (sqrt2 s) [V_r;V_r;0]^T/sqrt2
            A = np.concatenate([A, A, np.zeros((m, n - 2 * cn))], axis=1)
            Vr = np.concatenate([Vr, Vr, np.zeros((n - 2 * cn, r))], axis=0) / math.sqrt(2.0)
            s = s * math.sqrt(2.0)
        elif struct == "duprows" and m >= 2:
            A = np.concatenate([A, A, np.zeros((m - 2 * cm, n))], axis=0)
            Ur = np.concatenate([Ur, Ur, np.zeros((m - 2 * cm, r))], axis=0) / math.sqrt(2.0)
            s = s * math.sqrt(2.0)
        elif struct == "zerocols" and n >= 2:
            A = np.concatenate([A, np.zeros((m, n - cn))], axis=1)
            Vr = np.concatenate([Vr, np.zeros((n - cn, r))], axis=0)
            p = rs.permutation(n)
            A, Vr = A[:, p], Vr[p, :]
        elif struct == "zerorows" and m >= 2:
            A = np.concatenate([A, np.zeros((m - cm, n))], axis=0)
            Ur = np.concatenate([Ur, np.zeros((m - cm, r))], axis=0)
            p = rs.permutation(m)
            A, Ur = A[p, :], Ur[p, :]
    it.A, it.Ur, it.Vr, it.s, it.r, it.m, it.n = A, Ur, Vr, s, r, A.shape[0], A.shape[1]
    return it


def _make_rhs(rs, it, kind, bscale):
    m, r = it.m, it.r
    g = rs.randn(m)
    inr = it.Ur @ (it.Ur.T @ g)                  # component in range(A)
    out = g - inr
    if kind == "range":
        b = it.Ur @ rs.randn(r)
    elif kind == "orth":
        b = out
    elif kind == "xtrue":
        b = it.A @ rs.randn(it.n) / (it.s[0] if r else 1.0)
    elif kind == "zero":
        b = np.zeros(m)
    elif kind == "mixed":
        b = it.Ur @ rs.randn(r) + 10.0 ** rs.uniform(-6, 0) * out
    else:
        b = g
    return b * bscale


def _xstar(it, b):
    if it.r == 0:
        return np.zeros(it.n)
    return it.Vr @ ((it.Ur.T @ b) / it.s)


def _xstar_trunc(it, b, j):
    """minimum-norm least-squares solution of the rank-j truncation of A (its j largest singular values)"""
    if j == 0:
        return np.zeros(it.n)
    return it.Vr[:, :j] @ ((it.Ur[:, :j].T @ b) / it.s[:j])


def _cutoff(rs, it, gap):
    """(j, tau): a relative singular-value cut-off tau (units of sigma_1) that keeps exactly the j largest singular values
    of the item, a factor >= 4 away from sigma_j above and from sigma_{j+1} below (so that the rank decision of the float
    matrix is unambiguous: the rounding perturbation of a singular value is <= sqrt(max(m,n)) eps sigma_1 and the noise
    singular values of a rank-deficient float matrix are <= AMBIG max(m,n) eps sigma_1, both < sigma_r / 10 by
    _cond_cap).  gap=True: inside a spectral gap sigma_j / sigma_{j+1} >= GAP if the spectrum has one (a real
    truncation, j < r); otherwise / gap=False: tau = sigma_r / (4 sigma_1), nothing but the noise is cut (j = r)."""
    s, r = it.s, it.r
    if r == 0:
        return 0, 0.1
    if gap:
        cands = [j for j in range(1, r) if s[j - 1] >= GAP * s[j]]
        if cands:
            j = cands[int(rs.randint(len(cands)))]
            return j, math.sqrt(s[j - 1] * s[j]) / s[0]
    return r, 0.25 * s[r - 1] / s[0]


@st.composite
def _ls_case(draw, with_driver):
    dtype = draw(st.sampled_from(("float64", "float64", "float64", "float64", "float32")))
    struct = draw(st.sampled_from(STRUCTS))
    m, n = draw(_size_st()), draw(_size_st())
    shape = draw(st.sampled_from(("any", "any", "any", "any", "square", "tall1", "wide1")))
    if shape == "square":
        n = m
    elif shape == "tall1":
        m = min(40, n + 1)
    elif shape == "wide1":
        n = min(40, m + 1)
    if struct == "sym":
        n = m
    case = {"m": m, "n": n, "batch": draw(_batch_st()), "dtype": dtype, "struct": struct,
            "rankmode": draw(st.sampled_from(RANKMODES)),
            # float32: decades up to 1e5, clipped in build() to _cond_cap (cond * max(m,n) * eps <= 0.1)
            "cond_exp": draw(st.sampled_from(range(0, 9 if dtype == "float64" else 6))),
            "cond_mant": draw(st.sampled_from((1.0, 1.0, 3.0))),
            "smode": draw(st.sampled_from(SMODES)), "bkind": draw(st.sampled_from(BKINDS)),
            "ascale_exp": draw(st.sampled_from(range(-3, 4))), "bscale_exp": draw(st.sampled_from(range(-3, 4))),
            "factor": draw(st.sampled_from(("qr", "qr", "householder"))),
            "view": draw(st.sampled_from(("contig", "contig", "transposed"))),
            "seed": draw(st.integers(0, 2 ** 31 - 1))}
    if with_driver:
        case["driver"] = draw(st.sampled_from(("none", "none", "gelsy", "gelsd", "gelss", "gels")))
        if case["driver"] == "gels":
            case["rankmode"] = "full"              # documented for full-rank A only
            if struct not in ("svd", "sym"):
                case["struct"] = "svd"
        # the documented rcond argument: explicit value well below every singular value (same solution set as the
        # default), or - SVD drivers only, whose cut-off is exactly 'sigma_i <= rcond sigma_1' - inside a spectral gap
        case["rcond"] = draw(st.sampled_from(("default",) * 4 + ("tiny", "gap", "gap")))
    else:
        case["hermitian"] = bool(struct == "sym" and draw(st.booleans()))
        # the documented atol / rtol arguments (float, or a Tensor with one value per batch item)
        case["opt"] = draw(st.sampled_from(("default",) * 6 + ("rtol_tiny", "atol_tiny", "rtol_gap", "atol_gap")))
    return case


def _ls_simplify(case):
    for key, small in (("opt", "default"), ("rcond", "default"),
                       ("batch", []), ("dtype", "float64"), ("struct", "svd"), ("view", "contig"),
                       ("factor", "qr"), ("smode", "geom"), ("cond_exp", 0), ("cond_mant", 1.0),
                       ("ascale_exp", 0), ("bscale_exp", 0), ("bkind", "random"), ("seed", 0)):
        if key in case and case[key] != small:
            yield dict(case, **{key: small})
    for key in ("m", "n"):
        v = case[key]
        for w in sorted({1, 2, 3, v // 2, v - 1}):
            if 1 <= w < v:
                c = dict(case, **{key: w})
                if case["struct"] == "sym":
                    c["m"] = c["n"] = w
                yield c
    if case["cond_exp"] > 0:
        yield dict(case, cond_exp=case["cond_exp"] - 1)


class _LSBase(Sub):
    """shared construction of a batch of least-squares systems"""

    def build(self, case, rec):
        dtype = case["dtype"]
        eps = tu.EPS[dtype]
        rs = np.random.RandomState(case["seed"])
        batch = list(case["batch"])
        nb = int(np.prod(batch)) if batch else 1
        cond = self.cond_of(case)
        items = []
        for i in range(nb):
            it = _make_item(rs, case["m"], case["n"], case["struct"], case["rankmode"], cond, case["smode"],
                            10.0 ** case["ascale_exp"], case["factor"], i)
            b = _make_rhs(rs, it, case["bkind"], 10.0 ** case["bscale_exp"])
            it.A, tA = _cast(it.A, dtype)           # the matrix actually handed to the solver (rounded to dtype)
            it.b, tb = _cast(b, dtype)
            it.tA, it.tb = tA, tb
            k = min(it.m, it.n)
            if 0 < it.r < k:
                sv = np.linalg.svd(it.A, compute_uv=False)
                # ... and as the routine under test sees it: torch.linalg.pinv applies its cut-off to singular values (or, with
                # hermitian=True, to eigenvalues from eigh) COMPUTED IN THE DTYPE, which carry an absolute error of a few eps |A| -
                # the size of the cut-off itself for small n.  A noise value that is 0.1 of the cut-off exactly can come out of eigh
                # above it (found by an independent false-alarm audit: n = 4, hermitian, |x| = 8e13).  The rank is then ambiguous at
                # rounding level, whichever side pypose lands on.
                seen = [float(sv[it.r]) / float(sv[0])]
                try:
                    st_ = torch.linalg.svdvals(tA)
                    seen.append(float(st_[it.r]) / float(st_[0]))
                    if it.m == it.n and bool(case.get("hermitian")):
                        ev = torch.linalg.eigh(tA).eigenvalues.abs().sort(descending=True).values      # eigh, as pinv calls it (eigvalsh is a different algorithm with other noise)
                        seen.append(float(ev[it.r]) / float(ev[0]))
                except Exception:
                    pass
                if max(seen) > AMBIG * max(it.m, it.n) * eps:
                    rec.discard_case("rank of the float matrix ambiguous under the default rcond")
            it.xs = _xstar(it, it.b)
            items.append(it)
        m, n = items[0].m, items[0].n
        A = torch.stack([it.tA for it in items]).reshape(batch + [m, n])
        b = torch.stack([it.tb for it in items]).reshape(batch + [m, 1])
        if case["view"] == "transposed":
            A = A.mT.contiguous().mT                # same values, column-major strides
        return items, A, b, eps

    @staticmethod
    def cond_of(case):
        """the condition number actually built: drawn mantissa * decade, clipped to _cond_cap of the dtype and size"""
        m = case["m"]
        n = m if case["struct"] == "sym" else case["n"]
        return min(case["cond_mant"] * 10.0 ** case["cond_exp"], _cond_cap(case["dtype"], max(m, n)))

    def describe(self, case, items, rec, extra=()):
        m, n = items[0].m, items[0].n
        k = min(m, n)
        dec = _decade(self.cond_of(case))
        ranks = [it.r for it in items]
        rk = "full" if min(ranks) == k else "zero" if max(ranks) == 0 else "mixed" if max(ranks) == k else "def"
        shp = "square" if m == n else "tall" if m > n else "wide"
        rec.label("shape:" + shp, "rank:" + rk, "cond:1e%d" % dec, "cond:%s:1e%d" % (case["dtype"], dec),
                  "struct:" + case["struct"],
                  "b:" + case["bkind"], "batch:%s" % (case["batch"],), case["dtype"], "size:" + _cls(max(m, n)))
        if rk != "full" or m != n or dec >= 4:
            rec.nt((shp, _cls(m), _cls(n), rk, dec, case["smode"], case["bkind"], case["struct"],
                    tuple(case["batch"]), case["dtype"], case["view"]) + tuple(extra))
        return rk

    def simplify(self, case):
        return _ls_simplify(case)


class Pinv(_LSBase):
    name = "pinv"
    n = {"quick": 5000, "thorough": 120000}

    def strategy(self, tier):
        return _ls_case(False)

    def oracle(self, case, rec):
        items, A, b, eps = self.build(case, rec)
        A0, b0 = A.clone(), b.clone()
        herm = bool(case.get("hermitian"))
        opt = case.get("opt", "default")
        kw = {}
        for it in items:
            it.j = it.r
        if opt != "default":
            # explicit atol / rtol: one cut-off per batch item (a float for a single system, else a Tensor of the batch shape)
            rs2 = np.random.RandomState((case["seed"] + 1) % 2 ** 31)
            vals = []
            for it in items:
                it.j, tau = _cutoff(rs2, it, opt.endswith("gap"))
                it.xs = _xstar_trunc(it, it.b, it.j)
                vals.append(tau if opt.startswith("rtol") else (tau * it.s[0] if it.r else 1.0))
            key = "rtol" if opt.startswith("rtol") else "atol"
            kw[key] = float(vals[0]) if not case["batch"] else \
                torch.tensor(vals, dtype=tu.TD[case["dtype"]]).reshape(list(case["batch"]))
            rec.label("pinv:opt:" + opt + (":tensor" if case["batch"] else ":float"),
                      "pinv:cut:" + ("truncating" if any(it.j < it.r for it in items) else "noise_only"))
        else:
            rec.label("pinv:opt:default")
        with rec.sut("PINV(%s)" % ",".join(sorted(kw))):
            solver = ppos.PINV(hermitian=herm, **kw)
            _decoy(rec, "pinv", case.get("seed", 0))
            x = solver(A, b)
        self.describe(case, items, rec, (("herm",) if herm else ()) + ((opt,) if opt != "default" else ()))
        n = items[0].n
        if not rec.check(tuple(x.shape) == tuple(case["batch"]) + (n, 1), "pinv:shape",
                         "result shape %s for A %s" % (tuple(x.shape), tuple(A.shape))):
            return
        rec.check(torch.equal(A, A0) and torch.equal(b, b0), "pinv:mutates_input", "PINV changed A or b")
        X = tu.npy(x).reshape(len(items), n)
        for i, it in enumerate(items):
            xi = X[i]
            if not rec.check(bool(np.isfinite(xi).all()), "pinv:nonfinite", "non-finite solution (item %d)" % i):
                return
            err = _nrm(xi - it.xs)
            if it.r == 0:
                rec.check(err == 0.0, "pinv:zero_matrix", "A = 0 but x = %s" % xi[:4])
                continue
            sj = it.s[it.j - 1]                       # smallest singular value kept (sigma_r with the default cut-off)
            cond = it.s[0] / sj
            tol = C_PINV * eps * cond * _nrm(it.b) / sj
            if tol == 0.0:
                rec.check(err == 0.0, "pinv:b0", "b = 0 but |x| = %.3g" % err)
                continue
            _note(rec, "pinv_err/tol" if opt == "default" else "pinv_opt_err/tol", err / tol)
            rec.check(err <= tol, "pinv:minnorm:%s%s" % (case["dtype"], "" if opt == "default" else ":" + opt),
                      lambda: "item %d (%dx%d rank %d, %d kept, cond %.2g %s, %s): |x - x*| = %.3g > tol %.3g; |x*|=%.3g |x|=%.3g"
                      % (i, it.m, it.n, it.r, it.j, cond, case["struct"], kw or "defaults", err, tol, _nrm(it.xs), _nrm(xi)))


class Lstsq(_LSBase):
    name = "lstsq"
    n = {"quick": 5000, "thorough": 120000}

    def strategy(self, tier):
        return _ls_case(True)

    def oracle(self, case, rec):
        drv = None if case["driver"] == "none" else case["driver"]
        if drv == "gels" and (case["rankmode"] != "full" or case["struct"] not in ("svd", "sym")):
            case = dict(case, rankmode="full", struct="svd")     # gels is documented for full-rank A only
        items, A, b, eps = self.build(case, rec)
        A0, b0 = A.clone(), b.clone()
        n, m = items[0].n, items[0].m
        ropt, rcond, trunc = case.get("rcond", "default"), None, False
        if ropt != "default":
            # 'tiny': far below every singular value of every item (1e-3 sigma_r / sigma_1, but not below twice the
            # default cut-off): no singular value is cut, any least-squares solution is accepted as with the default
            rcond = max(1e-3 / self.cond_of(case), 2.0 * max(m, n) * eps)
            if ropt == "gap" and case["driver"] in ("gelsd", "gelss"):
                # SVD drivers cut exactly the sigma_i <= rcond sigma_1: one rcond (a float) that lies in a gap of
                # EVERY item of the batch, a factor >= 4 from all singular values; else fall back to 'tiny'
                rs2 = np.random.RandomState((case["seed"] + 1) % 2 ** 31)
                j0, tau = _cutoff(rs2, items[0], True)
                js = [int((it.s > tau * it.s[0]).sum()) if it.r else 0 for it in items]
                clear = all(it.r == 0 or ((j == it.r or it.s[j] * 4.0 <= tau * it.s[0]) and
                                          j >= 1 and it.s[j - 1] >= 4.0 * tau * it.s[0]) for it, j in zip(items, js))
                if j0 < items[0].r and clear:
                    rcond, trunc = float(tau), True
                    for it, j in zip(items, js):
                        it.j = j
                        it.xs = _xstar_trunc(it, it.b, j)
            rec.label("lstsq:rcond:" + ("gap_truncating" if trunc else "tiny") + ":" + case["driver"])
        else:
            rec.label("lstsq:rcond:default")
        with rec.sut("LSTSQ(driver=%s, rcond=%s)" % (drv, rcond)):
            solver = ppos.LSTSQ(rcond=rcond, driver=drv)
            _decoy(rec, "lstsq", case.get("seed", 0))
            x = solver(A, b)
        self.describe(case, items, rec, (case["driver"],) + ((ropt, trunc) if ropt != "default" else ()))
        rec.label("driver:" + case["driver"])
        if not rec.check(tuple(x.shape) == tuple(case["batch"]) + (n, 1), "lstsq:shape",
                         "result shape %s for A %s" % (tuple(x.shape), tuple(A.shape))):
            return
        rec.check(torch.equal(A, A0) and torch.equal(b, b0), "lstsq:mutates_input", "LSTSQ changed A or b")
        X = tu.npy(x).reshape(len(items), n)
        for i, it in enumerate(items):
            xi = X[i]
            if not rec.check(bool(np.isfinite(xi).all()), "lstsq:nonfinite", "non-finite solution (item %d)" % i):
                return
            if trunc:
                # rcond inside a spectral gap, SVD driver: the minimum-norm solution of the rank-j truncation (PINV bound)
                err = _nrm(xi - it.xs)
                if it.r == 0 or it.j == 0:
                    rec.check(err == 0.0, "lstsq:rcond_gap:zero", "nothing kept but x = %s" % xi[:4])
                    continue
                sj = it.s[it.j - 1]
                tolx = C_PINV * eps * (it.s[0] / sj) * _nrm(it.b) / sj
                if tolx == 0.0:
                    rec.check(err == 0.0, "lstsq:rcond_gap:b0", "b = 0 but |x| = %.3g" % err)
                    continue
                _note(rec, "lstsq_rcond_err/tol", err / tolx)
                rec.check(err <= tolx, "lstsq:rcond_gap:%s:%s" % (case["driver"], case["dtype"]),
                          lambda: "item %d (%dx%d rank %d, rcond %.3g keeps %d): |x - x_trunc*| = %.3g > tol %.3g; |x|=%.3g"
                          % (i, it.m, it.n, it.r, rcond, it.j, err, tolx, _nrm(xi)))
                continue
            nA = float(it.s[0]) if it.r else 0.0
            res = _nrm(it.A.T @ (it.A @ xi - it.b))
            tol = C_LSTSQ * eps * (max(m, n) + 8) * nA * (nA * _nrm(xi) + _nrm(it.b))
            if tol == 0.0:
                rec.check(res == 0.0, "lstsq:normal_eq:zero", "zero tolerance but residual %.3g" % res)
                continue
            _note(rec, "lstsq_res/tol", res / tol)
            rec.check(res <= tol, "lstsq:normal_eq:%s:%s" % (case["driver"], case["dtype"]),
                      lambda: "item %d (%dx%d rank %d cond %.2g): |A^T(Ax-b)| = %.3g > tol %.3g; |x|=%.3g |x*|=%.3g"
                      % (i, it.m, it.n, it.r, it.s[0] / it.s[-1], res, tol, _nrm(xi), _nrm(it.xs)))


# ----------------------------------------------------------------------------------------------
# Cholesky
CH_KINDS = ("spd", "spd", "spd", "spd", "indef", "weak_indef", "weak_indef", "psd_singular", "singular_int", "zero",
            "batch_mixed", "batch_mixed", "neg_def")


def _int_singular(rs, n):
    """integer PSD matrix L0 L0^T with a zero on the diagonal of L0: Cholesky meets an exact zero pivot"""
    L0 = np.tril(rs.randint(-2, 3, size=(n, n))).astype(np.float64)
    L0[np.arange(n), np.arange(n)] = rs.randint(1, 4, size=n)
    kz = int(rs.randint(0, n))
    L0[kz, kz] = 0.0
    return L0 @ L0.T, kz


@st.composite
def _chol_case(draw):
    dtype = draw(st.sampled_from(("float64", "float64", "float64", "float32")))
    kind = draw(st.sampled_from(CH_KINDS))
    batch = draw(_batch_st())
    if kind == "batch_mixed" and not batch:
        batch = [2]
    return {"kind": kind, "n": draw(_size_st()), "batch": batch, "dtype": dtype, "upper": draw(st.booleans()),
            # weak_indef: 1 or 2 eigenvalues are -10^-dexp lam_max, from clearly negative down to below the rounding
            # level n eps of the dtype (there the factorisation may legitimately succeed)
            "dexp": draw(st.sampled_from(range(3, 18) if dtype == "float64" else range(3, 10))),
            "nneg": draw(st.sampled_from((1, 1, 2))),
            "badkind": draw(st.sampled_from(("indef", "indef", "weak_indef", "psd_singular"))),
            # float32: decades up to 1e5, clipped in the oracle to _cond_cap (cond * n * eps <= 0.1)
            "cond_exp": draw(st.sampled_from(range(0, 9 if dtype == "float64" else 6))),
            "smode": draw(st.sampled_from(SMODES)), "bkind": draw(st.sampled_from(("random", "random", "range", "eig", "zero"))),
            "ascale_exp": draw(st.sampled_from(range(-3, 4))), "bscale_exp": draw(st.sampled_from(range(-3, 4))),
            "factor": draw(st.sampled_from(("qr", "qr", "householder"))), "seed": draw(st.integers(0, 2 ** 31 - 1))}


def _decoy(rec, kind, seed, upper=False):
    """A second, independent solver object of the same class with very different options, constructed AFTER the solver under test
    and BEFORE that one is called (two cases in five).  Solver objects are independent: the options of one object are its own
    (options kept in class-level / module-level state would silently be those of the most recently constructed object - seed C10h)."""
    if seed % 5 not in (1, 3):
        return None
    rec.label("second_solver_object:" + kind)
    if kind == "pinv":
        return ppos.PINV(hermitian=(seed % 5 == 1), rtol=0.5, atol=1e3) if seed % 5 == 1 else ppos.PINV(rtol=0.5)
    if kind == "lstsq":
        return ppos.LSTSQ(rcond=0.5, driver="gelsd")
    if kind == "chol":
        return ppos.Cholesky(upper=not upper)
    return ppos.CG(maxiter=1, tol=0.5)


class Cholesky(Sub):
    name = "cholesky"
    n = {"quick": 4000, "thorough": 100000}

    def strategy(self, tier):
        return _chol_case()

    def _item(self, rs, case, kind, n):
        """returns A (float64), expected-PD flag, x* builder data"""
        cond = min(10.0 ** case["cond_exp"], _cond_cap(case["dtype"], n))
        scale = 10.0 ** case["ascale_exp"]
        if kind == "spd":
            A, Q, lam = LS.spd(rs, n, cond, case["smode"], scale, case["factor"])
            return A, True, (Q, lam)
        if kind == "indef" or kind == "neg_def":
            Q = LS.orth(rs, n)
            lam = LS.spectrum(rs, n, min(cond, 1e3), case["smode"]) * scale    # |lam| in [1e-3, 1] * scale
            sign = np.where(rs.rand(n) < 0.5, -1.0, 1.0)
            if kind == "neg_def":
                sign[:] = -1.0
            if (sign > 0).all():
                sign[int(rs.randint(0, n))] = -1.0
            lam = lam * sign
            A = (Q * lam) @ Q.T
            return 0.5 * (A + A.T), False, (Q, lam)
        if kind == "weak_indef" or kind == "psd_singular":
            # near the boundary of the PD cone: an SPD spectrum with 1-2 eigenvalues replaced by -delta lam_max
            # (delta = 10^-dexp) or by exactly 0 (rank-deficient PSD; the float matrix has lam_min = O(eps) of either sign)
            Q = LS.orth(rs, n)
            lam = LS.spectrum(rs, n, min(cond, 1e3), case["smode"]) * scale
            idx = rs.permutation(n)[:min(n, int(case.get("nneg", 1)))]
            lam[idx] = -(10.0 ** -int(case.get("dexp", 6))) * scale if kind == "weak_indef" else 0.0
            A = (Q * lam) @ Q.T
            return 0.5 * (A + A.T), False, (Q, lam)
        if kind == "singular_int":
            A, _ = _int_singular(rs, n)
            return A, False, None
        if kind == "zero":
            return np.zeros((n, n)), False, None
        raise ValueError(kind)

    def oracle(self, case, rec):
        dtype = case["dtype"]
        eps = tu.EPS[dtype]
        kind = case["kind"]
        if kind == "explicit":
            As = [np.array(case["A"], dtype=np.float64)]
            bs = [np.array(case["b"], dtype=np.float64)]
            pds, refs, batch = [bool(case.get("pd", False))], [None], []
        else:
            rs = np.random.RandomState(case["seed"])
            batch = list(case["batch"])
            nb = int(np.prod(batch)) if batch else 1
            n = case["n"]
            bad = int(rs.randint(0, nb))
            As, bs, pds, refs = [], [], [], []
            for i in range(nb):
                k = kind if kind != "batch_mixed" else (case.get("badkind", "indef") if i == bad else "spd")
                A, pd, ref = self._item(rs, case, k, n)
                g = rs.randn(n)
                if case["bkind"] == "zero":
                    g[:] = 0.0
                elif case["bkind"] == "range":
                    g = A @ g
                elif case["bkind"] == "eig" and ref is not None:
                    g = ref[0][:, int(rs.randint(0, n))].copy()
                As.append(A)
                bs.append(g * 10.0 ** case["bscale_exp"])
                pds.append(pd)
                refs.append(ref)
        n = As[0].shape[0]
        An, tA = zip(*[_cast(A, dtype) for A in As])
        bn, tb = zip(*[_cast(b, dtype) for b in bs])
        A = torch.stack(tA).reshape(batch + [n, n])
        b = torch.stack(tb).reshape(batch + [n, 1])
        A0, b0 = A.clone(), b.clone()
        all_pd = all(pds)
        dec = _decade(min(10.0 ** case.get("cond_exp", 0), _cond_cap(dtype, n)))
        rec.label("chol:" + kind, dtype, "upper" if case.get("upper") else "lower", "cond:1e%d" % dec, "size:" + _cls(n))
        if all_pd:
            rec.label("chol:spd:cond:%s:1e%d" % (dtype, dec))
        sub = kind if kind != "batch_mixed" else "batch_mixed:" + case.get("badkind", "indef")
        if "weak_indef" in sub:
            sub += ":%s:1e-%d" % (dtype, int(case.get("dexp", 6)))
        solver = ppos.Cholesky(upper=bool(case.get("upper", False)))
        _decoy(rec, "chol", case.get("seed", 0), upper=bool(case.get("upper", False)))
        if all_pd:
            with rec.sut("Cholesky"):
                x = solver(A, b)
        else:
            try:
                x = solver(A, b)
            except Exception as e:      # failing loudly is what the property asks for
                rec.label("chol:raised:" + type(e).__name__, "chol:raised:" + sub)
                rec.nt(("chol_fail", sub, _cls(n), tuple(batch), dtype, case.get("upper"), "raised"))
                return
            # (expected only at the PD boundary: eigenvalues of size <= ~n eps |A| of either sign, where the float
            #  factorisation may succeed; anywhere else the residual test below fails)
            rec.label("chol:returned_on_nonpd", "chol:returned:" + sub)
            rec.nt(("chol_fail", sub, _cls(n), tuple(batch), dtype, case.get("upper"), "returned"))
        if all_pd and dec >= 4:
            rec.nt(("chol", _cls(n), dec, case["smode"], case["bkind"], tuple(batch), dtype, case["upper"]))
        if not rec.check(tuple(x.shape) == tuple(batch) + (n, 1), "cholesky:shape", "result shape %s" % (tuple(x.shape),)):
            return
        rec.check(torch.equal(A, A0) and torch.equal(b, b0), "cholesky:mutates_input", "Cholesky changed A or b")
        X = tu.npy(x).reshape(len(As), n)
        for i in range(len(As)):
            xi = X[i]
            if all_pd:
                if not rec.check(bool(np.isfinite(xi).all()), "cholesky:nonfinite", "non-finite solution"):
                    return
                Q, lam = refs[i]
                xs = Q @ ((Q.T @ bn[i]) / lam)
                cond = float(lam[0] / lam[-1])
                tol = C_CHOL * eps * (n + 4) * cond * _nrm(xs)
                err = _nrm(xi - xs)
                if tol == 0.0:
                    rec.check(err == 0.0, "cholesky:b0", "b = 0 but |x| = %.3g" % err)
                    continue
                _note(rec, "chol_err/tol", err / tol)
                rec.check(err <= tol, "cholesky:spd:%s" % dtype,
                          lambda: "item %d n=%d cond %.2g: |x - A^-1 b| = %.3g > tol %.3g" % (i, n, cond, err, tol))
                # backward stability (Higham, ASNA Thm 10.4: (A + dA) x = b, |dA| <= gamma_{3n+1} |R^T||R|): the residual
                # of the float matrix carries no condition-number factor; 4 (n+4) eps >= gamma_{3n+1}
                res = _nrm(An[i] @ xi - bn[i])
                tolb = C_CHOL_BE * (n + 4) * eps * (float(lam[0]) * _nrm(xi) + _nrm(bn[i]))
                _note(rec, "chol_res/tol", res / tolb)
                rec.check(res <= tolb, "cholesky:spd_residual:%s" % dtype,
                          lambda: "item %d n=%d cond %.2g: |A x - b| = %.3g > %.3g = %g (n+4) eps (|A||x| + |b|)"
                          % (i, n, cond, res, tolb, C_CHOL_BE))
            else:
                # the solver returned although (some item of) A is not positive definite: every item must be solved
                nA = float(np.linalg.norm(An[i], 2)) if n else 0.0
                res = _nrm(An[i] @ xi - bn[i]) if np.isfinite(xi).all() else float("inf")
                tol = max(NONPD_RES, C_CHOL * (n + 4) * eps) * (nA * _nrm(xi) + _nrm(bn[i])) if np.isfinite(xi).all() else 0.0
                ok = res <= tol
                rec.check(ok, "cholesky:silent_wrong:%s" % kind,
                          lambda: "A not positive definite (%s, item %d of batch %s, n=%d) but Cholesky returned x "
                          "with |Ax-b| = %.3g (allowed %.3g) instead of raising; A=%s b=%s x=%s"
                          % (kind, i, batch, n, res, tol, np.round(An[i], 4).tolist() if n <= 3 else "...",
                             np.round(bn[i], 4).tolist() if n <= 3 else "...", xi[:3].tolist()))

    def simplify(self, case):
        if case["kind"] == "explicit":
            return
        if case.get("nneg", 1) != 1:
            yield dict(case, nneg=1)
        if case.get("dexp", 3) > 3:
            yield dict(case, dexp=case["dexp"] - 1)
        for key, small in (("batch", [] if case["kind"] != "batch_mixed" else [2]), ("dtype", "float64"),
                           ("upper", False), ("smode", "geom"), ("cond_exp", 0), ("ascale_exp", 0),
                           ("bscale_exp", 0), ("bkind", "random"), ("factor", "qr"), ("seed", 0)):
            if case.get(key) != small:
                yield dict(case, **{key: small})
        v = case["n"]
        for w in sorted({1, 2, 3, v // 2, v - 1}):
            if 1 <= w < v:
                yield dict(case, n=w)


# ----------------------------------------------------------------------------------------------
# conjugate gradient
@st.composite
def _cg_case(draw):
    dtype = draw(st.sampled_from(("float64", "float64", "float64", "float32")))
    n = draw(_size_st())
    layout = draw(st.sampled_from(("dense", "csr", "coo", "bsr")))
    divs = [d for d in (1, 2, 3, 4) if n % d == 0]
    bshape = draw(st.sampled_from(("n1", "n1", "n")))
    # x0 always has the shape (n, 1) of the returned solution - also with a 1-D b (which CG unsqueezes to (n, 1))
    x0 = draw(st.sampled_from(("none", "none", "rand", "near", "exact", "zero")))
    return {"n": n, "dtype": dtype, "akind": draw(st.sampled_from(("dense_spec", "blockdiag", "blockdiag"))),
            "layout": layout, "bs": draw(st.sampled_from(divs)),
            "cond_exp": draw(st.sampled_from((0, 1, 2, 3))), "cond_mant": draw(st.sampled_from((1.0, 3.0))),
            "smode": draw(st.sampled_from(SMODES)), "tol": draw(st.sampled_from((1e-3, 1e-5, 1e-8))),
            "x0": x0, "M": draw(st.sampled_from(("none", "none", "jacobi", "inv_pert"))),
            "mlayout": draw(st.sampled_from(("dense", "csr", "coo", "bsr"))),
            "bshape": bshape, "bkind": draw(st.sampled_from(("rand", "rand", "rand", "eig", "zero"))),
            "ascale_exp": draw(st.sampled_from(range(-3, 4))), "bscale_exp": draw(st.sampled_from(range(-4, 5))),
            "seed": draw(st.integers(0, 2 ** 31 - 1))}


class CGSub(Sub):
    """|b - A x| <= tol |b| + rounding slack.  Slack: CG returns when its RECURSIVELY UPDATED residual r_k satisfies
    |r_k| < tol |b|; the true residual is b - A x_k = r_k + d_k, where the gap d_k collects the local rounding errors of
    r_0 = fl(b - A x0), x += alpha p, q = fl(A p), r -= alpha q:  |d_k| <= eps * sum_j (|A||x_j| + (2 + c_mv)|A||alpha_j p_j|)
    + c_mv eps |A||x0|  (Greenbaum 1997, "Estimating the attainable accuracy of recursively computed residual methods"),
    c_mv ~ sqrt(n) for an n-term inner product in working precision, |x_j| <~ |x| + |x0|.  So the attainable floor is
    c eps sqrt(n) |A| (|x| + |x0|) - it contains NO extra condition-number factor (|A||x| <= cond |b| is already the
    whole cond dependence).  C_CG = 8; measured on the unchanged tree over 4e4 float32 systems (cond <= 1e3, all tol,
    x0 and M kinds): worst (|b - Ax| - tol|b|) / (eps |A| (|x|+|x0|)) = 1.6, independent of n and cond, i.e. pypose's CG
    reaches the floor within its default 10 n iterations also in float32 at cond 1e3; float64 never exceeds tol|b|."""
    name = "cg"
    n = {"quick": 5000, "thorough": 100000}

    def strategy(self, tier):
        return _cg_case()

    def oracle(self, case, rec):
        dtype, n = case["dtype"], case["n"]
        eps = tu.EPS[dtype]
        rs = np.random.RandomState(case["seed"])
        cond = min(1e3, case["cond_mant"] * 10.0 ** case["cond_exp"])
        scale = 10.0 ** case["ascale_exp"]
        if case["akind"] == "dense_spec":
            A, Q, lam = LS.spd(rs, n, cond, case["smode"], scale)
        else:
            A, Q, lam = LS.blockdiag_spd(rs, n, cond, case["smode"], scale)
        An, tA = _cast(A, dtype)
        if case["bkind"] == "zero":
            b = np.zeros(n)
        elif case["bkind"] == "eig":
            b = Q[:, int(rs.randint(0, n))].copy()
        else:
            b = rs.randn(n)
        b = b * 10.0 ** case["bscale_exp"]
        bn, tb = _cast(b, dtype)
        xs = Q @ ((Q.T @ bn) / lam)
        x0n = None
        if case["x0"] == "rand":
            x0n = rs.randn(n) * (_nrm(xs) / math.sqrt(n) if _nrm(xs) > 0 else 1.0)
        elif case["x0"] == "near":
            x0n = xs * (1.0 + 1e-3 * rs.randn(n))
        elif case["x0"] == "exact":
            x0n = xs.copy()
        elif case["x0"] == "zero":
            x0n = np.zeros(n)
        Mn = None
        if case["M"] == "jacobi":
            Mn = np.diag(1.0 / np.diag(An))
        elif case["M"] == "inv_pert":
            Ainv = (Q / lam) @ Q.T
            E = rs.randn(n, n)
            E = 0.5 * (E + E.T)
            E *= 0.2 * (1.0 / lam.max()) / max(np.linalg.norm(E, 2), 1e-300)   # |E| <= 0.2 lam_min(A^-1): M stays SPD
            Mn = Ainv + E
            Mn = 0.5 * (Mn + Mn.T)
        lay, mlay = case["layout"], case["mlayout"]
        rec.label("cg:A:" + lay, "cg:x0:" + case["x0"], "cg:M:" + case["M"] + (":" + mlay if Mn is not None else ""),
                  "cg:tol:%g" % case["tol"], "cg:b:" + case["bkind"] + ":" + case["bshape"], dtype,
                  "cg:cond:1e%d" % case["cond_exp"], "cg:cond:%s:1e%d" % (dtype, case["cond_exp"]), "cg:" + case["akind"],
                  "size:" + _cls(n))
        if case["x0"] != "none":
            rec.label("cg:x0_with_b:" + case["bshape"])
        if not CG_LAYOUT_OK[(lay, dtype)] or (Mn is not None and not CG_LAYOUT_OK[(mlay, dtype)]):
            rec.label("cg:layout_unsupported_by_torch:%s/%s" % (lay, mlay))
            return
        bs = (case["bs"], case["bs"])
        SA = _to_layout(tA, lay, bs)
        tbb = tb.reshape(n, 1) if case["bshape"] == "n1" else tb.reshape(n)
        kw = {}
        if x0n is not None:
            x0n, tx0 = _cast(x0n, dtype)
            kw["x"] = tx0.reshape(n, 1)
        if Mn is not None:
            Mn, tM = _cast(Mn, dtype)
            kw["M"] = _to_layout(tM, mlay, bs)
        keep = {k: (v.to_dense() if v.layout != torch.strided else v).clone() for k, v in kw.items()}
        b_keep, A_keep = tbb.clone(), tA.clone()
        # the solver object may have a past: one case in three first solves a small (2 x 2 or 3 x 3) system with the same object.
        # "CG returns x with |b - A x| <= tol |b| ... with its default 10 n iterations" holds for every call, not only for the first
        # one of an object (an iteration budget or a work buffer frozen by the first call would be invisible otherwise - seed C10e)
        reused = case["seed"] % 3 == 0
        with rec.sut("CG(%s)" % lay):
            solver = ppos.CG(tol=case["tol"])
            _decoy(rec, "cg", case.get("seed", 0))
            if reused:
                k0 = 2 + case["seed"] % 2
                solver(torch.eye(k0, dtype=tA.dtype) * 2.0, torch.ones(k0, 1, dtype=tA.dtype))
                rec.label("cg:solver_object_reused")
            x = solver(SA, tbb, **kw)
        if x0n is not None or Mn is not None:
            rec.nt(("cg", lay, case["x0"], case["M"], mlay if Mn is not None else "-", case["tol"], case["cond_exp"],
                    case["bkind"], _cls(n), dtype, case["akind"], case["bshape"] if x0n is not None else "-"))
        # side checks: arguments are not modified (x0 overwrite was finding F3 / C06)
        if "x" in kw:
            rec.check(torch.equal(kw["x"], keep["x"]), "cg:mutates_x0", "CG overwrote the caller's initial guess x")
        if "M" in kw:
            Md = kw["M"].to_dense() if kw["M"].layout != torch.strided else kw["M"]
            rec.check(torch.equal(Md, keep["M"]), "cg:mutates_M", "CG changed the preconditioner")
        SAd = SA.to_dense() if SA.layout != torch.strided else SA
        rec.check(torch.equal(tbb, b_keep) and torch.equal(SAd, A_keep), "cg:mutates_input", "CG changed A or b")
        if not rec.check(isinstance(x, torch.Tensor) and x.numel() == n, "cg:shape",
                         "result has %s elements for n=%d" % (getattr(x, "shape", None), n)):
            return
        xd = x.to_dense() if x.layout != torch.strided else x
        xi = tu.npy(xd).reshape(n)
        if not rec.check(bool(np.isfinite(xi).all()), "cg:nonfinite", "non-finite solution"):
            return
        nb = _nrm(bn)
        if nb == 0.0:
            rec.check(not xi.any(), "cg:b0", "b = 0 but x = %s" % xi[:4])
            return
        res = _nrm(bn - An @ xi)
        nA = float(lam.max())
        nx0 = _nrm(x0n) if x0n is not None else 0.0
        slack = C_CG * eps * math.sqrt(n) * nA * (_nrm(xi) + nx0)
        tol = case["tol"] * nb + slack
        if slack > 0:       # by design CG stops just below tol|b|: the calibrated quantity is the excess over it
            _note(rec, "cg_excess/rounding_slack:" + dtype, (res - case["tol"] * nb) / slack)
        rec.check(res <= tol, "cg:residual:%s" % dtype,
                  lambda: "n=%d cond=%.3g %s tol=%g x0=%s M=%s |b|=%.3g: |b - Ax| = %.3g > %.3g"
                  % (n, cond, lay, case["tol"], case["x0"], case["M"], nb, res, tol))

    def simplify(self, case):
        for key, small in (("dtype", "float64"), ("layout", "dense"), ("mlayout", "dense"), ("M", "none"),
                           ("x0", "none"), ("akind", "dense_spec"), ("smode", "geom"), ("cond_exp", 0),
                           ("cond_mant", 1.0), ("ascale_exp", 0), ("bscale_exp", 0), ("bshape", "n1"),
                           ("bkind", "rand"), ("bs", 1), ("seed", 0)):
            if case.get(key) != small:
                yield dict(case, **{key: small})
        v = case["n"]
        for w in sorted({1, 2, 3, v // 2, v - 1}):
            if 1 <= w < v:
                yield dict(case, n=w, bs=1)


# ----------------------------------------------------------------------------------------------
# sparse products
STYLES = ("rand", "rand", "rand", "full", "empty", "diag", "band", "first", "last", "rand_emptyrow", "rand_emptycol")
DENS = (0.0, 0.1, 0.2, 0.3, 0.5, 0.8, 1.0)


def _block_tensor(vals, mask, layout, dtype):
    """torch tensor of the block matrix `vals` (br,bc,bm,bn) in the requested layout; BSR/BSC are built from
    explicit index arrays so that stored-but-zero blocks survive"""
    br, bc, bm, bn = vals.shape
    D = torch.tensor(LS.to_dense(vals), dtype=tu.TD[dtype])
    if layout in ("dense", "coo", "csr", "csc"):
        return _to_layout(D, layout)
    tv = torch.tensor(vals, dtype=tu.TD[dtype])
    if layout == "bsr":
        crow, col, row = LS.compressed_rows(mask)
        v = tv[torch.tensor(row), torch.tensor(col)] if len(col) else torch.zeros((0, bm, bn), dtype=tu.TD[dtype])
        return torch.sparse_bsr_tensor(torch.tensor(crow), torch.tensor(col), v, size=(br * bm, bc * bn))
    ccol, row, col = LS.compressed_rows(mask.T)
    v = tv[torch.tensor(row), torch.tensor(col)] if len(row) else torch.zeros((0, bm, bn), dtype=tu.TD[dtype])
    return torch.sparse_bsc_tensor(torch.tensor(ccol), torch.tensor(row), v, size=(br * bm, bc * bn))


def _dense_of(Y):
    return Y.to_dense() if Y.layout != torch.strided else Y


def _structure_ok(Y):
    """minimal consistency of a compressed sparse result (what to_dense relies on; unsorted indices are fine)"""
    if Y.layout not in (torch.sparse_csr, torch.sparse_csc, torch.sparse_bsr, torch.sparse_bsc):
        return
    rowwise = Y.layout in (torch.sparse_csr, torch.sparse_bsr)
    comp = (Y.crow_indices() if rowwise else Y.ccol_indices()).tolist()
    plain = (Y.col_indices() if rowwise else Y.row_indices()).tolist()
    vals = Y.values()
    bshape = tuple(vals.shape[1:]) if vals.ndim == 3 else (1, 1)
    ncomp = Y.shape[0 if rowwise else 1] // bshape[0 if rowwise else 1]
    nplain = Y.shape[1 if rowwise else 0] // bshape[1 if rowwise else 0]
    assert len(comp) == ncomp + 1 and comp[0] == 0, "compressed index array %s for %d block rows/cols" % (comp, ncomp)
    assert all(a <= b for a, b in zip(comp, comp[1:])), "compressed indices not monotone: %s" % comp
    assert comp[-1] == len(plain) == vals.shape[0], "nnz mismatch: compressed end %d, %d plain indices, %d value blocks" \
        % (comp[-1], len(plain), vals.shape[0])
    assert all(0 <= j < nplain for j in plain), "plain index out of range: %s (limit %d)" % (plain, nplain)


def _check_product(rec, Y, An, Bn, integer, dtype, what, tag):
    """compare a returned product with the float64 numpy product of the (dtype-rounded) operands"""
    P = An @ Bn
    if not rec.check(isinstance(Y, torch.Tensor), "sparse:type:" + tag, "%s returned %s" % (what, type(Y).__name__)):
        return
    if not rec.check(tuple(Y.shape) == P.shape, "sparse:shape:" + tag,
                     "%s: result shape %s, dense product %s" % (what, tuple(Y.shape), P.shape)):
        return
    try:        # a malformed sparse result (inconsistent index / value arrays) is a wrong product and must not reach to_dense
        _structure_ok(Y)
        Yd = tu.npy(_dense_of(Y))
    except Exception as e:
        rec.fail("sparse:invalid_result:" + tag, "%s returned a malformed %s tensor: %s" % (what, Y.layout, str(e)[:300]))
        return
    if integer:
        rec.check(bool(np.array_equal(Yd, P)), "sparse:product:" + tag,
                  lambda: "%s: %d of %d entries differ from the dense product (max |diff| %.3g)"
                  % (what, int((Yd != P).sum()), P.size, float(np.abs(Yd - P).max())))
    else:
        K = An.shape[1]
        tol = 4 * tu.EPS[dtype] * max(K, 1) * (np.abs(An).max() if An.size else 0.0) * (np.abs(Bn).max() if Bn.size else 0.0)
        err = float(np.abs(Yd - P).max()) if P.size else 0.0
        if tol > 0:
            _note(rec, "sparse_err/tol", err / tol)
        rec.check(err <= tol, "sparse:product_real:" + tag,
                  lambda: "%s: max |result - dense product| = %.3g > %.3g" % (what, err, tol))


@st.composite
def _sparse_case(draw):
    la, lb = draw(st.sampled_from(LAYOUTS)), draw(st.sampled_from(LAYOUTS))
    if draw(st.sampled_from((True, True, False, False, False))):
        la, lb = "bsr", "bsc"                 # pypose's own kernel gets 40 % of the budget
    # block-grid dimensions: mostly small (many patterns per second), one case in ~6 per dimension reaches out to the
    # stated limit "matrix sizes 1..40" (grid dimension x block size <= 40), so long block rows / columns (dozens of stored
    # blocks in one merge) are generated too
    # (no zero dimensions: the statement's sizes are 1..40 and pypose documents no empty operands; "empty" in the
    #  statement is the empty sparsity PATTERN, styles empty / density 0)
    dims = st.sampled_from((1, 1, 1, 2, 2, 2, 3, 3, 3, 4, 4, 5, 5, 6, 6, 9, 14, 20, 40))
    bm, bi, bn = (draw(st.sampled_from((1, 1, 2, 3, 4))) for _ in range(3))
    return {"br": min(draw(dims), 40 // bm), "bk": min(draw(dims), 40 // bi), "bc": min(draw(dims), 40 // bn),
            "bm": bm, "bi": bi, "bn": bn,
            "la": la, "lb": lb, "api": draw(st.sampled_from(("dispatch", "dispatch", "direct"))),
            "integer": draw(st.sampled_from((True, True, False))),
            "dtype": draw(st.sampled_from(("float64", "float64", "float32"))),
            "styleA": draw(st.sampled_from(STYLES)), "styleB": draw(st.sampled_from(STYLES)),
            "densA": draw(st.sampled_from(DENS)), "densB": draw(st.sampled_from(DENS)),
            "zero_prob": draw(st.sampled_from((0.0, 0.0, 0.3))),
            # bi2 != 0: B uses another blocking (bi2) of the same inner dimension - may raise, must not be wrong
            "bi2": draw(st.sampled_from((0, 0, 0, 0, 0, 0, 1, 2, 3, 4))), "seed": draw(st.integers(0, 2 ** 31 - 1))}


class Sparse(Sub):
    fuzz_runs = 15000     # thorough tier: additional coverage-guided (atheris) campaign, same strategy / oracle
    name = "sparse"
    n = {"quick": 6000, "thorough": 120000}

    def strategy(self, tier):
        return _sparse_case()

    def oracle(self, case, rec):
        rs = np.random.RandomState(case["seed"])
        dtype, integer = case["dtype"], bool(case["integer"])
        la, lb = case["la"], case["lb"]
        if min(case["br"], case["bk"], case["bc"]) < 1:      # (only older replay files / shrunk cases get here)
            rec.discard_case("zero-sized operand: outside the stated sizes 1..40")
        mA = LS.block_pattern(rs, case["br"], case["bk"], case["densA"], case["styleA"])
        K = case["bk"] * case["bi"]
        bi2 = int(case.get("bi2", 0))
        reblocked = bool(bi2 and bi2 != case["bi"] and K and K % bi2 == 0)
        bkB, biB = (K // bi2, bi2) if reblocked else (case["bk"], case["bi"])
        mB = LS.block_pattern(rs, bkB, case["bc"], case["densB"], case["styleB"])
        vA = LS.block_values(rs, mA, case["bm"], case["bi"], integer, case["zero_prob"])
        vB = LS.block_values(rs, mB, biB, case["bn"], integer, case["zero_prob"])
        if not integer:
            vA = torch.tensor(vA, dtype=tu.TD[dtype]).to(torch.float64).numpy()
            vB = torch.tensor(vB, dtype=tu.TD[dtype]).to(torch.float64).numpy()
        An, Bn = LS.to_dense(vA), LS.to_dense(vB)
        SA = _block_tensor(vA, mA, la, dtype)
        SB = _block_tensor(vB, mB, lb, dtype)
        direct = case["api"] == "direct" and (la, lb) == ("bsr", "bsc")
        must = direct or (la, lb) in MUST_RETURN
        tag = "%s_%s" % (la, lb)
        if case["api"] == "direct" and (la, lb) in DIRECT_EXTRA:
            # bsr_bsc_matmul has no docstring; its own asserts admit CSR for the first and CSC for the second operand:
            # called directly on those it may raise, but must not return a wrong product (then the dispatcher, as usual)
            try:
                Yd = spops.bsr_bsc_matmul(SA, SB)
            except BaseException as e:
                if isinstance(e, (KeyboardInterrupt, SystemExit, MemoryError)):
                    raise
                rec.label("sparse:direct:raised:" + tag)
            else:
                rec.label("sparse:direct:returned:" + tag)
                _check_product(rec, Yd, An, Bn, integer, dtype, "bsr_bsc_matmul(%s, %s)" % (la, lb), "direct:" + tag)
        if reblocked and "bsr" in (la, lb) or reblocked and "bsc" in (la, lb):
            must = False                       # operands blocked differently along the inner dimension
            rec.label("sparse:reblocked_inner")
        what = "%s(%s %s, %s %s)" % ("bsr_bsc_matmul" if direct else "_sparse_csr_mm", la, tuple(SA.shape), lb, tuple(SB.shape))
        dA = float(mA.mean()) if mA.size else 0.0
        dB = float(mB.mean()) if mB.size else 0.0
        empty_line = bool(mA.size and (not mA.any(1).all() or not mA.any(0).all())) or \
            bool(mB.size and (not mB.any(1).all() or not mB.any(0).all())) or mA.size == 0 or mB.size == 0
        rec.label("pair:" + tag, "int" if integer else "real", dtype, "api:direct" if direct else "api:dispatch")
        try:
            Y = spops.bsr_bsc_matmul(SA, SB) if direct else spops._sparse_csr_mm(SA, SB)
        except BaseException as e:      # `raise NotImplemented` surfaces as TypeError; all of these are loud
            if isinstance(e, (KeyboardInterrupt, SystemExit, MemoryError)):
                raise
            if not must:
                rec.label("sparse:raised:" + tag)
                return
            try:
                torch.matmul(SA, SB)
                backend_ok = True
            except Exception:
                backend_ok = False
            if (la, lb) != ("bsr", "bsc") and not backend_ok:
                rec.label("sparse:backend_unsupported:" + tag)     # torch itself has no kernel (e.g. non-square BSR blocks)
                return
            rec.fail("sparse:raises:%s:%s" % (tag, type(e).__name__),
                     "%s raised %s: %s (blocks %dx%d * %dx%d, patterns %s / %s)"
                     % (what, type(e).__name__, str(e)[:200], case["bm"], case["bi"], case["bi"], case["bn"],
                        mA.astype(int).tolist(), mB.astype(int).tolist()))
            return
        rec.label("sparse:returned:" + tag)
        if must and (empty_line or min(dA, dB) < 0.3):
            rec.nt((tag, "direct" if direct else "disp", case["styleA"], case["styleB"], round(dA, 1), round(dB, 1),
                    (case["br"], case["bk"], case["bc"]), (case["bm"], case["bi"], case["bn"]), integer, dtype))
        if (la, lb) == ("bsr", "bsc"):
            longest = max(int(mA.sum(1).max()) if mA.size else 0, int(mB.sum(0).max()) if mB.size else 0)
            rec.label("bsr_bsc:longest_line:" + ("0" if longest == 0 else "1-4" if longest <= 4 else "5-16" if longest <= 16 else "17-40"))
        _check_product(rec, Y, An, Bn, integer, dtype, what, tag)

    def simplify(self, case):
        for key, small in (("dtype", "float64"), ("integer", True), ("zero_prob", 0.0), ("api", "dispatch"),
                           ("bi2", 0), ("bm", 1), ("bi", 1), ("bn", 1), ("seed", 0)):
            if case.get(key) != small:
                yield dict(case, **{key: small})
        for key in ("br", "bk", "bc"):
            v = case[key]
            for w in sorted({1, 2, v - 1}):
                if 1 <= w < v:
                    yield dict(case, **{key: w})
        for key in ("styleA", "styleB"):
            if case[key] != "full":
                yield dict(case, **{key: "full"})


class Patterns(Sub):
    """every sparsity pattern of small block products through pypose's BSR x BSC merge-join"""
    name = "patterns"
    kind = "enum"
    exhaustive = True      # all patterns of the stated shapes; values are an injective encoding of (row, k, col)

    SHAPES = [(1, k, 1) for k in range(1, 7)] + [(2, k, 2) for k in range(1, 4)] + [(3, 2, 1), (1, 2, 3)]

    def cases(self, tier):
        for (br, bk, bc) in self.SHAPES:
            for pa in range(2 ** (br * bk)):
                for pb in range(2 ** (bk * bc)):
                    yield {"br": br, "bk": bk, "bc": bc, "pa": pa, "pb": pb}

    def oracle(self, case, rec):
        br, bk, bc = case["br"], case["bk"], case["bc"]
        mA = np.array([(case["pa"] >> i) & 1 for i in range(br * bk)], dtype=bool).reshape(br, bk)
        mB = np.array([(case["pb"] >> i) & 1 for i in range(bk * bc)], dtype=bool).reshape(bk, bc)
        # a_ik = 2^k, b_kj = 2^(7k): a_ik1 * b_k2j = 2^(k1 + 7 k2) identifies the matched pair (k1, k2); sums of
        # distinct powers below 2^48 are exact in float64
        # (times a row factor p_i in {1,3,5} and a column factor q_j in {1,7,11}: results cannot move between entries)
        pi, qj = np.array([1.0, 3.0, 5.0])[:br], np.array([1.0, 7.0, 11.0])[:bc]
        vA = (pi[:, None] * 2.0 ** np.arange(bk)[None, :] * mA)[:, :, None, None]
        vB = (2.0 ** (7 * np.arange(bk))[:, None] * qj[None, :] * mB)[:, :, None, None]
        SA = _block_tensor(vA, mA, "bsr", "float64")
        SB = _block_tensor(vB, mB, "bsc", "float64")
        with rec.sut("_sparse_csr_mm(bsr, bsc)"):
            Y = spops._sparse_csr_mm(SA, SB)
        full = mA.all() and mB.all()
        if not full:
            rec.nt(("pat", br, bk, bc, case["pa"], case["pb"]))
        rec.label("shape:%dx%dx%d" % (br, bk, bc))
        _check_product(rec, Y, LS.to_dense(vA), LS.to_dense(vB), True, "float64",
                       "patterns A=%s B=%s" % (mA.astype(int).tolist(), mB.astype(int).tolist()), "bsr_bsc:pattern")

    def simplify(self, case):
        for key in ("pa", "pb"):
            v = case[key]
            for i in range(v.bit_length()):
                if (v >> i) & 1:
                    yield dict(case, **{key: v & ~(1 << i)})


SUBS = [Pinv(), Lstsq(), Cholesky(), CGSub(), Sparse(), Patterns()]


# ----------------------------------------------------------------------------------------------
def selftest():
    """the reference constructions against second formulations (numpy pinv / eigvalsh / explicit loops)"""
    rs = np.random.RandomState(12345)
    for struct in sorted(set(STRUCTS)):
        for rankmode in ("full", "def1", "zero"):
            for (m, n) in ((5, 3), (3, 6), (4, 4), (1, 1), (2, 7)):
                it = _make_item(rs, m, n, struct, rankmode, 50.0, "rand", 2.0, "qr", 0)
                assert it.A.shape == (it.m, it.n)
                assert np.allclose((it.Ur * it.s) @ it.Vr.T, it.A, atol=1e-13 * max(1.0, np.abs(it.A).max())), struct
                if it.r:
                    assert np.allclose(it.Ur.T @ it.Ur, np.eye(it.r), atol=1e-12), struct
                    assert np.allclose(it.Vr.T @ it.Vr, np.eye(it.r), atol=1e-12), struct
                    assert np.linalg.matrix_rank(it.A, tol=1e-9 * it.s[0]) == it.r
                for kind in BKINDS:
                    b = _make_rhs(rs, it, kind, 1.0)
                    xs = _xstar(it, b)
                    ref = np.linalg.pinv(it.A, rcond=1e-10) @ b
                    assert np.allclose(xs, ref, atol=1e-9 * (1 + np.abs(ref).max())), (struct, rankmode, kind)
    for n in (1, 2, 7):
        for mk in (LS.spd, LS.blockdiag_spd):
            A, Q, lam = mk(rs, n, 100.0, "geom", 3.0)
            assert np.allclose(np.sort(np.linalg.eigvalsh(A)), np.sort(lam), rtol=1e-10)
            assert np.allclose((Q * lam) @ Q.T, A, atol=1e-12)
    A, kz = _int_singular(rs, 5)
    assert abs(np.linalg.det(A)) < 1e-6 and np.linalg.eigvalsh(A).min() > -1e-9
    A, kz = _int_singular(rs, 40)           # exactly representable in float32 at every size: integer entries << 2^24
    assert np.array_equal(A, np.round(A)) and np.abs(A).max() < 2 ** 20 and np.array_equal(_cast(A, "float32")[0], A)
    assert np.linalg.eigvalsh(A).min() > -1e-9 * np.abs(A).max() and np.linalg.matrix_rank(A) == 39
    # explicit cut-offs: the truncated reference against numpy's pinv with the same rcond; cut-offs clear of the spectrum
    for smode in SMODES:
        it = _make_item(rs, 9, 7, "svd", "full", 1e6, smode, 3.0, "qr", 0)
        b = _make_rhs(rs, it, "random", 1.0)
        for gap in (True, False):
            j, tau = _cutoff(rs, it, gap)
            assert 1 <= j <= it.r and it.s[j - 1] >= 3.999 * tau * it.s[0] and (j == it.r or 3.999 * it.s[j] <= tau * it.s[0])
            assert gap or j == it.r
            ref = np.linalg.pinv(it.A, rcond=tau) @ b
            assert np.allclose(_xstar_trunc(it, b, j), ref, atol=1e-9 * (1 + np.abs(ref).max())), (smode, gap)
    assert _cond_cap("float64", 40) == 1e8 and 2.0e4 < _cond_cap("float32", 40) < 2.2e4 and _decade(3e4) == 4 and _decade(1.0) == 0
    # block helpers: explicit BSR / BSC construction reproduces the dense matrix
    mask = np.array([[1, 0, 1], [0, 0, 0]], dtype=bool)
    vals = LS.block_values(rs, mask, 2, 3, True)
    D = LS.to_dense(vals)
    for i, j in itertools.product(range(2), range(3)):
        assert np.array_equal(D[2 * i:2 * i + 2, 3 * j:3 * j + 3], vals[i, j])
    for lay in LAYOUTS:
        assert np.array_equal(tu.npy(_dense_of(_block_tensor(vals, mask, lay, "float64"))), D), lay
