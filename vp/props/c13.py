"""C13 - EKF / UKF equal the Kalman filter on linear-Gaussian systems; covariances valid; PF converges."""
import math
import numpy as np
import mpmath as mp
import torch
import pypose as pp
from hypothesis import strategies as st

from ..core import Sub
from .. import tu, gen

PROPERTY = "C13"
RULE = ("linear: Hypothesis draws linear systems (NLS subclasses implementing x' = A x + B u + c1, y = C x' + D u + c2; state / input / "
        "observation dims 1..6; spectral radius of A in [0.2,1.5]; SPD Q, R, P built as U diag(10^[-3,3]) U^T independently, P never "
        "diagonal - and, one case in four, the well-conditioned stratum with Q, R, P all inside ONE common decade, where the tolerance "
        "is at its tightest in every dimension), arbitrary measurement y, UKF sigma parameter k from {None} U {-n+1..10}, and runs of "
        "1..50 consecutive steps feeding (x,P) back (quick: runs of 26..50 steps get about one case in 32, thorough: uniform).  Oracle: "
        "the Kalman predict-then-update recursion with the innovation at the predicted state evaluated in 50-digit "
        "mpmath; every step is checked LOCALLY (reference posterior from the filter's own previous output) with backward-error shaped "
        "tolerances |P-Pref| <= 128 n eps g |P^-|, |x-xref| <= 128 n eps g (mx + |K| my) with g = kappa(S) max(1,|K||C|), mx = | |A||x| + |B||u| + |c1| | and "
        "my = | |y| + |C| mx + |D||u| + |c2| | the magnitudes of the terms x^- and the innovation are sums of (a forward bound: x^- may be tiny by cancellation) (UKF "
        "additionally x sqrt(kappa(P^-)) and its weight magnitude for the Cholesky-based sigma points), plus symmetry / positive-semidefiniteness of the returned covariance (UKF only for centre "
        "weight >= 0).  A run ends early only when the returned covariance is no longer positive definite (it cannot be the next prior): "
        "that is a violation unless the 50-digit posterior from the same prior is itself singular to within the step's tolerance "
        "(label prior_lost_pd_stop:conditioning).  nonlinear: f = M1 x + a sin(M2 x) + b x.x + B u + s(t), g analogous, dims 1..6, runs of "
        "1..50 steps (quick: one case in 16 longer than 8), ended when |x| leaves 1e3.  EKF (4 cases in 7): the same recursion with A = df/dx, "
        "C = dg/dx at the prior mean (closed-form derivatives) and innovation y - g(f(x,u),u), covariance symmetric PSD.  UKF with centre "
        "weight >= 0 (k in 0..10, or the default 3-n for n <= 3; 2 in 7) and PF (1000 particles, thorough also 4000; 1 in 7) on the same "
        "family: returned mean / covariance finite, covariance symmetric and PSD - UKF within 256 eps n (kappa(P_y) max(|P^-|,|K|^2|P_y|) + "
        "|x^-| sqrt(|P^-|/(n+k)) + |P^-|) (gain through pinv, cancellation in the sigma deviations, Cholesky), PF within 256 eps |P|.  "
        "pf: linear systems, dims 1..6, y within 1.2 (3 cases in 4) or 3 (1 in 4) predictive Cholesky units; the particle count is tied "
        "to the closed-form effective sample size N / rho, rho = E[L^2]/E[L]^2 of the documented weights: N = the drawn 1e3 / 4e3 "
        "(thorough: up to 6e4, compared with 16 N <= 9.6e5), raised one rung (x4; quick: only 1e3 -> 4e3) where the case allows it, and R doubled until "
        "N / rho >= 100.  40 independent PF runs (torch seeds derived from the case) must have empirical mean "
        "within 6 standard errors + 3 (rho/N)(|mu2 - mu| + sd) of the closed-form posterior mean of the DOCUMENTED particle model (prior "
        "N(x, nP), propagation through f, Gaussian likelihood of y at the propagated particle; (rho/N)(mu2 - mu) is the leading bias of a "
        "self-normalised importance sampling mean), RMS error must shrink by a factor in [1.6,10] from N "
        "to 16N, covariance symmetric PSD.  Non-trivial: P with off-diagonal ratio > 0.1 and C not a multiple of I; run length >= 5; "
        "distinct = (filter, dims, k, scale stratum, run length class).")
ASSUMPTIONS = ["filters are driven through NLS subclasses (LTI.state_transition has no t keyword)",
               "float64; Q, R, P SPD with condition <= 1e6 each; UKF k integer > -n",
               "PF: statistical acceptance test (>= 6 sigma band + first-order importance-sampling bias allowance): a bias below that band is invisible",
               "PF: the measurement is kept within 1.2 (one case in four: 3) Cholesky units of the predicted one, and R is scaled up (label "
               "R_doubled_for_ESS) until the effective sample size N/rho is >= 100: with more informative / more distant measurements the "
               "Monte-Carlo error at N <= 6e4 particles is not in its asymptotic regime and neither the 6-sigma band nor the rate test "
               "would be sound; in dims 5..6 that means mostly weakly informative measurements",
               "nonlinear UKF / PF: only the covariance clause (finite, symmetric, PSD) is asserted, for UKF only with centre weight >= 0; "
               "their values on nonlinear systems are not compared with anything (the statement makes no claim)"]

mp.mp.dps = 50


def orth(rs, n):
    Q, _ = np.linalg.qr(rs.randn(n, n))
    return Q


def spd(rs, n, lo=-3, hi=3, force_offdiag=False):
    lam = 10.0 ** rs.uniform(lo, hi, size=n)
    if n > 1:
        lam = lam * 10.0 ** (-np.abs(rs.randn(n)))          # spread
    U = orth(rs, n)
    M = U @ np.diag(lam) @ U.T
    return (M + M.T) / 2


def weighted(*pairs):
    """choice among strategies with integer weights (one_of would drop repeated alternatives, sampled_from keeps repeats)"""
    idx = [i for i, (_, w) in enumerate(pairs) for _ in range(w)]
    return st.sampled_from(idx).flatmap(lambda i: pairs[i][0])


def spd_decade(rs, n, d):
    """SPD with all eigenvalues inside the one decade [10^d, 10^(d+1)], random eigenvectors"""
    U = orth(rs, n)
    M_ = U @ np.diag(10.0 ** rs.uniform(d, d + 1, size=n)) @ U.T
    return (M_ + M_.T) / 2


def system(seed, nx, nu, ny, wc=False):
    """wc: the well-conditioned stratum - Q, R, P all inside ONE common decade (drawn after everything else, so that the
    random stream of the default stratum - and with it every saved replay - is unchanged)"""
    s = _system(seed, nx, nu, ny)
    if wc:
        rs = s["rs"]
        d = rs.uniform(-3, 2)
        s["Q"], s["R"], s["P"] = spd_decade(rs, nx, d), spd_decade(rs, ny, d), spd_decade(rs, nx, d)
    return s


def _system(seed, nx, nu, ny):
    rs = np.random.RandomState(seed)
    A = rs.randn(nx, nx)
    rho = max(abs(np.linalg.eigvals(A)))
    A = A / rho * rs.uniform(0.2, 1.5)
    B, C, D = rs.randn(nx, nu), rs.randn(ny, nx), rs.randn(ny, nu)
    if rs.rand() < 0.15 and ny == nx:
        C = np.eye(nx) * rs.uniform(0.5, 2)
    return {"A": A, "B": B, "C": C, "D": D, "c1": rs.randn(nx), "c2": rs.randn(ny),
            "Q": spd(rs, nx), "R": spd(rs, ny), "P": spd(rs, nx), "x": rs.randn(nx) * 10 ** rs.uniform(-1, 1), "rs": rs}


class LinNLS(pp.module.NLS):
    def __init__(self, s):
        super().__init__()
        for k in ("A", "B", "C", "D", "c1", "c2"):
            self.register_buffer("_" + k, torch.tensor(s[k]))

    def state_transition(self, state, input, t=None):
        return pp.bmv(self._A, state) + pp.bmv(self._B, input) + self._c1

    def observation(self, state, input, t=None):
        return pp.bmv(self._C, state) + pp.bmv(self._D, input) + self._c2


def M(a):
    return mp.matrix(np.asarray(a, dtype=np.float64).tolist())


def kalman_mp(A, B, C, D, c1, c2, Q, Rm, x, P, u, y, fx=None, gx=None):
    """one predict-then-update step in mpmath; fx/gx override the (nonlinear) transition / observation values"""
    A, C, Q, Rm, P = M(A), M(C), M(Q), M(Rm), M(P)
    xm = M(fx) if fx is not None else A * M(x) + M(B) * M(u) + M(c1)
    Pm = A * P * A.T + Q
    S = C * Pm * C.T + Rm
    K = Pm * C.T * mp.inverse(S)
    ym = M(gx) if gx is not None else C * xm + M(D) * M(u) + M(c2)
    inn = M(y) - ym
    xp = xm + K * inn
    Pp = (mp.eye(P.rows) - K * C) * Pm
    f = lambda m: np.array(m.tolist(), dtype=np.float64).reshape(m.rows, m.cols)
    return {"xm": f(xm)[:, 0], "Pm": f(Pm), "S": f(S), "K": f(K), "C": f(C), "inn": f(inn)[:, 0], "xp": f(xp)[:, 0], "Pp": f(Pp)}


def check_cov(rec, name, P, scale, eps=2.2e-16, c=256.0):
    asym = float(np.abs(P - P.T).max())
    rec.notes["asym:" + name] = max(rec.notes.get("asym:" + name, 0), asym / (c * eps * scale))
    ok = rec.check(asym <= c * eps * scale, "cov_asym:" + name, lambda: "%s covariance asymmetric by %.3g (scale %.3g)" % (name, asym, scale))
    lam = float(np.linalg.eigvalsh((P + P.T) / 2).min())
    rec.notes["psd:" + name] = max(rec.notes.get("psd:" + name, 0), -lam / (c * eps * scale))
    return rec.check(lam >= -c * eps * scale, "cov_not_psd:" + name, lambda: "%s covariance has eigenvalue %.3g (scale %.3g)" % (name, lam, scale)) and ok


def compare_step(rec, name, ref, x, P, extra=1.0, terms=None, absP=0.0):
    """backward-error shaped comparison: K = P^- C^T S^-1 carries a relative error eps*kappa(S) and the update (I - K C) P^- then
    cancels, so errors scale with eps * kappa(S) * max(1, |K||C|) * |P^-| (times the dimension for the accumulated products).
    The mean x+ = x^- + K (y - yhat) is a FORWARD bound on the terms it is assembled from: x^- = A x + B u + c1 and
    yhat = C x^- + D u + c2 are themselves sums that may cancel (x^- tiny although |A||x|, |B||u| are not), and the rounding
    error of a sum scales with the sum of the magnitudes of its terms, not with its value.  terms = (mx, my) are those magnitudes,
    mx >= |x^-| for the predicted state and my >= |y - yhat| for the innovation (which inherits |C| mx from x^-)."""
    eps = 2.220446049250313e-16
    n = P.shape[0]
    kS = float(np.linalg.cond(ref["S"]))
    nPm = float(np.linalg.norm(ref["Pm"], 2))
    gain = kS * max(1.0, float(np.linalg.norm(ref["K"], 2)) * float(np.linalg.norm(ref["C"], 2))) * n * extra
    tolP = 128 * eps * gain * nPm + absP
    eP = float(np.linalg.norm(P - ref["Pp"], 2))
    rec.notes["P:" + name] = max(rec.notes.get("P:" + name, 0), eP / tolP)
    okP = rec.check(eP <= tolP, "cov:" + name, lambda: "%s posterior covariance differs from the Kalman filter by %.3g (tol %.3g, kappa(S)=%.3g)" % (name, eP, tolP, kS))
    mx, my = float(np.linalg.norm(ref["xm"])), float(np.linalg.norm(ref["inn"]))
    if terms is not None:
        mx, my = max(mx, float(terms[0])), max(my, float(terms[1]))
    tolx = 128 * eps * gain * (mx + float(np.linalg.norm(ref["K"], 2)) * my)
    if absP:
        # the same cancellation enters the gain: relative error absP/|P^-| in the covariance blocks, amplified by kappa(S) in K
        tolx += absP / max(nPm, 1e-300) * kS * float(np.linalg.norm(ref["K"], 2)) * my
    ex = float(np.linalg.norm(x - ref["xp"]))
    rec.notes["x:" + name] = max(rec.notes.get("x:" + name, 0), ex / tolx)
    okx = rec.check(ex <= tolx, "mean:" + name, lambda: "%s posterior mean differs from the Kalman filter by %.3g (tol %.3g): %s vs %s" % (name, ex, tolx, x.tolist(), ref["xp"].tolist()))
    return okP and okx, gain * nPm


class Linear(Sub):
    name = "linear"
    n = {"quick": 1600, "thorough": 60000}

    def strategy(self, tier):
        # run length: the stated range is 1..50; quick spends one case in 32 on runs of 26..50 steps (they cost ~5x an average case)
        if tier == "thorough":
            steps = weighted((st.integers(1, 3), 1), (st.integers(1, 50), 1))
        else:
            steps = weighted((st.integers(1, 3), 16), (st.integers(1, 25), 15), (st.integers(26, 50), 1))
        return st.fixed_dictionaries({
            "seed": st.integers(0, 10 ** 7), "nx": st.integers(1, 6), "nu": st.integers(1, 6), "ny": st.integers(1, 6),
            "filter": st.sampled_from(("EKF", "UKF")), "k": st.one_of(st.none(), st.integers(-5, 10)),
            "steps": steps, "per_call": st.booleans(), "wc": st.sampled_from((False, False, False, True)),
            # how Q and R reach the filter: both registered / both per call (the `per_call` flag), or MIXED - both registered, one of
            # them with a stale value that the call overrides (a per-step measurement covariance over a registered default)
            "supply": st.sampled_from(("plain", "plain", "plain", "mixed_Q", "mixed_R", "reconfigured"))})

    def oracle(self, case, rec):
        nx, nu, ny = case["nx"], case["nu"], case["ny"]
        wc = bool(case.get("wc", False))
        s = system(case["seed"], nx, nu, ny, wc)
        rs = s["rs"]
        model = LinNLS(s)
        k = case["k"]
        if k is not None and k <= -nx:
            k = -nx + 1
        T = lambda a: torch.tensor(a)
        Q, Rm = T(s["Q"]), T(s["R"])
        supply = case.get("supply", "plain")
        cls = pp.module.EKF if case["filter"] == "EKF" else pp.module.UKF
        held = []
        if supply == "reconfigured":
            # the documented way to change the noise model of an existing filter: set_uncertainty() once more.  The filter is built
            # with STALE covariances - one tensor object shared by Q and R when they have the same size - and then reconfigured with the
            # true ones, one call per matrix.  The caller's tensors must keep their values (a reconfiguration that writes into the
            # registered tensor would overwrite whatever shares it).
            stale = lambda M: 4.0 * M + 0.5 * torch.eye(M.shape[0], dtype=M.dtype)
            if nx == ny:
                S = stale(Q)
                flt = cls(model, S, S)
                held = [(S, S.clone(), "the tensor given to the constructor as Q and R")]
            else:
                S1, S2 = stale(Q), stale(Rm)
                flt = cls(model, S1, S2)
                held = [(S1, S1.clone(), "the constructor's Q"), (S2, S2.clone(), "the constructor's R")]
            with rec.sut("set_uncertainty"):
                flt.set_uncertainty(Q=Q)
                flt.set_uncertainty(R=Rm)
            for t_, keep_, nm_ in held:
                rec.check(torch.equal(t_, keep_), "set_uncertainty:mutates_caller_tensor", "set_uncertainty overwrote %s" % nm_)
        elif supply == "plain":
            flt = cls(model) if case["per_call"] else cls(model, Q, Rm)
        else:
            stale = lambda M: 4.0 * M + 0.5 * torch.eye(M.shape[0], dtype=M.dtype)
            flt = cls(model, stale(Q), Rm) if supply == "mixed_Q" else cls(model, Q, stale(Rm))
        rec.label("supply:" + (supply if supply != "plain" else ("per_call" if case["per_call"] else "registered")))
        x, P = s["x"].copy(), s["P"].copy()
        name = case["filter"]
        offd = nx > 1 and float(np.abs(P - np.diag(np.diag(P))).max()) > 0.1 * float(np.abs(np.diag(P)).max())
        cmulti = not (ny == nx and np.allclose(s["C"], s["C"][0, 0] * np.eye(nx)))
        rec.label(name, "nx%d" % nx, "steps>=5" if case["steps"] >= 5 else "steps<5", "one_decade" if wc else "six_decades")
        if case["steps"] > 25:
            rec.label("steps26-50")
        if wc and nx > 1:
            rec.label("one_decade_multidim:" + name)
        done = 0
        bufs = None
        if case["seed"] % 3 == 0:
            bufs = (torch.zeros(nx, dtype=torch.float64), torch.zeros(ny, dtype=torch.float64), torch.zeros(nu, dtype=torch.float64), torch.zeros(nx, nx, dtype=torch.float64))
            rec.label("args:inplace_buffers")
        for i in range(case["steps"]):
            u = rs.randn(nu) * 10 ** rs.uniform(-1, 1)
            y = rs.randn(ny) * 10 ** rs.uniform(-1, 1.5)
            kw = {"Q": Q, "R": Rm} if case["per_call"] else {}
            if supply == "reconfigured":
                kw = {}
            elif supply == "mixed_Q":
                kw = {"Q": Q}
            elif supply == "mixed_R":
                kw = {"R": Rm}
            if name == "UKF":
                kw["k"] = k
            if i == 1 and case["seed"] % 5 == 1:
                import copy as _copy
                with rec.sut("copy.deepcopy(filter)"):
                    flt = _copy.deepcopy(flt)          # nn.Module semantics: an independent filter with the same registered Q, R and model
                rec.label("filter_deepcopied_mid_run")
            if bufs is not None:
                # the caller keeps estimate, covariance, input and measurement in preallocated tensors that are overwritten in place
                # before every call, and hands the SAME tensor objects to the filter each time (a stale value cached against the
                # identity of an argument - "same tensor as last time" - would be invisible with fresh tensors per call)
                for b_, v_ in zip(bufs, (x, y, u, P)):
                    b_.copy_(T(v_))
                args = bufs
            else:
                args = (T(x), T(y), T(u), T(P))
            with rec.sut(name):
                xo, Po = flt(*args, **kw)
            ref = kalman_mp(s["A"], s["B"], s["C"], s["D"], s["c1"], s["c2"], s["Q"], s["R"], x, P, u, y)
            xo, Po = xo.numpy(), Po.numpy()
            if not rec.check(bool(np.all(np.isfinite(xo)) and np.all(np.isfinite(Po))), "nonfinite:" + name, "%s returned non-finite values" % name):
                return
            extra = 1.0
            if name == "UKF":
                kk = (3 - nx) if k is None else k
                # sigma points through a Cholesky factor of (n+k) P and weights 1/(2(n+k)): error grows with kappa(P^-) and |w0|
                extra = max(1.0, float(np.linalg.cond(ref["Pm"])) ** 0.5) * max(1.0, abs(kk) / (nx + kk), 1.0 / (nx + kk)) * 8
            # magnitudes of the terms the predicted state and the innovation are sums of (UKF: every sigma point x +- l_i, |l_i| <=
            # sqrt((n+k)|P|), goes through f and g with weight 1/(2(n+k)) - their spread cancels in the mean but not in its rounding)
            aA, aC = np.abs(s["A"]), np.abs(s["C"])
            spread_x = spread_y = 0.0
            if name == "UKF":
                kk_ = (3 - nx) if k is None else k
                spread_x = nx * math.sqrt(float(np.linalg.norm(P, 2)) / (nx + kk_))
                spread_y = nx * math.sqrt(float(np.linalg.norm(ref["Pm"], 2)) / (nx + kk_))
            tx = aA @ (np.abs(x) + spread_x) + np.abs(s["B"]) @ np.abs(u) + np.abs(s["c1"])
            ty = np.abs(y) + aC @ (tx + spread_y) + np.abs(s["D"]) @ np.abs(u) + np.abs(s["c2"])
            absP = 0.0
            if name == "UKF":
                # cancellation in the sigma-point deviations: x_i - mean and y_i - mean are differences of numbers of size tx, ty
                # (absolute error eps tx, eps ty) whose value is only the spread sqrt((n+k)|P^-|); every covariance block is a
                # weighted sum (weights 1/(2(n+k))) of 2n products deviation x deviation, so it carries 2 eps t sqrt(|P^-|/(n+k)) per
                # block, and P+ = Pxx - K Pyy K^T combines them with |K|, |K|^2.  (Found by an independent false-alarm audit: nx = 1,
                # n + k = 1, |x^-| ~ 100 gave 1.85 x the tolerance without this term; pypose was 1e-12 relative to the 50-digit
                # reference, ordinary rounding.)
                nK = float(np.linalg.norm(ref["K"], 2))
                absP = 8 * nx * 2.220446049250313e-16 * math.sqrt(float(np.linalg.norm(ref["Pm"], 2)) / (nx + kk_)) * \
                    (1.0 + nK * float(np.linalg.norm(s["C"], 2))) * (float(np.linalg.norm(tx)) + nK * float(np.linalg.norm(ty)))
            ok, scale = compare_step(rec, name, ref, xo, Po, extra, terms=(np.linalg.norm(tx), np.linalg.norm(ty)), absP=absP)
            if name == "EKF" or ((3 - nx) if k is None else k) >= 0:
                check_cov(rec, name, Po, scale)
            if not ok:
                return
            # the next prior is the symmetric part of the returned covariance: each step is judged on a valid (symmetric) input,
            # otherwise the round-off asymmetry of an ill-conditioned earlier step would be charged to a later one
            x, P = xo, (Po + Po.T) / 2
            done = i + 1
            if np.linalg.eigvalsh(P).min() <= 0:
                # the returned covariance is not positive definite, so it cannot be the next prior.  Whose fault?  The exact posterior
                # (50-digit reference from the SAME prior) is positive definite; if its smallest eigenvalue lies above the
                # conditioning-based tolerance of this step, pypose's own update lost definiteness (a violation of the PSD clause -
                # by Weyl's inequality the covariance comparison above has then failed too); otherwise the posterior is singular to
                # within what the conditioning of the step allows: labelled stop, no verdict on the remaining steps.
                lam_ref = float(np.linalg.eigvalsh(ref["Pp"]).min())
                tolP = 128 * 2.220446049250313e-16 * scale
                if not rec.check(lam_ref <= 2 * tolP, "cov_lost_pd:" + name, lambda: "%s returned an indefinite covariance although the exact posterior has smallest eigenvalue %.3g (tolerance of the step %.3g)" % (name, lam_ref, tolP)):
                    return
                rec.label("prior_lost_pd_stop:conditioning")
                break
        if done >= 26:
            rec.label("reached_steps26-50")
        if offd and cmulti or case["steps"] >= 5:
            rec.nt((name, nx, nu, ny, case["k"], min(case["steps"], 5) if case["steps"] <= 25 else 26, case["per_call"], wc))

    def simplify(self, case):
        if case["steps"] > 1:
            yield dict(case, steps=1)
            yield dict(case, steps=case["steps"] // 2)
        for k in ("nx", "nu", "ny"):
            if case[k] > 1:
                yield dict(case, **{k: case[k] - 1})
        if case.get("wc"):
            yield dict(case, wc=False)


def nl_parts(seed, nx, nu, ny):
    rs = np.random.RandomState(seed)
    p = {"M1": rs.randn(nx, nx) * 0.5, "M2": rs.randn(nx, nx), "a": rs.uniform(-1, 1), "b": rs.uniform(-0.3, 0.3), "B": rs.randn(nx, nu),
         "N1": rs.randn(ny, nx), "N2": rs.randn(ny, nx), "c": rs.uniform(-1, 1), "D": rs.randn(ny, nu), "w": rs.uniform(0.1, 1.0),
         "Q": spd(rs, nx, -2, 1), "R": spd(rs, ny, -2, 1), "P": spd(rs, nx, -2, 1), "x": rs.randn(nx), "rs": rs}
    return p


class NonLin(pp.module.NLS):
    def __init__(self, p):
        super().__init__()
        self.p = {k: (torch.tensor(v) if isinstance(v, np.ndarray) else v) for k, v in p.items() if k != "rs"}

    def _tt(self, t):
        return 0.0 if t is None else torch.as_tensor(t, dtype=torch.float64).reshape(-1)[0]

    def state_transition(self, state, input, t=None):
        p = self.p
        return pp.bmv(p["M1"], state) + p["a"] * torch.sin(pp.bmv(p["M2"], state)) + p["b"] * state * state + pp.bmv(p["B"], input) + torch.sin(p["w"] * self._tt(t))

    def observation(self, state, input, t=None):
        p = self.p
        return pp.bmv(p["N1"], state) + p["c"] * torch.cos(pp.bmv(p["N2"], state)) + pp.bmv(p["D"], input) + 0.1 * self._tt(t)


def nl_f(p, x, u, t):
    return p["M1"] @ x + p["a"] * np.sin(p["M2"] @ x) + p["b"] * x * x + p["B"] @ u + math.sin(p["w"] * t)


def nl_g(p, x, u, t):
    return p["N1"] @ x + p["c"] * np.cos(p["N2"] @ x) + p["D"] @ u + 0.1 * t


def nl_A(p, x):
    return p["M1"] + p["a"] * np.diag(np.cos(p["M2"] @ x)) @ p["M2"] + 2 * p["b"] * np.diag(x)


def nl_C(p, x):
    return p["N1"] - p["c"] * np.diag(np.sin(p["N2"] @ x)) @ p["N2"]


def ukf_scale(p, x, P, u, t, k):
    """The documented UKF equations in numpy (sigma points = columns of the lower Cholesky factor), used ONLY to size the
    rounding error of the step: returns predicted mean, P^-, P_y and the gain."""
    n = x.size
    w = np.array([k / (n + k)] + [1.0 / (2 * (n + k))] * (2 * n))

    def pts(m, C_):
        L = np.linalg.cholesky((n + k) * C_)
        return np.concatenate([m[None], m[None] + L.T, m[None] - L.T], 0)
    xs = np.stack([nl_f(p, z, u, t) for z in pts(x, P)])
    xe = w @ xs
    Pm = (w[:, None, None] * np.einsum("ki,kj->kij", xs - xe, xs - xe)).sum(0) + p["Q"]
    Pm = (Pm + Pm.T) / 2
    z2 = pts(xe, Pm)
    ys = np.stack([nl_g(p, z, u, t) for z in z2])
    ye = w @ ys
    Py = (w[:, None, None] * np.einsum("ki,kj->kij", ys - ye, ys - ye)).sum(0) + p["R"]
    Pxy = (w[:, None, None] * np.einsum("ki,kj->kij", z2 - xe, ys - ye)).sum(0)
    return xe, Pm, Py, Pxy @ np.linalg.inv(Py)


class NonLinear(Sub):
    """EKF: equals the Kalman recursion on the linearisation at the prior mean (+ covariance valid).  UKF (centre weight >= 0)
    and PF on the same nonlinear family: the returned covariance is finite, symmetric and positive semidefinite (that clause of
    the statement is not restricted to linear systems); nothing else is claimed about their values."""
    name = "nonlinear"
    n = {"quick": 1400, "thorough": 24000}

    def strategy(self, tier):
        if tier == "thorough":
            steps = weighted((st.integers(1, 8), 1), (st.integers(1, 50), 1))
            npart = st.sampled_from((1000, 1000, 4000))
        else:
            steps = weighted((st.integers(1, 8), 15), (st.integers(9, 50), 1))
            npart = st.just(1000)
        return st.fixed_dictionaries({"seed": st.integers(0, 10 ** 7), "nx": st.integers(1, 6), "nu": st.integers(1, 6), "ny": st.integers(1, 6),
                                      "steps": steps, "t0": st.integers(0, 20),
                                      "filter": st.sampled_from(("EKF", "EKF", "EKF", "EKF", "UKF", "UKF", "PF")),
                                      "k": st.one_of(st.none(), st.integers(0, 10)), "N": npart})

    def oracle(self, case, rec):
        nx, nu, ny = case["nx"], case["nu"], case["ny"]
        flt = case.get("filter", "EKF")
        p = nl_parts(case["seed"], nx, nu, ny)
        rs = p["rs"]
        model = NonLin(p)
        T = lambda a: torch.tensor(a)
        eps = 2.220446049250313e-16
        k = case.get("k")
        if flt == "UKF" and k is None and nx > 3:
            k = 0            # the default k = 3 - n would make the centre weight negative: no covariance claim there
        kk = (3 - nx) if k is None else k
        if flt == "EKF":
            f = pp.module.EKF(model, T(p["Q"]), T(p["R"]))
        elif flt == "UKF":
            f = pp.module.UKF(model, T(p["Q"]), T(p["R"]))
        else:
            f = pp.module.PF(model, T(p["Q"]), T(p["R"]), particles=case.get("N", 1000))
            torch.manual_seed(case["seed"] % 100003)
        name = flt + "nl"
        x, P = p["x"].copy(), p["P"].copy()
        done = 0
        for i in range(case["steps"]):
            t = float(case["t0"] + i)
            u = rs.randn(nu)
            y = rs.randn(ny) * 3
            if flt == "EKF":
                with rec.sut("EKF(nonlinear)"):
                    xo, Po = f(T(x), T(y), T(u), T(P), t=torch.tensor(t))
                xo, Po = xo.numpy(), Po.numpy()
                fx = nl_f(p, x, u, t)
                ref = kalman_mp(nl_A(p, x), None, nl_C(p, x), None, None, None, p["Q"], p["R"], x, P, u, y, fx=fx, gx=nl_g(p, fx, u, t))
                # term magnitudes of f(x,u,t) and of the innovation y - g(f,u,t) (g is Lipschitz with |N1| + |c||N2| in the error of f)
                tx = np.abs(p["M1"]) @ np.abs(x) + abs(p["a"]) + abs(p["b"]) * x * x + np.abs(p["B"]) @ np.abs(u) + 1.0
                ty = np.abs(y) + (np.abs(p["N1"]) + abs(p["c"]) * np.abs(p["N2"])) @ tx + abs(p["c"]) + np.abs(p["D"]) @ np.abs(u) + 0.1 * t
                ok, scale = compare_step(rec, "EKFnl", ref, xo, Po, extra=8.0, terms=(np.linalg.norm(tx), np.linalg.norm(ty)))
                check_cov(rec, "EKFnl", Po, scale)
                if not ok:
                    return
            else:
                with rec.sut(flt + "(nonlinear)"):
                    xo, Po = f(T(x), T(y), T(u), T(P), t=torch.tensor(t), **({"k": k} if flt == "UKF" else {}))
                xo, Po = xo.numpy(), Po.numpy()
                if not rec.check(bool(np.all(np.isfinite(xo)) and np.all(np.isfinite(Po))), "nonfinite:" + name, "%s returned non-finite values on a nonlinear system" % flt):
                    return
                if flt == "UKF":
                    # P = P^- - K P_y K^T is, in exact arithmetic, the Schur complement of P_y in sum_i W_i [ex_i; ey_i][ex_i; ey_i]^T + diag(0, R),
                    # positive semidefinite for ANY f, g as long as all W_i >= 0 (the second sigma set reproduces P^- exactly).  Rounding:
                    # (a) the gain through pinv(P_y): eps kappa(P_y) |K|^2 |P_y|; (b) the sigma deviations ex_i = x^- - (x^- +- l_i) carry
                    # eps |x^-| each, so sum W ex ex^T misses P^- by 2 n eps |x^-| sqrt(|P^-|/(n+k)); (c) Cholesky / summations: n eps |P^-|.
                    xe, Pm, Py, K = ukf_scale(p, x, P, u, t, kk)
                    nPm, nK = float(np.linalg.norm(Pm, 2)), float(np.linalg.norm(K, 2))
                    scale = nx * (float(np.linalg.cond(Py)) * max(nPm, nK * nK * float(np.linalg.norm(Py, 2)))
                                  + float(np.linalg.norm(xe)) * math.sqrt(nPm / (nx + kk)) + nPm)
                else:
                    scale = float(np.linalg.norm(Po, 2))
                if not check_cov(rec, name, Po, scale):
                    return
            x, P = xo, (Po + Po.T) / 2
            done = i + 1
            if not np.all(np.isfinite(x)) or np.abs(x).max() > 1e3:
                rec.label("state_left_1e3_stop")
                break
            if flt != "EKF":
                ev = np.linalg.eigvalsh(P)
                if ev[0] <= 1e-12 * ev[-1]:
                    # UKF / PF factorise the prior (Cholesky): a numerically singular fed-back covariance is not a valid next prior
                    rec.label("prior_near_singular_stop:" + name)
                    break
        rec.label("nx%d" % nx, name, "ran_steps>=9" if done >= 9 else "ran_steps<9")
        if flt == "UKF":
            rec.label("UKFnl:w0=0" if kk == 0 else "UKFnl:w0>0")
        if flt == "EKF":
            rec.nt(("ekf_nl", nx, nu, ny, min(case["steps"], 4), case["t0"] > 0))
        else:
            rec.nt((name, nx, nu, ny, min(case["steps"], 4), case["t0"] > 0, kk if flt == "UKF" else case.get("N", 1000)))

    def simplify(self, case):
        if case["steps"] > 1:
            yield dict(case, steps=1)
            yield dict(case, steps=case["steps"] // 2)
        for k in ("nx", "nu", "ny"):
            if case[k] > 1:
                yield dict(case, **{k: case[k] - 1})


def lognorm(d, S):
    return -0.5 * d.size * math.log(2 * math.pi) - 0.5 * float(np.linalg.slogdet(S)[1]) - 0.5 * float(d @ np.linalg.solve(S, d))


def pf_model(s, u, z, nx):
    """Closed forms of the DOCUMENTED particle model on a linear system: particles x_i ~ N(x, n P) pushed through f are N(m, Sig)
    (no process noise is added to them), weights L(x_i) = N(y; C x_i + D u + c2, R), self-normalised, multinomial resampling.
    The measurement sits z Cholesky units of S away from the predicted one.  Returns the posterior mean / covariance the estimate
    converges to, and the two numbers that govern HOW FAST: rho = E[L^2]/E[L]^2 (effective sample size = N / rho; uses
    N(y;.,R)^2 = (4 pi)^(-ny/2) |R|^(-1/2) N(y;.,R/2)) and mu2, the posterior mean under R/2, which gives the leading bias of a
    self-normalised importance sampling mean, -(1/N) E[w^2 (x - mu)] = -(rho/N)(mu2 - mu)."""
    A, C, R = s["A"], s["C"], s["R"]
    ny = R.shape[0]
    m = A @ s["x"] + s["B"] @ u + s["c1"]
    Sig = nx * A @ s["P"] @ A.T
    yh = C @ m + s["D"] @ u + s["c2"]
    S = C @ Sig @ C.T + R
    S = (S + S.T) / 2
    d = np.linalg.cholesky(S) @ z
    K = Sig @ C.T @ np.linalg.inv(S)
    S2 = S - R / 2
    logrho = -0.5 * ny * math.log(4 * math.pi) - 0.5 * float(np.linalg.slogdet(R)[1]) + lognorm(d, S2) - 2 * lognorm(d, S)
    return {"y": yh + d, "mu": m + K @ d, "Pp": (np.eye(nx) - K @ C) @ Sig, "mu2": m + Sig @ C.T @ np.linalg.solve(S2, d),
            "rho": math.exp(min(logrho, 700.0)), "m": m, "Sig": Sig}


class PFConv(Sub):
    name = "pf"
    n = {"quick": 48, "thorough": 480}
    budget_s = {"quick": 150.0, "thorough": 2400.0}
    ESS_MIN = 100.0          # every run keeps an effective sample size N / rho of at least this
    LADDER = (1000, 4000, 16000, 60000)

    def strategy(self, tier):
        Ns = (1000, 1000, 4000) if tier == "quick" else (1000, 4000, 16000, 60000)
        # lift: the particle count may go one rung above the drawn N, up to this value, when the effective sample size asks for it
        # (4x the cost; quick: 1000 -> 4000 only, a 16000 / 256000-particle case would take as long as a whole quick shard)
        lift = (0, 0, 0, 4000) if tier == "quick" else (0, 60000)
        return st.fixed_dictionaries({"seed": st.integers(0, 10 ** 7), "nx": st.integers(1, 6), "nu": st.integers(1, 6), "ny": st.integers(1, 6),
                                      "N": st.sampled_from(Ns), "yr": st.sampled_from((1.2, 1.2, 1.2, 3.0)), "lift": st.sampled_from(lift)})

    def oracle(self, case, rec):
        nx, nu, ny, N0 = case["nx"], case["nu"], case["ny"], case["N"]
        yr = float(case.get("yr", 1.2))
        s = system(case["seed"], nx, nu, ny)
        rs = s["rs"]
        # moderate scales so that the effective sample size stays reasonable
        s["P"], s["R"], s["Q"] = spd(rs, nx, -1, 0.5), spd(rs, ny, -1, 0.5), spd(rs, nx, -2, 0)
        u = rs.randn(nu)
        z = rs.uniform(-1.2, 1.2, size=ny) * (yr / 1.2)
        # particle count from the effective sample size: with "lift" one rung of the ladder above the drawn N (never beyond lift <= 60000,
        # 16 N <= 1e6); where that leaves N / rho < ESS_MIN the measurement noise R is doubled until it does not (a less informative
        # measurement - still an SPD R - instead of a run whose Monte-Carlo error is not yet in its asymptotic regime)
        ladder = [n_ for n_ in self.LADDER if N0 <= n_ <= max(N0, int(case.get("lift", 0)))][:2]
        infl = 0
        while True:
            q = pf_model(s, u, z, nx)
            if self.ESS_MIN * q["rho"] <= ladder[-1] or infl >= 60:
                break
            s["R"] = s["R"] * 2.0
            infl += 1
        N = ladder[0] if self.ESS_MIN * q["rho"] <= ladder[0] else ladder[-1]
        y, mu, rho = q["y"], q["mu"], q["rho"]
        sd = np.sqrt(np.maximum(np.diag(q["Pp"]), 1e-300))
        model = LinNLS(s)
        T = lambda a: torch.tensor(a)

        def runs(Np, nrun, base):
            out, covs = [], []
            pf = pp.module.PF(model, T(s["Q"]), T(s["R"]), particles=Np)
            for r in range(nrun):
                torch.manual_seed(base + r)
                xo, Po = pf(T(s["x"]), T(y), T(u), T(s["P"]))
                out.append(xo.numpy()); covs.append(Po.numpy())
            return np.stack(out), covs
        with rec.sut("PF"):
            est, covs = runs(N, 40, case["seed"] * 100 + 1)
            est16, _ = runs(16 * N, 40, case["seed"] * 100 + 50)
        if not rec.check(bool(np.all(np.isfinite(est)) and np.all(np.isfinite(est16))), "nonfinite:PF", "PF returned a non-finite mean"):
            return
        mean, se = est.mean(0), est.std(0, ddof=1) / math.sqrt(est.shape[0])
        # bias of the self-normalised importance sampling mean: leading term (rho/N)(mu2 - mu) (see pf_model); allowed three times
        # over plus the same multiple of the posterior sd for the next order (rho/N <= 1/ESS_MIN)
        allow = 6 * se + 3.0 * rho / N * (np.abs(q["mu2"] - mu) + sd) + 1e-12
        dev = np.abs(mean - mu)
        zc = float((dev / allow).max())
        rec.notes["pf_z"] = max(rec.notes.get("pf_z", 0), zc)
        rec.check(zc <= 1.0, "pf_mean", lambda: "PF (N=%d, N/rho=%.0f): mean of 40 runs %s deviates from the posterior mean of the documented particle model %s by %s = %.1f standard errors" % (N, N / rho, mean.tolist(), mu.tolist(), dev.tolist(), float((dev / np.maximum(se, 1e-300)).max())))
        rms = math.sqrt(float(((est - mu) ** 2).sum(1).mean()))
        rms16 = math.sqrt(float(((est16 - mu) ** 2).sum(1).mean()))
        ratio = rms / max(rms16, 1e-300)
        rec.notes["pf_rate"] = ratio
        rec.notes["pf_rate_inv"] = 1.0 / max(ratio, 1e-300)
        # 40 runs each: log-ratio has sd <= 0.16, so [1.6, 10] is a > 5.5 sigma band around the Monte-Carlo rate 4
        rec.check(1.6 <= ratio <= 10.0 or rms < 1e-9, "pf_rate", lambda: "PF RMS error %.3g at N=%d vs %.3g at 16N: ratio %.2f outside [1.6,10] (Monte-Carlo rate is 4)" % (rms, N, rms16, ratio))
        for Po in covs[:4]:
            if not rec.check(bool(np.all(np.isfinite(Po))), "nonfinite:PF", "PF returned a non-finite covariance"):
                return
            check_cov(rec, "PF", Po, float(np.linalg.norm(Po, 2)))
        rec.label("N%d" % N, "nx%d" % nx, "ny%d" % ny, "y_within_%g_sigma" % yr, "rho<10" if rho < 10 else "rho<100" if rho < 100 else "rho>=100")
        if infl:
            rec.label("R_doubled_for_ESS", "R_doubled>=5x" if infl >= 5 else "R_doubled<5x")
        if N != N0:
            rec.label("N_raised_for_ESS")
        rec.nt(("pf", nx, ny, N, yr))

    def simplify(self, case):
        for k in ("nx", "nu", "ny"):
            if case[k] > 1:
                yield dict(case, **{k: case[k] - 1})
        if case.get("yr", 1.2) != 1.2:
            yield dict(case, yr=1.2)


# the particle filter shards are the longest units: listed first so that they start first (better packing of the worker pool)
SUBS = [PFConv(), Linear(), NonLinear()]


def selftest():
    # mpmath Kalman step against the information-form update on a small example
    s = system(5, 3, 2, 2)
    u, y = np.array([0.3, -0.2]), np.array([1.0, 2.0])
    r = kalman_mp(s["A"], s["B"], s["C"], s["D"], s["c1"], s["c2"], s["Q"], s["R"], s["x"], s["P"], u, y)
    Pm = s["A"] @ s["P"] @ s["A"].T + s["Q"]
    Pinfo = np.linalg.inv(np.linalg.inv(Pm) + s["C"].T @ np.linalg.inv(s["R"]) @ s["C"])
    assert np.abs(Pinfo - r["Pp"]).max() <= 1e-8 * np.abs(Pinfo).max()
    # closed-form Jacobians of the nonlinear family
    p = nl_parts(2, 3, 2, 2)
    x, uu, h = p["x"], np.zeros(2), 1e-6
    J = np.stack([(nl_f(p, x + h * e, uu, 1.0) - nl_f(p, x - h * e, uu, 1.0)) / (2 * h) for e in np.eye(3)], 1)
    assert np.abs(J - nl_A(p, x)).max() < 1e-7
    Jg = np.stack([(nl_g(p, x + h * e, uu, 1.0) - nl_g(p, x - h * e, uu, 1.0)) / (2 * h) for e in np.eye(3)], 1)
    assert np.abs(Jg - nl_C(p, x)).max() < 1e-7
    # closed forms of the particle model (posterior mean, weight second moment rho, leading-bias mean mu2) against plain Monte Carlo
    s = system(7, 2, 1, 2)
    rs = np.random.RandomState(0)
    s["P"], s["R"] = spd(rs, 2, -1, 0.5), spd(rs, 2, 0, 0.5)
    u, z = np.array([0.4]), np.array([0.8, -0.5])
    q = pf_model(s, u, z, 2)
    X = rs.multivariate_normal(q["m"], q["Sig"], size=400000)
    r = q["y"] - (X @ s["C"].T + s["D"] @ u + s["c2"])
    Lw = np.exp(-0.5 * np.einsum("ki,ij,kj->k", r, np.linalg.inv(s["R"]), r))
    assert 1.2 < q["rho"] < 50, q["rho"]
    assert abs((Lw ** 2).mean() / Lw.mean() ** 2 / q["rho"] - 1) < 0.05, ((Lw ** 2).mean() / Lw.mean() ** 2, q["rho"])
    sdp = np.sqrt(np.diag(q["Pp"]))
    assert np.abs((Lw[:, None] * X).sum(0) / Lw.sum() - q["mu"]).max() < 0.02 * sdp.max()
    assert np.abs((Lw[:, None] ** 2 * X).sum(0) / (Lw ** 2).sum() - q["mu2"]).max() < 0.03 * sdp.max()
