"""C13 - EKF / UKF equal the Kalman filter on linear-Gaussian systems; covariances valid; PF converges."""
import math
import numpy as np
import mpmath as mp
import torch
import pypose as pp
from hypothesis import strategies as st

from ..core import Sub
from .. import tu, gen

PROPERTY = "C13"
RULE = ("linear: Hypothesis draws linear systems (NLS subclasses implementing x' = A x + B u + c1, y = C x' + D u + c2; state / input / "
        "observation dims 1..6; spectral radius of A in [0.2,1.5]; SPD Q, R, P built as U diag(10^[-3,3]) U^T independently, P never "
        "diagonal), arbitrary measurement y, UKF sigma parameter k from {None} U {-n+1..10}, and runs of 1..50 consecutive steps feeding "
        "(x,P) back.  Oracle: the Kalman predict-then-update recursion with the innovation at the predicted state evaluated in 50-digit "
        "mpmath; every step is checked LOCALLY (reference posterior from the filter's own previous output) with backward-error shaped "
        "tolerances |P-Pref| <= 128 n eps g |P^-|, |x-xref| <= 128 n eps g (|x^-| + |K||innovation|) with g = kappa(S) max(1,|K||C|) (UKF "
        "additionally x sqrt(kappa(P^-)) and its weight magnitude for the Cholesky-based sigma points), plus symmetry / positive-semidefiniteness of the returned covariance (UKF only for centre "
        "weight >= 0).  nonlinear: EKF on f = M1 x + a sin(M2 x) + b x.x + B u + s(t), g analogous: the same recursion with A = df/dx, "
        "C = dg/dx at the prior mean (closed-form derivatives) and innovation y - g(f(x,u),u).  pf: linear systems with 1e3..4e3 (quick) "
        "particles, y within 2 predictive sigma; 40 independent PF runs (torch seeds derived from the case) must have empirical mean "
        "within 6 standard errors + sd/ESS_min of the closed-form posterior mean of the DOCUMENTED particle model (prior N(x, nP), "
        "propagation through f, Gaussian likelihood of y at the propagated particle), RMS error must shrink by a factor in [1.6,10] from N "
        "to 16N, covariance symmetric PSD.  Non-trivial: P with off-diagonal ratio > 0.1 and C not a multiple of I; run length >= 5; "
        "distinct = (filter, dims, k, scale decades, run length class).")
ASSUMPTIONS = ["filters are driven through NLS subclasses (LTI.state_transition has no t keyword)",
               "float64; Q, R, P SPD with condition <= 1e6 each; UKF k integer > -n",
               "PF: statistical acceptance test (>= 6 sigma band + 1/ESS bias allowance): a bias below that band is invisible"]

mp.mp.dps = 50


def orth(rs, n):
    Q, _ = np.linalg.qr(rs.randn(n, n))
    return Q


def spd(rs, n, lo=-3, hi=3, force_offdiag=False):
    lam = 10.0 ** rs.uniform(lo, hi, size=n)
    if n > 1:
        lam = lam * 10.0 ** (-np.abs(rs.randn(n)))          # spread
    U = orth(rs, n)
    M = U @ np.diag(lam) @ U.T
    return (M + M.T) / 2


def system(seed, nx, nu, ny):
    rs = np.random.RandomState(seed)
    A = rs.randn(nx, nx)
    rho = max(abs(np.linalg.eigvals(A)))
    A = A / rho * rs.uniform(0.2, 1.5)
    B, C, D = rs.randn(nx, nu), rs.randn(ny, nx), rs.randn(ny, nu)
    if rs.rand() < 0.15 and ny == nx:
        C = np.eye(nx) * rs.uniform(0.5, 2)
    return {"A": A, "B": B, "C": C, "D": D, "c1": rs.randn(nx), "c2": rs.randn(ny),
            "Q": spd(rs, nx), "R": spd(rs, ny), "P": spd(rs, nx), "x": rs.randn(nx) * 10 ** rs.uniform(-1, 1), "rs": rs}


class LinNLS(pp.module.NLS):
    def __init__(self, s):
        super().__init__()
        for k in ("A", "B", "C", "D", "c1", "c2"):
            self.register_buffer("_" + k, torch.tensor(s[k]))

    def state_transition(self, state, input, t=None):
        return pp.bmv(self._A, state) + pp.bmv(self._B, input) + self._c1

    def observation(self, state, input, t=None):
        return pp.bmv(self._C, state) + pp.bmv(self._D, input) + self._c2


def M(a):
    return mp.matrix(np.asarray(a, dtype=np.float64).tolist())


def kalman_mp(A, B, C, D, c1, c2, Q, Rm, x, P, u, y, fx=None, gx=None):
    """one predict-then-update step in mpmath; fx/gx override the (nonlinear) transition / observation values"""
    A, C, Q, Rm, P = M(A), M(C), M(Q), M(Rm), M(P)
    xm = M(fx) if fx is not None else A * M(x) + M(B) * M(u) + M(c1)
    Pm = A * P * A.T + Q
    S = C * Pm * C.T + Rm
    K = Pm * C.T * mp.inverse(S)
    ym = M(gx) if gx is not None else C * xm + M(D) * M(u) + M(c2)
    inn = M(y) - ym
    xp = xm + K * inn
    Pp = (mp.eye(P.rows) - K * C) * Pm
    f = lambda m: np.array(m.tolist(), dtype=np.float64).reshape(m.rows, m.cols)
    return {"xm": f(xm)[:, 0], "Pm": f(Pm), "S": f(S), "K": f(K), "C": f(C), "inn": f(inn)[:, 0], "xp": f(xp)[:, 0], "Pp": f(Pp)}


def check_cov(rec, name, P, scale, eps=2.2e-16, c=256.0):
    asym = float(np.abs(P - P.T).max())
    rec.check(asym <= c * eps * scale, "cov_asym:" + name, lambda: "%s covariance asymmetric by %.3g (scale %.3g)" % (name, asym, scale))
    lam = float(np.linalg.eigvalsh((P + P.T) / 2).min())
    rec.check(lam >= -c * eps * scale, "cov_not_psd:" + name, lambda: "%s covariance has eigenvalue %.3g (scale %.3g)" % (name, lam, scale))


def compare_step(rec, name, ref, x, P, extra=1.0):
    """backward-error shaped comparison: K = P^- C^T S^-1 carries a relative error eps*kappa(S) and the update (I - K C) P^- then
    cancels, so errors scale with eps * kappa(S) * max(1, |K||C|) * |P^-| (times the dimension for the accumulated products)"""
    eps = 2.220446049250313e-16
    n = P.shape[0]
    kS = float(np.linalg.cond(ref["S"]))
    nPm = float(np.linalg.norm(ref["Pm"], 2))
    gain = kS * max(1.0, float(np.linalg.norm(ref["K"], 2)) * float(np.linalg.norm(ref["C"], 2))) * n * extra
    tolP = 128 * eps * gain * nPm
    eP = float(np.linalg.norm(P - ref["Pp"], 2))
    rec.notes["P:" + name] = max(rec.notes.get("P:" + name, 0), eP / tolP)
    okP = rec.check(eP <= tolP, "cov:" + name, lambda: "%s posterior covariance differs from the Kalman filter by %.3g (tol %.3g, kappa(S)=%.3g)" % (name, eP, tolP, kS))
    tolx = 128 * eps * gain * (float(np.linalg.norm(ref["xm"])) + float(np.linalg.norm(ref["K"], 2)) * float(np.linalg.norm(ref["inn"])))
    ex = float(np.linalg.norm(x - ref["xp"]))
    rec.notes["x:" + name] = max(rec.notes.get("x:" + name, 0), ex / tolx)
    okx = rec.check(ex <= tolx, "mean:" + name, lambda: "%s posterior mean differs from the Kalman filter by %.3g (tol %.3g): %s vs %s" % (name, ex, tolx, x.tolist(), ref["xp"].tolist()))
    return okP and okx, gain * nPm


class Linear(Sub):
    name = "linear"
    n = {"quick": 1600, "thorough": 100000}

    def strategy(self, tier):
        return st.fixed_dictionaries({
            "seed": st.integers(0, 10 ** 7), "nx": st.integers(1, 6), "nu": st.integers(1, 6), "ny": st.integers(1, 6),
            "filter": st.sampled_from(("EKF", "UKF")), "k": st.one_of(st.none(), st.integers(-5, 10)),
            "steps": st.one_of(st.integers(1, 3), st.integers(1, 50 if tier == "thorough" else 25)), "per_call": st.booleans()})

    def oracle(self, case, rec):
        nx, nu, ny = case["nx"], case["nu"], case["ny"]
        s = system(case["seed"], nx, nu, ny)
        rs = s["rs"]
        model = LinNLS(s)
        k = case["k"]
        if k is not None and k <= -nx:
            k = -nx + 1
        T = lambda a: torch.tensor(a)
        Q, Rm = T(s["Q"]), T(s["R"])
        if case["filter"] == "EKF":
            flt = pp.module.EKF(model) if case["per_call"] else pp.module.EKF(model, Q, Rm)
        else:
            flt = pp.module.UKF(model) if case["per_call"] else pp.module.UKF(model, Q, Rm)
        x, P = s["x"].copy(), s["P"].copy()
        name = case["filter"]
        offd = nx > 1 and float(np.abs(P - np.diag(np.diag(P))).max()) > 0.1 * float(np.abs(np.diag(P)).max())
        cmulti = not (ny == nx and np.allclose(s["C"], s["C"][0, 0] * np.eye(nx)))
        rec.label(name, "nx%d" % nx, "steps>=5" if case["steps"] >= 5 else "steps<5")
        for i in range(case["steps"]):
            u = rs.randn(nu) * 10 ** rs.uniform(-1, 1)
            y = rs.randn(ny) * 10 ** rs.uniform(-1, 1.5)
            kw = {"Q": Q, "R": Rm} if case["per_call"] else {}
            if name == "UKF":
                kw["k"] = k
            with rec.sut(name):
                xo, Po = flt(T(x), T(y), T(u), T(P), **kw)
            ref = kalman_mp(s["A"], s["B"], s["C"], s["D"], s["c1"], s["c2"], s["Q"], s["R"], x, P, u, y)
            xo, Po = xo.numpy(), Po.numpy()
            if not rec.check(bool(np.all(np.isfinite(xo)) and np.all(np.isfinite(Po))), "nonfinite:" + name, "%s returned non-finite values" % name):
                return
            extra = 1.0
            if name == "UKF":
                kk = (3 - nx) if k is None else k
                # sigma points through a Cholesky factor of (n+k) P and weights 1/(2(n+k)): error grows with kappa(P^-) and |w0|
                extra = max(1.0, float(np.linalg.cond(ref["Pm"])) ** 0.5) * max(1.0, abs(kk) / (nx + kk), 1.0 / (nx + kk)) * 8
            ok, scale = compare_step(rec, name, ref, xo, Po, extra)
            if name == "EKF" or ((3 - nx) if k is None else k) >= 0:
                check_cov(rec, name, Po, scale)
            if not ok:
                return
            # the next prior is the symmetric part of the returned covariance: each step is judged on a valid (symmetric) input,
            # otherwise the round-off asymmetry of an ill-conditioned earlier step would be charged to a later one
            x, P = xo, (Po + Po.T) / 2
            if np.linalg.eigvalsh((P + P.T) / 2).min() <= 0:
                rec.label("prior_lost_pd_stop")
                break
        if offd and cmulti or case["steps"] >= 5:
            rec.nt((name, nx, nu, ny, case["k"], min(case["steps"], 5), case["per_call"]))

    def simplify(self, case):
        if case["steps"] > 1:
            yield dict(case, steps=1)
            yield dict(case, steps=case["steps"] // 2)
        for k in ("nx", "nu", "ny"):
            if case[k] > 1:
                yield dict(case, **{k: case[k] - 1})


def nl_parts(seed, nx, nu, ny):
    rs = np.random.RandomState(seed)
    p = {"M1": rs.randn(nx, nx) * 0.5, "M2": rs.randn(nx, nx), "a": rs.uniform(-1, 1), "b": rs.uniform(-0.3, 0.3), "B": rs.randn(nx, nu),
         "N1": rs.randn(ny, nx), "N2": rs.randn(ny, nx), "c": rs.uniform(-1, 1), "D": rs.randn(ny, nu), "w": rs.uniform(0.1, 1.0),
         "Q": spd(rs, nx, -2, 1), "R": spd(rs, ny, -2, 1), "P": spd(rs, nx, -2, 1), "x": rs.randn(nx), "rs": rs}
    return p


class NonLin(pp.module.NLS):
    def __init__(self, p):
        super().__init__()
        self.p = {k: (torch.tensor(v) if isinstance(v, np.ndarray) else v) for k, v in p.items() if k != "rs"}

    def _tt(self, t):
        return 0.0 if t is None else torch.as_tensor(t, dtype=torch.float64).reshape(-1)[0]

    def state_transition(self, state, input, t=None):
        p = self.p
        return pp.bmv(p["M1"], state) + p["a"] * torch.sin(pp.bmv(p["M2"], state)) + p["b"] * state * state + pp.bmv(p["B"], input) + torch.sin(p["w"] * self._tt(t))

    def observation(self, state, input, t=None):
        p = self.p
        return pp.bmv(p["N1"], state) + p["c"] * torch.cos(pp.bmv(p["N2"], state)) + pp.bmv(p["D"], input) + 0.1 * self._tt(t)


def nl_f(p, x, u, t):
    return p["M1"] @ x + p["a"] * np.sin(p["M2"] @ x) + p["b"] * x * x + p["B"] @ u + math.sin(p["w"] * t)


def nl_g(p, x, u, t):
    return p["N1"] @ x + p["c"] * np.cos(p["N2"] @ x) + p["D"] @ u + 0.1 * t


def nl_A(p, x):
    return p["M1"] + p["a"] * np.diag(np.cos(p["M2"] @ x)) @ p["M2"] + 2 * p["b"] * np.diag(x)


def nl_C(p, x):
    return p["N1"] - p["c"] * np.diag(np.sin(p["N2"] @ x)) @ p["N2"]


class NonLinear(Sub):
    name = "nonlinear"
    n = {"quick": 1200, "thorough": 40000}

    def strategy(self, tier):
        return st.fixed_dictionaries({"seed": st.integers(0, 10 ** 7), "nx": st.integers(1, 5), "nu": st.integers(1, 4), "ny": st.integers(1, 5),
                                      "steps": st.integers(1, 8), "t0": st.integers(0, 20)})

    def oracle(self, case, rec):
        nx, nu, ny = case["nx"], case["nu"], case["ny"]
        p = nl_parts(case["seed"], nx, nu, ny)
        rs = p["rs"]
        model = NonLin(p)
        T = lambda a: torch.tensor(a)
        ekf = pp.module.EKF(model, T(p["Q"]), T(p["R"]))
        x, P = p["x"].copy(), p["P"].copy()
        for i in range(case["steps"]):
            t = float(case["t0"] + i)
            u = rs.randn(nu)
            y = rs.randn(ny) * 3
            with rec.sut("EKF(nonlinear)"):
                xo, Po = ekf(T(x), T(y), T(u), T(P), t=torch.tensor(t))
            xo, Po = xo.numpy(), Po.numpy()
            fx = nl_f(p, x, u, t)
            ref = kalman_mp(nl_A(p, x), None, nl_C(p, x), None, None, None, p["Q"], p["R"], x, P, u, y, fx=fx, gx=nl_g(p, fx, u, t))
            ok, scale = compare_step(rec, "EKFnl", ref, xo, Po, extra=8.0)
            check_cov(rec, "EKFnl", Po, scale)
            if not ok:
                return
            x, P = xo, (Po + Po.T) / 2
            if not np.all(np.isfinite(x)) or np.abs(x).max() > 1e3:
                break
        rec.label("nx%d" % nx)
        rec.nt(("ekf_nl", nx, nu, ny, min(case["steps"], 4), case["t0"] > 0))


class PFConv(Sub):
    name = "pf"
    n = {"quick": 48, "thorough": 1000}
    budget_s = {"quick": 150.0, "thorough": 3000.0}

    def strategy(self, tier):
        Ns = (1000, 4000) if tier == "quick" else (1000, 4000, 16000, 60000)
        return st.fixed_dictionaries({"seed": st.integers(0, 10 ** 7), "nx": st.integers(1, 4), "nu": st.integers(1, 3), "ny": st.integers(1, 4),
                                      "N": st.sampled_from(Ns)})

    def oracle(self, case, rec):
        nx, nu, ny, N = case["nx"], case["nu"], case["ny"], case["N"]
        s = system(case["seed"], nx, nu, ny)
        rs = s["rs"]
        # moderate scales so that the effective sample size stays reasonable
        s["P"], s["R"], s["Q"] = spd(rs, nx, -1, 0.5), spd(rs, ny, -1, 0.5), spd(rs, nx, -2, 0)
        u = rs.randn(nu)
        m = s["A"] @ s["x"] + s["B"] @ u + s["c1"]
        Sig = nx * s["A"] @ s["P"] @ s["A"].T
        S = s["C"] @ Sig @ s["C"].T + s["R"]
        L = np.linalg.cholesky(S)
        y = s["C"] @ m + s["D"] @ u + s["c2"] + L @ rs.uniform(-1.2, 1.2, size=ny)
        K = Sig @ s["C"].T @ np.linalg.inv(S)
        mu = m + K @ (y - (s["C"] @ m + s["D"] @ u + s["c2"]))
        Pp = (np.eye(nx) - K @ s["C"]) @ Sig
        sd = np.sqrt(np.maximum(np.diag(Pp), 1e-300))
        model = LinNLS(s)
        T = lambda a: torch.tensor(a)

        def runs(Np, nrun, base):
            out, covs = [], []
            pf = pp.module.PF(model, T(s["Q"]), T(s["R"]), particles=Np)
            for r in range(nrun):
                torch.manual_seed(base + r)
                xo, Po = pf(T(s["x"]), T(y), T(u), T(s["P"]))
                out.append(xo.numpy()); covs.append(Po.numpy())
            return np.stack(out), covs
        with rec.sut("PF"):
            est, covs = runs(N, 40, case["seed"] * 100 + 1)
            est16, _ = runs(16 * N, 40, case["seed"] * 100 + 50)
        mean, se = est.mean(0), est.std(0, ddof=1) / math.sqrt(est.shape[0])
        # effective sample size of the documented importance weights (prior predictive vs posterior): ESS/N ~ sqrt(det(Pp)/det(Sig))-ish;
        # use the conservative allowance sd * 50 / N for the O(1/ESS) bias of self-normalised importance sampling
        allow = 6 * se + sd * 50.0 / N + 1e-12
        dev = np.abs(mean - mu)
        z = float((dev / allow).max())
        rec.notes["pf_z"] = max(rec.notes.get("pf_z", 0), z)
        rec.check(z <= 1.0, "pf_mean", lambda: "PF (N=%d): mean of 40 runs %s deviates from the posterior mean of the documented particle model %s by %s = %.1f standard errors" % (N, mean.tolist(), mu.tolist(), dev.tolist(), float((dev / np.maximum(se, 1e-300)).max())))
        rms = math.sqrt(float(((est - mu) ** 2).sum(1).mean()))
        rms16 = math.sqrt(float(((est16 - mu) ** 2).sum(1).mean()))
        ratio = rms / max(rms16, 1e-300)
        rec.notes["pf_rate"] = ratio
        # 40 runs each: log-ratio has sd <= 0.16, so [1.6, 10] is a > 5.5 sigma band around the Monte-Carlo rate 4
        rec.check(1.6 <= ratio <= 10.0 or rms < 1e-9, "pf_rate", lambda: "PF RMS error %.3g at N=%d vs %.3g at 16N: ratio %.2f outside [1.6,10] (Monte-Carlo rate is 4)" % (rms, N, rms16, ratio))
        for Po in covs[:4]:
            check_cov(rec, "PF", Po, float(np.linalg.norm(Po, 2)))
        rec.label("N%d" % N)
        rec.nt(("pf", nx, ny, N))


SUBS = [Linear(), NonLinear(), PFConv()]


def selftest():
    # mpmath Kalman step against the information-form update on a small example
    s = system(5, 3, 2, 2)
    u, y = np.array([0.3, -0.2]), np.array([1.0, 2.0])
    r = kalman_mp(s["A"], s["B"], s["C"], s["D"], s["c1"], s["c2"], s["Q"], s["R"], s["x"], s["P"], u, y)
    Pm = s["A"] @ s["P"] @ s["A"].T + s["Q"]
    Pinfo = np.linalg.inv(np.linalg.inv(Pm) + s["C"].T @ np.linalg.inv(s["R"]) @ s["C"])
    assert np.abs(Pinfo - r["Pp"]).max() <= 1e-8 * np.abs(Pinfo).max()
    # closed-form Jacobians of the nonlinear family
    p = nl_parts(2, 3, 2, 2)
    x, uu, h = p["x"], np.zeros(2), 1e-6
    J = np.stack([(nl_f(p, x + h * e, uu, 1.0) - nl_f(p, x - h * e, uu, 1.0)) / (2 * h) for e in np.eye(3)], 1)
    assert np.abs(J - nl_A(p, x)).max() < 1e-7
    Jg = np.stack([(nl_g(p, x + h * e, uu, 1.0) - nl_g(p, x - h * e, uu, 1.0)) / (2 * h) for e in np.eye(3)], 1)
    assert np.abs(Jg - nl_C(p, x)).max() < 1e-7
